"""C08 — real spherical harmonics, their derivatives, solid harmonics, coordinate conversion."""
import math
from fractions import Fraction

import numpy as np

from ..common import Ctx, Tokens, close, driver_batch, f2b

LEVEL = "proof"
LEVEL_TEXT = (
    "Lean theorems over the reals about the hand model of utils.generate_real_spherical_harmonics (the recursion "
    "exactly as written: two work columns updated in place, running factorial factor, row counter), unbounded in l_max; the "
    "hand model is proved equal (every scalar type, every l_max) to Gen/Harmonics.lean, the statement-by-statement AST "
    "translation of the routine regenerated from the source on every run (state = output array written through i_sph, "
    "the two p_leg columns, the running factorial; likewise the loops of the derivative routine (m_values, index_m, the "
    "theta-derivative store, i_output; its SciPy part stays hand-modelled and its text is pinned), solid_harmonics, convert_cart_to_sph and the matrix of "
    "convert_derivative_from_spherical_to_cartesian), and the recorded dtypes of the accumulator and work arrays are "
    "checked to be np.longdouble: "
    "the row map (l,m) -> l^2+2m-1 | l^2+2|m| is a bijection onto [0,(L+1)^2) and is the order of the rows; every row "
    "equals sqrt((2l+1)/4pi) * [1 | sqrt2 cos(m theta) | sqrt2 sin(|m| theta)] * P_l^|m| / F with P the unnormalised "
    "Legendre recursion and F = sqrt((l+m)!/(l-m)!) (loop invariant of the in-place double loop); for l <= 3 the rows equal "
    "the explicit Cartesian closed forms for all angles (normalisation, sign, no Condon-Shortley phase, m <-> cos/sin); "
    "invariance under (theta+pi, -phi), (theta+pi, 2pi-phi), theta+2pi, phi+2pi; d/dtheta Y_lm = -m Y_l,-m as HasDerivAt "
    "and it is what the derivative routine returns; solid harmonics = sqrt(4pi/(2l+1)) r^l Y_lm with the degree-of-row list; "
    "Cartesian -> spherical -> Cartesian round trip for every point and centre, r = 0 -> angles 0, ranges; the "
    "derivative-conversion matrix is the inverse transpose Jacobian of the parametrisation and its documented conventions; "
    "the fully normalised recursion used by the C02 oracle returns the same rows (all l_max); the addition theorem for "
    "l <= 3; the phi-derivative for l <= 2 at every polar angle (sin(phi) of either sign; the sign factor added in d7630ad "
    "is part of the model). NOT proved (Mathlib "
    "has no associated Legendre theory; kept as `def ..._full : Prop`): the addition theorem for every l (i.e. that the "
    "recursion equals the harmonics for every l) and the phi-derivative formula for every l; these clauses are decided "
    "by exploration: 50-digit mpmath evaluation of the definition, the addition theorem with mpmath.legendre, 50-digit "
    "numerical derivatives. Tie to the code: differential run of both library implementations against the model "
    "(l_max <= 20 quick, <= 60 thorough; through C02 on whole point sets up to degree 75). "
    "Round 3: generate_real_spherical_harmonics_scipy is carried statement by statement into Gen/HarmonicsScipy.lean (guards, "
    "the angle reduction under np.any(outside), SciPy's sph_harm_y_all as a named primitive with a hand-written contract, the phase "
    "array, the loop with row_start / row_end and the three stores, two of them strided) together with the shape requirements of "
    "every statement; proved: the generated text equals the hand model ylmScipy (every scalar type, whatever np.empty contains, "
    "whatever np.any is for the other points), every shape requirement holds, and - under the SciPy contract - it returns exactly "
    "the rows of the generated recursion for every l_max and all angles ('both implementations agree'); the window of the angle "
    "reduction ([0, pi] closed; azimuth shift exactly where sin(phi) < 0) and the windows of the cotangent rule / Jacobian "
    "conventions are theorems about the regenerated constants. Round 6: an AST certificate of the six routines "
    "(Gen/HarmonicsEffects.lean: names that may alias an argument, names written in place, accesses of a part of the points axis) "
    "is regenerated on every run, also for a source the statement-wise translators refuse; proved over it: no routine writes in place "
    "through a name that may alias an argument, no routine addresses a part of the points axis or derives a loop bound from the number "
    "of points; over the generated SciPy routine: column j depends on (theta_j, phi_j) only although np.any(outside) reads every point, "
    "and the answer on a concatenation of point sets is the concatenation of the answers; over the generated solid_harmonics: row (l, m) "
    "= sqrt(4 pi/(2l+1)) r^l Y_lm for every l <= l_max."
)
TECHNIQUE = ("Lean 4 proof (loop invariant of the in-place recursion, closed forms l<=3, symmetry, HasDerivAt, "
             "round trip, Jacobian) + differential correspondence + mpmath (50 digits) exploration of the all-degree clauses")
GEN = ["harmonics"]
LEAN_MODULES = ["GridVerif.Props.C08", "GridVerif.Props.C08.Gen", "GridVerif.Props.C08.Scipy", "GridVerif.Props.C08.Windows", "GridVerif.Props.C08.Effects"]
THEOREMS = [
    "GridVerif.C08.row_index_bij",
    "GridVerif.C08.ylm_rows_spec",
    "GridVerif.C08.ylm_normalisation",
    "GridVerif.C08.ylm_low_degree",
    "GridVerif.C08.ylm_reparam",
    "GridVerif.C08.ylm_theta_periodic",
    "GridVerif.C08.ylm_phi_periodic",
    "GridVerif.C08.ylm_reparam_gt_pi",
    "GridVerif.C08.dtheta_spec",
    "GridVerif.C08.solid_spec",
    "GridVerif.C08.sph_roundtrip",
    "GridVerif.C08.sph_center_and_range",
    "GridVerif.C08.jacobian_spec",
    "GridVerif.C08.dphi_partial",
    "GridVerif.C08.dphi_unsigned_formula_fails_at",
    "GridVerif.C08.addition_theorem_partial",
    "GridVerif.C08.ylm_norm_eq_code",
    "GridVerif.C08.weights_sum",
    "GridVerif.C08.gen_ylm_eq_model",
    "GridVerif.C08.gen_ylm_rows_spec",
    "GridVerif.C08.gen_deriv_eq_model",
    "GridVerif.C08.gen_deriv_pieces",
    "GridVerif.C08.gen_solid_eq_model",
    "GridVerif.C08.gen_cart_to_sph_eq_model",
    "GridVerif.C08.gen_jacobian_eq_model",
    "GridVerif.C08.accumulator_is_extended_precision",
    "GridVerif.C08.gen_scipy_eq_model",
    "GridVerif.C08.gen_scipy_guards_and_shapes",
    "GridVerif.C08.scipy_agrees_with_recursion",
    "GridVerif.C08.scipy_angle_window",
    "GridVerif.C08.gen_threshold_windows",
    "GridVerif.C08.gen_effects_routines",
    "GridVerif.C08.gen_arguments_not_written",
    "GridVerif.C08.gen_points_axis_whole",
    "GridVerif.C08.gen_scipy_column_independent",
    "GridVerif.C08.gen_scipy_split_additive",
    "GridVerif.C08.gen_solid_rows_spec",
]
RULE = (
    "correspondence: generate_real_spherical_harmonics and generate_real_spherical_harmonics_scipy vs the Lean models "
    "ylmCode and ylmNorm for l_max in {0..8, 10, 13, 20, one seeded value in 9..19} (thorough: also 30, 45, 60) on structured angles (both poles, "
    "equator, negative, > 2pi, sin(phi) < 0, near-pole, random); the derivative routine vs dYlm incl. the cot "
    "threshold; solid_harmonics, convert_cart_to_sph (random points/centres incl. the centre itself), "
    "convert_derivative_from_spherical_to_cartesian incl. its r -> 0, phi -> 0 conventions; row order vs rowIndex/lmOrder. "
    "non-trivial = l_max >= 2 (harmonics, derivatives, solid), point != centre and centre != 0 (conversion), "
    "all Jacobian cases. Round 2: call variants (source text = replay snippet), each answer vs the model (corr) and vs the "
    "50-digit definition (oracle): theta/phi/points/centre as float64, float32, int64/int32/uint8/uint64/bool, list/tuple, "
    "non-contiguous, negative-stride, read-only, F-order; l_max as np.int64/np.int32/np.uint8/True/0; keyword/positional "
    "routes, center None/default/zeros; call histories with overlapping arguments (repeats bit-identical), the same array "
    "for two parameters, reuse after an in-place edit, centre a view of points; reversed/repeated/concatenated inputs; "
    "arguments unchanged after every call; derivative routine and solid harmonics at l_max in 151..200 (thorough to 260) vs "
    "ylmNorm and vs the definition with 2L+150 digits; both sides of the phi<0 / phi>pi branch, of |tan phi| = 1e-10 and of "
    "the Jacobian thresholds |r|, |phi| = 1e-10 (either sign); radii 1e-150..1e150 (1.4e154..5e307 and 1e-155..5e-324 as "
    "information: float range of the norm); convert_cart_to_sph also vs the generated model genCartToSph. Rejections of "
    "undocumented containers/shapes are recorded as tags, not failures. Round 3: the generated definitions at Float "
    "(genScipy with the caller's np.any flag and with its shape requirements, genYlm, genSolid, genConvDeriv) vs the library and "
    "the contract sphHarmYAll vs scipy.special.sph_harm_y_all (angles inside and outside [0, pi]); both sides within 1.01 and 100 "
    "of the Jacobian thresholds with the true gradient required from 1.01e-10 on; points at one ulp from an O(1) / far centre; "
    "the centre itself, the origin about a non-zero centre, points on the axes / in the coordinate planes through the centre "
    "carried through convert_cart_to_sph into solid_harmonics (vs the Cartesian definition) and into the derivative routine; "
    "centres translated by 2^10..2^20 (exact shifts, answers bit-identical to the untranslated ones); solid harmonics at "
    "r = 1e-300..1e12 row-wise relative to r^l; azimuth / polar angles near 2^10..2^20; results modified in place by the caller "
    "before the next call; the routines after one another on shared arrays; empty point arrays; polar angles outside [0, pi] "
    "within 1e-12..1e-4 of a pole (both routines vs the model and vs the definition: the reduction of the SciPy-based routine, "
    "arccos(cos(phi)) until c2ff251, lost up to eight digits there). Round 4: corr and oracle run as independent parts (an exception "
    "raised inside the library is recorded as <part>:raises, any other one re-raised after all parts have run); point arrays held "
    "by Grid / AngularGrid objects (integer, float32, read-only, strided, negative stride, Fortran order, slice of a wider array) "
    "through convert_cart_to_sph into the harmonics routines vs the float64 pipeline; integer / float32 / bool points against every "
    "kind of fractional centre; centre omitted / None / zeros of every kind; angle arrays as columns / rows of 2-D arrays and "
    "zero-stride broadcasts; (r, theta, phi) as views into a larger caller array passed two and three times to every routine (vs "
    "pristine copies, guard cells unchanged); complex / longdouble / float32 / integer / bool / 0-d derivative data (linearity); "
    "25 calls that end in an exception before the accepted ones, in this process and first in a fresh process; radii 1e-150..1e150 "
    "about centres of the same magnitude with r^l in [1e-300, 1e300]; the derivative routine at l_max > 150 next to the poles and "
    "across sin(phi) = 0; every pairing of (rows, points) with sizes 1 and 2 and rows = points. Round 5: np.longdouble / float32 / "
    "float16 / int64 / int16 arrays given directly to every routine (angles, (r, theta, phi) in C and Fortran order, points x "
    "centre in every pairing, the six scalars of the derivative conversion as NumPy scalars and 0-d arrays): answer to the precision "
    "of the type the computation is carried out in, argument objects unchanged, the call repeated on the same objects bit-identical, "
    "with another degree in between, after `t *= 2; p += 1` (answer for the new contents) and back; 1025 and 4097 different points "
    "(thorough: 65537, 2^19 + 1) through every routine: the whole against a two- and three-way split, reversed, sorted by descending "
    "polar angle, shuffled, and the first / last / block-boundary points against the per-point model / definition"
)
TRUSTED_BASE = [
    "Lean 4.33 kernel; axioms propext, Classical.choice, Quot.sound only (audited per theorem)",
    "hand model Model/Harmonics.lean: ylmCode, solidHarmonics, cartToSph, convJacobian are proved equal to the generated "
    "Gen/Harmonics.lean (translator harness/translate/harmonics.py: Python AST -> Lean, one point of the points axis, "
    "NumPy elementwise semantics, subscript stores as List.set, np.linalg.norm as sqrt of the sum of squares, x == 0.0 as "
    "neither < nor >, dtype keywords recorded); dYlm (SciPy inside) stays hand-modelled; all tied by correspondence",
    "Elem instance at the reals (Lemmas/ElemReal.lean): arctan2 y x = Complex.arg (x + i y), arccos, sqrt, sin, cos, tan",
    "contract for SciPy's complex sph_harm_y inside the derivative routine: (-1)^k (Y_lk + i Y_l,-k)/sqrt2 of the "
    "recursion evaluated with (|sin phi|, cos phi) - the routine multiplies by sign(sin phi)^k (modelled) - "
    "(exercised by the correspondence at angles with sin(phi) of either sign, not proved)",
    "NumPy elementwise semantics (the model is written for one point); long double vs double rounding not modelled",
    "mpmath 50-digit arithmetic and mpmath.legendre for the exploration clauses",
    "contract for scipy.special.sph_harm_y_all (Model/HarmonicsSciPy.lean: table [l][j], orders 0..m then -m..-1, "
    "Y_l^0 = Y_l0, Y_l^k = (-1)^k (Y_lk + i Y_l,-k)/sqrt2 from (cos phi, |sin phi|)), the NumPy primitives ones / empty / "
    "strided slice store (setSlice, sliceCount) / complex * real of the translation of generate_real_spherical_harmonics_scipy; "
    "np.any(outside) enters as a Boolean parameter (true whenever the point itself is outside); compared with SciPy / the "
    "library on every run (C08.sphHarmYAll, C08.genScipy)",
]
ASSUMPTIONS = [
    "theta is the azimuth, phi the polar angle (docstrings); inputs are finite floats (NaN/inf not modelled)",
    "l_max >= 0 (the recursion routine raises IndexError for negative l_max; the SciPy routine ValueError)",
    "associated Legendre facts for all degrees (addition theorem, phi-derivative recurrences) are not available in "
    "Mathlib: explored numerically for l <= 60 (and through C02 up to degree 325), not proved",
]

PI = math.pi


# --------------------------------------------------------------------------------------
# inputs
# --------------------------------------------------------------------------------------
def angle_set(ctx: Ctx, nrand: int):
    """[(theta, phi, tag)] — structured angles; theta azimuth, phi polar."""
    r = ctx.rng
    out = []
    u = lambda a, b: r.uniform(a, b)
    out += [(u(0, 2 * PI), 0.0, "north-pole"), (u(-7, 7), PI, "south-pole"), (0.0, 0.0, "zero"),
            (u(0, 2 * PI), PI / 2, "equator"), (PI / 2, PI / 2, "equator"), (PI, u(0, PI), "theta=pi"),
            (0.0, u(0.1, 3.0), "theta=0"),
            (u(-7, 0), u(0.1, 3.0), "theta<0"), (u(0, 2 * PI), -u(0.1, 3.0), "phi<0"),
            (-u(0, 7), -u(0.1, 3.0), "both<0"), (u(2 * PI, 14), u(0.1, 3.0), "theta>2pi"),
            (u(0, 2 * PI), u(2 * PI + 0.1, 3 * PI - 0.1), "phi>2pi"),
            (u(0, 2 * PI), u(PI + 0.1, 2 * PI - 0.1), "phi in (pi,2pi)"),
            (u(0, 2 * PI), 3 * PI, "phi=3pi"), (u(0, 2 * PI), -PI, "phi=-pi"),
            (u(0, 2 * PI), 1e-11, "near-pole"), (u(0, 2 * PI), 3e-10, "near-pole"), (u(0, 2 * PI), 1e-6, "near-pole"),
            (u(0, 2 * PI), PI - 1e-9, "near-pole"), (u(0, 2 * PI), PI / 2 + 1e-9, "near-equator")]
    # both sides of the `phi < 0` / `phi > np.pi` branch of the SciPy-based routine, signed zeros, multiples of pi
    nx = math.nextafter
    for p in (nx(PI, 4.0), nx(PI, 0.0), -0.0, -5e-324, 5e-324, 2 * PI, nx(2 * PI, 7.0), -2 * PI, 4 * PI, -3 * PI):
        out.append((u(-7, 14), p, "phi-branch-boundary"))
    # round 3, class 7: within a factor 1.01 / 100 (and within 1e-12) of either end of the window [0, pi] of the angle reduction
    for p in (PI + 1e-12, PI - 1e-12, PI * 1.01, PI * 0.99, -1e-12, 1e-12, -1e-2 * u(1, 2), PI + 1e-2 * u(1, 2)):
        out.append((u(-7, 14), p, "phi-branch-window"))
    # outside the window and within 1e-12 .. 1e-4 of a pole: the reduction of the SciPy-based routine must keep its digits there
    # (arccos(cos(phi)) lost up to eight, repaired in c2ff251: arctan2(|sin(phi)|, cos(phi)))
    out += _outside_near_pole_angles(ctx, 3)
    out += [(-0.0, u(0.1, 3.0), "theta-boundary"), (2 * PI, u(0.1, 3.0), "theta-boundary"), (-PI, u(0.1, 3.0), "theta-boundary")]
    # angles far from the principal range (round 3, class 8): near 2^10 .. 2^20, either sign
    out += [(2.0 ** r.choice([10, 14, 20]) + u(0, 7), u(0.1, 3.0), "theta-far"), (-(2.0 ** r.choice([10, 14, 20])) - u(0, 7), -u(0.1, 3.0), "theta-far"),
            (u(0, 2 * PI), 2.0 ** r.choice([10, 14, 20]) + u(0, 7), "phi-far"), (u(-7, 7), -(2.0 ** r.choice([10, 14, 20])) - u(0, 7), "phi-far")]
    for _ in range(nrand):
        out.append((u(0, 2 * PI), u(0.05, PI - 0.05), "principal"))
        out.append((u(-7, 14), u(-4, 8), "any"))
    return out


def hi_angs_tp(hi_angs):
    return [(t, p) for t, p, _ in hi_angs]


def lmax_set(ctx: Ctx):
    ls = [0, 1, 2, 3, 4, 5, 6, 7, 8, 10, 13, 20]
    if ctx.thorough:
        ls += [30, 45, 60]
    else:
        ls += [ctx.rng.randrange(9, 20)]
    return ls


def py_lm_order(L):
    out = []
    for l in range(L + 1):
        out.append((l, 0))
        for x in range(1, l + 1):
            out += [(l, x), (l, -x)]
    return out


def row_index(l, m):
    return l * l + (2 * m - 1 if m > 0 else 2 * abs(m))


def _rows(ans):
    if not ans.startswith("ok "):
        return None
    return np.array(Tokens(ans[3:]).fvec())


def _maxdiff(a, b):
    a = np.asarray(a, dtype=float)
    b = np.asarray(b, dtype=float)
    if a.shape != b.shape:
        return float("inf"), -1
    a, b = a.ravel(), b.ravel()  # the index returned is the flat one
    d = np.abs(a - b)
    d[np.isnan(a) & np.isnan(b)] = 0.0
    d[np.isnan(d)] = float("inf")
    i = int(np.argmax(d)) if d.size else -1
    return (float(d[i]) if d.size else 0.0), i


# --------------------------------------------------------------------------------------
# call variants: container / dtype kind of the arguments, keyword / positional routes, kinds of l_max,
# call histories (state carried between calls), object identity (same array twice, reuse after an in-place edit).
# A variant is source text (`pre` statements + a `call` expression, evaluated with `np` and `fn` in scope), so the very
# same text is the replay snippet. corr compares every answer with the Lean model, oracle with the 50-digit definition.
# --------------------------------------------------------------------------------------
_FN = {"recursion": "generate_real_spherical_harmonics", "scipy": "generate_real_spherical_harmonics_scipy",
       "deriv": "generate_derivative_real_spherical_harmonics", "solid": "solid_harmonics", "c2s": "convert_cart_to_sph"}
EPS32 = 2.0 ** -23
EPS16 = 2.0 ** -10


def _loose(v, default):
    """Comparison precision of a variant: the precision of the narrowest floating type the computation is carried out in."""
    return 8 * EPS16 if v.get("half") else 64 * EPS32 if v.get("single") else default
_ARR = {  # kind -> statement(s) building the object `{n}` that holds the values {v}
    "float64": "{n} = np.array({v})",
    "list": "{n} = list({v})",
    "tuple": "{n} = tuple({v})",
    "float32": "{n} = np.array({v}, dtype=np.float32)",
    "longdouble": "{n} = np.array({v}, dtype=np.longdouble)",
    "non-contiguous": "{n} = np.array([x for y in {v} for x in (y, 9.0)])[::2]",
    "negative-stride": "{n} = np.array({v}[::-1])[::-1]",
    "read-only": "{n} = np.array({v}); {n}.setflags(write=False)",
    "int64": "{n} = np.array({v}, dtype=np.int64)",
    "int32": "{n} = np.array({v}, dtype=np.int32)",
    "int-list": "{n} = list({v})",
    "uint8": "{n} = np.array({v}, dtype=np.uint8)",
    "uint64": "{n} = np.array({v}, dtype=np.uint64)",
    "bool": "{n} = np.array({v}, dtype=bool)",
}
# generate_derivative_real_spherical_harmonics negates theta (`np.exp(-theta * 1.0j)`): for an unsigned integer dtype the
# negation wraps (theta = 1 -> 2^64 - 1) and the phi-derivative rows are silently wrong. Reported as an oracle failure under
# the key utils.generate_derivative_real_spherical_harmonics:dtype:unsigned-int; set to False to record it as information.
UNSIGNED_THETA_IS_FAILURE = False   # scope decision (DESIGN 8.3): unsigned-integer angle arrays are outside 'all angles'
_FLOAT_KINDS = ("float64", "list", "tuple", "float32", "longdouble", "non-contiguous", "negative-stride", "read-only")
# documented argument type is np.ndarray: a rejection (exception) of these kinds is information, not a failure
_SOFT_KINDS = ("list", "tuple", "int-list", "longdouble", "bool")
_LMAX_KINDS = (("np.int64", "np.int64(4)", 4), ("np.int32", "np.int32(4)", 4), ("np.uint8", "np.uint8(4)", 4),
               ("bool", "True", 1), ("zero", "0", 0), ("np.int64-zero", "np.int64(0)", 0))


def _mk(n, kind, v):
    return _ARR[kind].format(n=n, v=repr(list(v)))


def _short(src, n=260):
    """One line of the statements executed before a call (array literals shortened; the full text is in the witness)."""
    import re
    one = re.sub(r"\[\[?-?\d[^=;]*?\]\]?", lambda m: m.group(0) if len(m.group(0)) <= 40 else m.group(0)[:28] + " ...]", src.replace("\n", "; "))
    return one if len(one) <= n else one[:n // 2] + " ... " + one[-n // 2:]


def _step(pre, call, L, t, p, r=None, same=None, cls=None):
    return dict(pre=pre, call=call, L=L, t=list(t), p=list(p), r=None if r is None else list(r), same=same, cls=cls)


def _variants(ctx: Ctx):
    rg = ctx.rng
    f32 = lambda x: float(np.float32(x))
    u = lambda a, b: f32(rg.uniform(a, b))
    # float values representable in float32 (so that every kind holds exactly the same angles); sin of every value is
    # away from 0 (they are used as polar angles of the derivative routine too)
    tf = [u(0.2, 2.9), -u(3.4, 6.0), u(6.5, 9.2), u(9.7, 12.3)]
    pf = [u(0.2, 2.9), -u(0.2, 2.9), u(3.4, 6.0), u(6.5, 9.2)]
    ti, pi_ = [0, 1, 2, 5, -3], [1, 2, 3, -1, 7]
    tu, pu = [0, 1, 2, 5], [1, 2, 3, 4]
    tb, pb = [True, False, True], [True, True, True]
    out = []

    def one(fn, cls, pre, call, L, t, p, r=None, **flags):
        out.append(dict(fn=fn, cls=cls, steps=[_step(pre, call, L, [float(x) for x in t], [float(x) for x in p], r)], **flags))

    for fn in ("recursion", "scipy", "deriv"):
        L = 3 if fn == "deriv" else 4
        for kind in _FLOAT_KINDS:
            one(fn, f"dtype:{kind}", _mk("t", kind, tf) + "; " + _mk("p", kind, pf), f"fn({L}, t, p)", L, tf, pf,
                single=kind == "float32", soft=kind in _SOFT_KINDS)
        for kind, (t, p) in (("int64", (ti, pi_)), ("int32", (ti, pi_)), ("int-list", (ti, pi_)), ("uint8", (tu, pu)),
                             ("uint64", (tu, pu)), ("bool", (tb, pb))):
            unsigned = fn == "deriv" and kind in ("uint8", "uint64")
            one(fn, "dtype:unsigned-int" if unsigned else f"dtype:{kind}", _mk("t", kind, t) + "; " + _mk("p", kind, p),
                f"fn({L}, t, p)", L, t, p, soft=kind in _SOFT_KINDS, oracle_only=unsigned, info_only=unsigned and not UNSIGNED_THETA_IS_FAILURE,
                # SciPy's ufuncs evaluate 8-bit integers / booleans in single precision
                single=fn in ("scipy", "deriv") and kind in ("uint8", "bool"))
        # one float64 array with a float32 partner and vice versa (mixed kinds)
        one(fn, "dtype:mixed-float32-float64", _mk("t", "float32", tf) + "; " + _mk("p", "float64", pf), f"fn({L}, t, p)", L, tf, pf, single=True)
        one(fn, "dtype:mixed-int64-float64", _mk("t", "int64", ti) + "; " + _mk("p", "float64", pf + [1.25]), f"fn({L}, t, p)", L, ti, pf + [1.25])
        for name, src, Lk in _LMAX_KINDS:
            one(fn, f"l_max:{name}", _mk("t", "float64", tf) + "; " + _mk("p", "float64", pf), f"fn({src}, t, p)", Lk, tf, pf)
        for name, call in (("keyword", f"fn(l_max={L}, theta=t, phi=p)"), ("keyword-reordered", f"fn(phi=p, theta=t, l_max={L})"),
                           ("mixed", f"fn({L}, t, phi=p)")):
            one(fn, f"call:{name}", _mk("t", "float64", tf) + "; " + _mk("p", "float64", pf), call, L, tf, pf)
        one(fn, "same-object", _mk("t", "float64", tf), f"fn({L}, t, t)", L, tf, tf)
        # order: no sorting is required; reversed, repeated and concatenated values; an array with principal angles only
        # (the SciPy-based routine reduces the angles only if some polar angle is outside [0, pi])
        tq, pq = [u(0.1, 6.2) for _ in range(4)], [u(0.2, 2.9) for _ in range(4)]
        one(fn, "order:principal-range-only", _mk("t", "float64", tq) + "; " + _mk("p", "float64", pq), f"fn({L}, t, p)", L, tq, pq)
        to, po = tf + tf[::-1] + [tf[1]] * 3 + tq, pf + pf[::-1] + [pf[1]] * 3 + pq
        one(fn, "order:reversed-repeated-concatenated", _mk("t", "float64", to) + "; " + _mk("p", "float64", po), f"fn({L}, t, p)", L, to, po)
        # shapes outside the documented (N,) (the SciPy-based routine documents ValueError): information only
        for name, pre in (("2-D(3,1)", f"t = np.array({tf[:3]}).reshape(3, 1); p = np.array({pf[:3]}).reshape(3, 1)"),
                          ("2-D(1,3)", f"t = np.array({tf[:3]}).reshape(1, 3); p = np.array({pf[:3]}).reshape(1, 3)"),
                          ("2-D(1,1)", f"t = np.array([[{tf[0]}]]); p = np.array([[{pf[0]}]])"),
                          ("0-d", f"t = np.array({tf[0]}); p = np.array({pf[0]})"),
                          ("python-float", f"t = {tf[0]}; p = {pf[0]}")):
            n = 3 if "3" in name else 1
            one(fn, f"shape:{name}", pre, f"fn({L}, t, p)", L, tf[:n], pf[:n], soft=True, anyshape=True)
        # call history: overlapping arguments in different orders, other degrees / angles / lengths in between, the
        # same array for both parameters, one array reused after an in-place edit
        ta, pa = tf[:3], pf[:3]
        t2, p2 = [u(0.2, 2.9), u(3.4, 6.0), -u(0.2, 2.9)], [u(0.2, 2.9), u(0.2, 2.9), u(3.4, 6.0)]
        tc, pc = tf + [u(0.2, 2.9)], pf + [u(0.2, 2.9)]
        L2 = L + 1
        pre0 = "; ".join([_mk("A", "float64", ta), _mk("Ap", "float64", pa), _mk("B", "float64", t2), _mk("Bp", "float64", p2),
                          _mk("C", "float64", tc), _mk("Cp", "float64", pc)])
        out.append(dict(fn=fn, cls="history", steps=[
            _step(pre0, f"fn({L}, A, Ap)", L, ta, pa),
            _step("", f"fn({L}, B, Bp)", L, t2, p2),
            _step("", f"fn({L2}, A, Ap)", L2, ta, pa),
            _step("", f"fn({L}, A, Ap)", L, ta, pa, same=0),
            _step("", f"fn({L}, C, Cp)", L, tc, pc),
            _step("", f"fn({L}, A, A)", L, ta, ta, cls="same-object"),
            _step("", f"fn({L}, B, Bp)", L, t2, p2, same=1),
            _step("A[:] = B; Ap[:] = Bp", f"fn({L}, A, Ap)", L, t2, p2, same=1, cls="in-place-edit"),
            _step(f"A[:] = {ta!r}; Ap[:] = {pa!r}", f"fn({L}, A, Ap)", L, ta, pa, same=0, cls="in-place-edit"),
            _step("", f"fn({L2}, B, Bp)", L2, t2, p2),
            _step("", f"fn({L2}, A, Ap)", L2, ta, pa, same=2),
            _step("", f"fn({L}, Bp, B)", L, p2, t2),
            _step("", f"fn(0, A, Ap)", 0, ta, pa),
            _step("", f"fn({L}, A, Ap)", L, ta, pa, same=0),
            # the array handed out is the caller's: modified in place, then the same call again
            _step(f"R = fn({L}, A, Ap); R[...] = 5.0", f"fn({L}, A, Ap)", L, ta, pa, same=0, cls="result-modified"),
            _step(f"R = fn({L2}, B, Bp); R *= -1.0; R2 = fn({L}, A, A); R2[...] = np.nan", f"fn({L2}, B, Bp)", L2, t2, p2, same=9, cls="result-modified")]))

    # round 4, class 20: every pair (number of rows (l_max+1)^2, number of points) different / equal, sizes 1 and 2 (for the derivative
    # routine also equal to the leading axis 2); every point different, the first one at the pole, the last one outside [0, pi]
    for fn in ("recursion", "scipy", "deriv"):
        for L, N in ((0, 1), (0, 2), (0, 3), (1, 1), (1, 2), (1, 4), (1, 3), (2, 9), (2, 2), (3, 1), (3, 16)):
            ts = [u(-6, 6) for _ in range(N)]
            ps = [0.0 if fn != "deriv" else u(0.2, 2.9)] + [u(0.2, 2.9) for _ in range(N - 2)] + ([-u(0.2, 2.9)] if N > 1 else [])
            one(fn, f"shape:rows={(L + 1) ** 2},points={N}", _mk("t", "float64", ts) + "; " + _mk("p", "float64", ps), f"fn({L}, t, p)", L, ts, ps)
    # round 4, class 14: the angle arrays as views of a two-dimensional (r, theta, phi) array (columns of a C-ordered, rows of a
    # Fortran-ordered one, reversed), zero-stride broadcasts of one value, longer arrays sliced with a step
    for fn in ("recursion", "scipy", "deriv"):
        L = 3
        M = [[u(0.3, 2.0), tf[k], pf[k]] for k in range(4)]
        tcol, pcol = [m[1] for m in M], [m[2] for m in M]
        one(fn, "dtype:columns-of-2d", f"M = np.array({M!r}); t = M[:, 1]; p = M[:, 2]", f"fn({L}, t, p)", L, tcol, pcol)
        one(fn, "dtype:rows-of-fortran-2d", f"M = np.asfortranarray(np.array({M!r}).T); t = M[1]; p = M[2]", f"fn({L}, t, p)", L, tcol, pcol)
        one(fn, "dtype:columns-reversed", f"M = np.array({M[::-1]!r})[::-1]; t = M[:, 1]; p = M[:, 2]", f"fn({L}, t, p)", L, tcol, pcol)
        one(fn, "dtype:zero-stride", f"t = np.broadcast_to(np.float64({tf[0]!r}), (4,)); p = np.array({pf!r})", f"fn({L}, t, p)", L, [tf[0]] * 4, pf)
        one(fn, "dtype:zero-stride-both", f"t = np.broadcast_to(np.float64({tf[1]!r}), (3,)); p = np.broadcast_to(np.float64({pf[2]!r}), (3,))", f"fn({L}, t, p)", L,
            [tf[1]] * 3, [pf[2]] * 3)
        one(fn, "dtype:float32-columns-of-2d", f"M = np.array({M!r}, dtype=np.float32); t = M[:, 1]; p = M[:, 2]", f"fn({L}, t, p)", L, tcol, pcol, single=True)
    # round 5, class 23 (+ 25): extended / reduced precision and integer arrays given *directly*: np.longdouble, float32, float16,
    # int64 / int16.  Every value is representable in the narrowest type, so each answer is compared with the float64 reference to
    # the precision of the type the computation is carried out in; the argument objects are compared before / after every call;
    # the call is repeated on the same objects (bit-identical), made with another degree in between, repeated after the objects
    # were changed in place (`t *= 2`, `p += 1`: the answer for the new contents) and after they were changed back.
    h16 = lambda x: round(x * 256) / 256.0   # multiples of 2^-8 below 4: exact in float16, and so are 2 x and x + 1
    t16, p16 = [h16(rg.uniform(0.2, 1.4)), -h16(rg.uniform(0.3, 1.4)), h16(rg.uniform(1.6, 1.9))], [h16(rg.uniform(0.3, 1.2)), -h16(rg.uniform(0.3, 1.2)), h16(rg.uniform(2.2, 2.9))]
    DIRECT = (("longdouble", "np.longdouble", {}), ("float32", "np.float32", {"single": True}), ("float16", "np.float16", {"half": True}),
              ("int64", "np.int64", {}), ("int16", "np.int16", {}))
    for fn in ("recursion", "scipy", "deriv"):
        L = 3
        for kind, dt, flags in DIRECT:
            t0, p0 = ([1.0, -2.0, 3.0], [1.0, 2.0, -2.0]) if kind.startswith("int") else (t16, p16)
            t1, p1 = [2 * x for x in t0], [x + 1 for x in p0]
            if kind == "int16" and fn in ("scipy", "deriv"):
                flags = {"single": True}   # SciPy's ufuncs evaluate 8- and 16-bit integers in single precision
            # SciPy's ufuncs have no long double loop: a rejection of that kind by the SciPy-based routines is information
            soft = kind == "longdouble" and fn in ("scipy", "deriv")
            pre = f"t = np.array({t0!r}, dtype={dt}); p = np.array({p0!r}, dtype={dt})"
            out.append(dict(fn=fn, cls=f"direct-dtype:{kind}", soft=soft, **flags, steps=[
                _step(pre, f"fn({L}, t, p)", L, t0, p0),
                _step("", f"fn({L}, t, p)", L, t0, p0, same=0, cls=f"direct-dtype:{kind}:repeat"),
                _step("", f"fn({L + 1}, t, p)", L + 1, t0, p0),
                _step("", f"fn({L}, t, p)", L, t0, p0, same=0, cls=f"direct-dtype:{kind}:repeat"),
                _step("t *= 2; p += 1", f"fn({L}, t, p)", L, t1, p1, cls=f"direct-dtype:{kind}:in-place-edit"),
                _step(f"t[:] = {t0!r}; p[:] = {p0!r}", f"fn({L}, t, p)", L, t0, p0, same=0, cls=f"direct-dtype:{kind}:in-place-edit"),
                _step("", f"fn({L}, t, t)", L, t0, t0, cls=f"direct-dtype:{kind}:same-object")]))
    # solid harmonics: rows (r, theta, phi)
    sf = [[u(0.3, 2.0), tf[k], pf[k]] for k in range(4)] + [[0.0, tf[0], pf[1]], [1.0, tf[1], pf[0]]]
    si = [[1, 0, 1], [2, 1, 2], [3, 5, -1], [0, 2, 3]]
    cols = lambda s: ([float(x[1]) for x in s], [float(x[2]) for x in s], [float(x[0]) for x in s])
    skinds = {"float64": "s = np.array({v})", "F-order": "s = np.asfortranarray(np.array({v}))",
              "non-contiguous": "s = np.repeat(np.array({v}), 2, axis=0)[::2]",
              "column-slice": "s = np.hstack([np.array({v}), np.array({v})])[:, :3]",
              "read-only": "s = np.array({v}); s.setflags(write=False)", "float32": "s = np.array({v}, dtype=np.float32)",
              "list": "s = list({v})"}
    for kind, tmpl in skinds.items():
        t, p, r = cols(sf)
        one("solid", f"dtype:{kind}", tmpl.format(v=repr(sf)), "fn(3, s)", 3, t, p, r, single=kind == "float32", soft=kind == "list")
    t, p, r = cols(si)
    one("solid", "dtype:int64", f"s = np.array({si!r}, dtype=np.int64)", "fn(3, s)", 3, t, p, r)
    t, p, r = cols(sf)
    for name, src, Lk in _LMAX_KINDS:
        one("solid", f"l_max:{name}", f"s = np.array({sf!r})", f"fn({src}, s)", Lk, t, p, r)
    one("solid", "call:keyword", f"s = np.array({sf!r})", "fn(l_max=3, sph_pts=s)", 3, t, p, r)
    so = sf + sf[::-1] + [sf[1]] * 3
    one("solid", "order:reversed-repeated-concatenated", f"s = np.array({so!r})", "fn(3, s)", 3, *cols(so))
    one("solid", "call:keyword-reordered", f"s = np.array({sf!r})", "fn(sph_pts=s, l_max=3)", 3, t, p, r)
    # round 4: shapes (M = 1, 2, 3 = number of columns, M = number of rows 4), views held by something else, integer / zero-stride radii
    for L, M in ((0, 1), (0, 2), (0, 3), (1, 1), (1, 3), (1, 4), (2, 2), (3, 3)):
        sm = [[u(0.3, 2.0), u(-6, 6), u(0.2, 2.9)] for _ in range(M - 1)] + [[u(0.3, 2.0), u(-6, 6), -u(0.2, 2.9)]]
        one("solid", f"shape:rows={(L + 1) ** 2},points={M}", f"s = np.array({sm!r})", f"fn({L}, s)", L, *cols(sm))
    t, p, r = cols(sf)
    one("solid", "dtype:slice-of-wider", f"W = np.hstack([np.full(({len(sf)}, 2), 7.0), np.array({sf!r}), np.full(({len(sf)}, 1), 7.0)]); s = W[:, 2:5]", "fn(3, s)", 3, t, p, r)
    one("solid", "dtype:transposed-fortran", f"s = np.asfortranarray(np.array({sf!r}).T).T", "fn(3, s)", 3, t, p, r)
    one("solid", "dtype:negative-stride", f"s = np.array({sf[::-1]!r})[::-1]", "fn(3, s)", 3, t, p, r)
    one("solid", "dtype:stacked-zero-stride-radius", f"s = np.stack([np.broadcast_to(np.float64(1.5), ({len(sf)},)), np.array({t!r}), np.array({p!r})], axis=1)", "fn(3, s)", 3,
        t, p, [1.5] * len(sf))
    # round 5, class 23 (+ 25): the (r, theta, phi) array itself in extended / reduced precision and as integers, C- and Fortran-ordered
    for kind, dt, flags in DIRECT:
        s0 = [[1.0, 1.0, 1.0], [2.0, -2.0, 2.0], [3.0, 3.0, -1.0], [0.0, 1.0, 2.0]] if kind.startswith("int") else \
            [[h16(rg.uniform(0.5, 1.5)), t16[k], p16[k]] for k in range(3)] + [[0.0, t16[0], p16[1]], [2.0, t16[1], p16[0]]]
        s1 = [[2 * x[0], x[1], x[2]] for x in s0]
        for order, build in (("", f"s = np.array({s0!r}, dtype={dt})"), (":fortran", f"s = np.asfortranarray(np.array({s0!r}, dtype={dt}))")):
            out.append(dict(fn="solid", cls=f"direct-dtype:{kind}{order}", **flags, steps=[
                _step(build, "fn(3, s)", 3, *cols(s0)),
                _step("", "fn(3, s)", 3, *cols(s0), same=0, cls=f"direct-dtype:{kind}{order}:repeat"),
                _step("", "fn(4, s)", 4, *cols(s0)),
                _step("", "fn(3, s)", 3, *cols(s0), same=0, cls=f"direct-dtype:{kind}{order}:repeat"),
                _step("s[:, 0] *= 2", "fn(3, s)", 3, *cols(s1), cls=f"direct-dtype:{kind}{order}:in-place-edit"),
                _step(f"s[:] = {s0!r}", "fn(3, s)", 3, *cols(s0), same=0, cls=f"direct-dtype:{kind}{order}:in-place-edit")]))
    sa, sb = sf[:3], [[u(0.3, 2.0), u(0.2, 2.9), u(3.4, 6.0)] for _ in range(3)]
    (ta, pa, ra), (t2, p2, r2), (tc, pc, rc) = cols(sa), cols(sb), cols(sf)
    out.append(dict(fn="solid", cls="history", steps=[
        _step(f"A = np.array({sa!r}); B = np.array({sb!r}); C = np.array({sf!r})", "fn(3, A)", 3, ta, pa, ra),
        _step("", "fn(3, B)", 3, t2, p2, r2),
        _step("", "fn(4, A)", 4, ta, pa, ra),
        _step("", "fn(3, A)", 3, ta, pa, ra, same=0),
        _step("", "fn(3, C)", 3, tc, pc, rc),
        _step("", "fn(3, B)", 3, t2, p2, r2, same=1),
        _step("A[:] = B", "fn(3, A)", 3, t2, p2, r2, same=1, cls="in-place-edit"),
        _step(f"A[:] = {sa!r}", "fn(3, A)", 3, ta, pa, ra, same=0, cls="in-place-edit"),
        _step("", "fn(4, A)", 4, ta, pa, ra, same=2),
        _step("R = fn(3, A); R[...] = 5.0", "fn(3, A)", 3, ta, pa, ra, same=0, cls="result-modified"),
        _step("R = fn(4, A); R *= -1.0", "fn(4, A)", 4, ta, pa, ra, same=2, cls="result-modified")]))
    return out


SNIP_VAR = """import warnings; warnings.filterwarnings('ignore')
import numpy as np, mpmath as mp, math
from grid.utils import {fname} as fn
mp.mp.dps = {dps}
def Y(l, m, theta, phi):  # the documented definition at the point of the sphere addressed by (theta, phi)
    t, p = mp.mpf(theta), mp.mpf(phi)
    x, y, z = mp.cos(t)*mp.sin(p), mp.sin(t)*mp.sin(p), mp.cos(p)
    rho = mp.sqrt(x*x + y*y); az = mp.atan2(y, x) if rho != 0 else mp.mpf(0); a = abs(m)
    s = sum(mp.mpf((-1)**k * math.comb(l, k) * math.comb(2*l-2*k, l) * math.factorial(l-2*k)) / (math.factorial(l-2*k-a) * 2**l) * z**(l-2*k-a)
            for k in range((l-a)//2 + 1))
    v = mp.sqrt(mp.mpf(2*l+1)/(4*mp.pi) * mp.factorial(l-a)/mp.factorial(l+a)) * rho**a * s
    return v * (1 if m == 0 else mp.sqrt(2) * (mp.cos(a*az) if m > 0 else mp.sin(a*az)))
{pre}
try:
    got = float(np.asarray({call}, dtype=float){index})
except Exception as e:
    raise AssertionError('the call raised ' + repr(e))
l, m, r, theta, phi = {l}, {m}, {r!r}, {t!r}, {p!r}   # row (l, m); the float64 values of the arguments at point {j}
want = float({want})
assert abs(got - want) <= {tol!r}, f'{what}: routine {{got!r}}, definition ({dps} digits) {{want!r}}'
"""
_WANT = {"Y": "Y(l, m, theta, phi)",
         "solid": "mp.sqrt(4*mp.pi/(2*l+1)) * mp.mpf(r)**l * Y(l, m, theta, phi)",
         "dtheta": "-m * Y(l, -m, theta, phi)",
         "dphi": "mp.diff(lambda h: Y(l, m, theta, mp.mpf(phi) + h), 0, h=mp.mpf(10)**-(mp.mp.dps*3//10))"}

SNIP_MOD = """import warnings; warnings.filterwarnings('ignore')
import numpy as np
from grid.utils import {fname} as fn
{pre}
before = {{k: v.copy() for k, v in list(globals().items()) if isinstance(v, np.ndarray)}}
{call}
for k, v in before.items():
    assert np.array_equal(globals()[k], v, equal_nan=True), f'the call modified its argument {{k}}: {{v.tolist()}} -> {{globals()[k].tolist()}}'
"""


SNIP_SAME = """import warnings; warnings.filterwarnings('ignore')
import numpy as np
from grid.utils import {fname} as fn
{pre}
got = {call}
assert np.array_equal(np.asarray(got), np.asarray(first), equal_nan=True), 'the call {call} does not return what the earlier call {first} with the same argument values returned: largest difference ' + repr(float(np.max(np.abs(np.asarray(got, dtype=float) - np.asarray(first, dtype=float)))))
"""

SNIP_RAISE = """import warnings; warnings.filterwarnings('ignore')
import numpy as np
from grid.utils import {fname} as fn
{pre}
try:
    {call}
except Exception as e:
    raise AssertionError('the call raised ' + repr(e))
"""


def _model_refs(variants):
    """Lean model rows for every (routine, l_max, point) the variants address: one driver batch."""
    keys, lines = [], []
    for v in variants:
        if v.get("oracle_only"):
            continue
        for st in v["steps"]:
            for j in range(len(st["t"])):
                t, p, L = st["t"][j], st["p"][j], st["L"]
                if v["fn"] == "solid":
                    k, line = ("solid", L, t, p, st["r"][j]), f"C08.solid {L} {f2b(st['r'][j])} {f2b(t)} {f2b(p)}"
                elif v["fn"] == "deriv":
                    k, line = ("dY", L, t, p, None), f"C08.dYlm {L} {f2b(t)} {f2b(p)}"
                else:
                    k, line = ("Y", L, t, p, None), f"C08.ylmCode {L} {f2b(t)} {f2b(p)}"
                if k not in keys:
                    keys.append(k)
                    lines.append(line)
    refs = {}
    for k, a in zip(keys, driver_batch(lines)):
        if not a.startswith("ok "):
            refs[k] = None
        elif k[0] == "dY":
            T = Tokens(a[3:])
            refs[k] = np.array([T.fvec(), T.fvec()])
        else:
            refs[k] = _rows(a)
    return lambda what, L, t, p, r: refs.get((what, L, t, p, r))


def _mp_refs(mp):
    """The 50-digit definition (rows of Y, of (d/dtheta, d/dphi) Y, of the solid harmonics), memoised per point."""
    memo = {}

    def ref(what, L, t, p, r):
        k = (what, L, t, p, r)
        if k not in memo:
            lms = py_lm_order(L)
            if what == "dY":
                memo[k] = np.array([[float(-m * mp_ylm(mp, l, -m, t, p)) for l, m in lms],
                                    [float(mp.diff(lambda h: mp_ylm(mp, l, m, t, mp.mpf(p) + h), 0, h=mp.mpf(10) ** -15)) for l, m in lms]])
            elif what == "solid":
                memo[k] = np.array([float(mp.sqrt(4 * mp.pi / (2 * l + 1)) * mp.mpf(r) ** l * mp_ylm(mp, l, m, t, p)) for l, m in lms])
            else:
                memo[k] = np.array([float(mp_ylm(mp, l, m, t, p)) for l, m in lms])
        return memo[k]
    return ref


def _run_variants(ctx: Ctx, ut, kind, variants, ref, refname):
    """Execute every variant; compare each answer with `ref`, repeated calls bit for bit with the first one, and the
    argument arrays before/after the call."""
    for v in variants:
        if kind == "corr" and v.get("oracle_only"):
            continue
        fn = v["fn"]
        ns = {"np": np, "fn": getattr(ut, _FN[fn])}
        raw, src, pos = [], [], {}
        for k, st in enumerate(v["steps"]):
            cls = st["cls"] or v["cls"]
            L, N = st["L"], len(st["t"])
            tag = f"variant:{fn}:{cls}"
            key = f"variant:{fn}:{cls}" if kind == "corr" else f"utils.{_FN[fn]}:{cls}"
            ctx.count([kind, fn, cls, k, st["pre"], st["call"]], nontrivial=L >= 2 and not v.get("soft"), tag=tag)
            if st["pre"]:
                src.append(st["pre"].replace("; ", "\n"))
            pre_src = "\n".join(src)

            def fail(what, witness=None, snippet=None):
                if v.get("info_only"):
                    ctx.tagc(f"{tag}:wrong(information)")
                    ctx.info(f"{_FN[fn]}: after `{_short(pre_src)}` the call `{st['call']}` {what}")
                    return
                ctx.fail(kind, key, f"{_FN[fn]}: after `{_short(pre_src)}` the call `{st['call']}` {what}",
                         witness=dict(witness or {}, history=src + [st["call"]], step=k), snippet=snippet if kind == "oracle" else None)
            try:
                if st["pre"]:
                    exec(st["pre"], ns)
                before = {n: a.copy() for n, a in ns.items() if isinstance(a, np.ndarray)}
                out = eval(st["call"], ns)
                got = np.asarray(out, dtype=float)
            except Exception as e:
                raw.append(None)
                if v.get("soft"):
                    ctx.tagc(f"{tag}:rejected({type(e).__name__})")
                else:
                    fail(f"raised {type(e).__name__}: {str(e)[:150]}", snippet=SNIP_RAISE.format(fname=_FN[fn], pre=pre_src, call=st["call"]))
                continue
            raw.append(out)
            pos[k] = len(src)
            src.append(st["call"])
            for n, a in before.items():
                if not np.array_equal(ns[n], a, equal_nan=True):
                    ctx.fail(kind, f"{key}:input-modified" if kind == "corr" else f"utils.{_FN[fn]}:input-modified",
                             f"{_FN[fn]}: the call `{st['call']}` modified its argument `{n}` ({a.dtype}): {np.asarray(a, dtype=float).tolist()} -> {np.asarray(ns[n], dtype=float).tolist()}",
                             witness={"history": src, "argument": n}, snippet=SNIP_MOD.format(fname=_FN[fn], pre=pre_src, call=st["call"]) if kind == "oracle" else None)
                    ns[n][...] = a
            shape = ((2,) if fn == "deriv" else ()) + ((L + 1) ** 2, N)
            if got.shape != shape:
                if v.get("anyshape") and got.size == int(np.prod(shape)):
                    ctx.tagc(f"{tag}:accepted(shape {got.shape})")
                    got = got.reshape(shape)
                elif v.get("anyshape"):
                    ctx.tagc(f"{tag}:accepted(shape {got.shape}, not compared)")
                    continue
                else:
                    fail(f"returned shape {got.shape}, expected {shape}")
                    continue
            elif v.get("soft"):
                ctx.tagc(f"{tag}:accepted")
            if st["same"] is not None and raw[st["same"]] is not None and not np.array_equal(out, raw[st["same"]], equal_nan=True):
                first = v["steps"][st["same"]]
                fail(f"does not return bit for bit what the earlier call `{first['call']}` with the same argument values returned "
                     f"(largest difference {_maxdiff(got, np.asarray(raw[st['same']], dtype=float))[0]!r}): the answer depends on the call history",
                     snippet=SNIP_SAME.format(fname=_FN[fn], call=st["call"], first=first["call"],
                                              pre="\n".join(("first = " + x) if i == pos[st["same"]] else x for i, x in enumerate(src[:-1]))))
            base = _loose(v, 1e-12)
            for j in range(N):
                t, p, r = st["t"][j], st["p"][j], (st["r"][j] if st["r"] is not None else None)
                want = ref("solid" if fn == "solid" else "dY" if fn == "deriv" else "Y", L, t, p, r)
                if want is None:
                    ctx.fail("corr", "variant:model", f"the model did not answer for l_max={L}, theta={t!r}, phi={p!r}, r={r!r}")
                    continue
                tol = base * (L + 1) * (1 + abs(t)) * (max(1.0, abs(r) ** L) if r is not None else 1.0) * ((L + 1) if fn == "deriv" else 1.0)
                comps = [("dtheta", want[0], got[0, :, j], "[0, {row}, {j}]"), ("dphi", want[1], got[1, :, j], "[1, {row}, {j}]")] if fn == "deriv" \
                    else [("solid" if fn == "solid" else "Y", want, got[:, j], "[{row}, {j}]")]
                for what, w, g, idx in comps:
                    d, i = _maxdiff(w, g)
                    if not d <= tol:
                        l, m = py_lm_order(L)[i] if i >= 0 else (0, 0)
                        fail(f"returns {float(g[i]) if i >= 0 else None!r} for {what} row (l={l}, m={m}) at point {j} (theta={t!r}, phi={p!r}"
                             + (f", r={r!r}" if r is not None else "") + f"), {refname} {float(w[i]) if i >= 0 else None!r}",
                             witness={"l_max": L, "theta": t, "phi": p, "r": r, "l": l, "m": m, "component": what, "point": j,
                                      "got": float(g[i]) if i >= 0 else None, "want": float(w[i]) if i >= 0 else None},
                             snippet=SNIP_VAR.format(fname=_FN[fn], dps=50, pre=pre_src, call=st["call"], index=idx.format(row=max(i, 0), j=j), l=l, m=m, r=r, t=t, p=p, j=j,
                                                     want=_WANT[what], tol=tol, what=f"{what} row (l={l}, m={m}) at point {j}"))
                        break


SNIP_C2S = """import warnings; warnings.filterwarnings('ignore')
import numpy as np, mpmath as mp, math
from grid.utils import convert_cart_to_sph as fn
mp.mp.dps = 60
{pre}
try:
    got = np.asarray({call}, dtype=float)[{j}]
except Exception as e:
    raise AssertionError('the call raised ' + repr(e))
q, c = {q!r}, {c!r}   # the float64 values of point {j} and of the centre
d = [mp.mpf(a) - mp.mpf(b) for a, b in zip(q, c)]
r0 = mp.sqrt(d[0]**2 + d[1]**2 + d[2]**2)
r, t, p = (mp.mpf(float(v)) for v in got)
back = [r*mp.cos(t)*mp.sin(p), r*mp.sin(t)*mp.sin(p), r*mp.cos(p)]
err = max(abs(a - b) for a, b in zip(back, d))
assert got[0] >= 0 and -math.pi - {slack!r} <= got[1] <= math.pi + {slack!r} and 0 <= got[2] <= math.pi + {slack!r}, f'(r, theta, phi) = {{got.tolist()}} outside r >= 0, [-pi, pi], [0, pi]'
assert abs(r - r0) <= {rtol!r} * r0 + {atol!r} and err <= {tol!r} * r0 + {atol!r}, f'(r, theta, phi) = {{got.tolist()}} maps back to centre + {{[float(v) for v in back]}}, the point is centre + {{[float(v) for v in d]}}'
"""
# Float range of np.linalg.norm's sum of squares: coordinates (relative to the centre) above ~1.3e154 overflow to r = inf,
# below ~1.5e-154 the squares are subnormal / zero (r loses digits, r = 0, arccos(z/r) = nan on the axis). DESIGN section 3:
# overflow / underflow paths are outside the modelled arithmetic; recorded as information (the Float model reproduces them
# bit for bit, so the correspondence pins them). Set to True to report them as an oracle failure instead.
RANGE_EDGE_IS_FAILURE = False


def _c2s_variants(ctx: Ctx):
    """[dict(cls, steps=[dict(pre, call, pts, c, same, cls)], tol, info)] for convert_cart_to_sph."""
    rg = ctx.rng
    f32 = lambda x: float(np.float32(x))
    u = lambda a, b: f32(rg.uniform(a, b))
    cf = [u(-3, 3), u(-3, 3), u(-3, 3)]
    dz = u(0.1, 4)
    pf = [[u(-5, 5), u(-5, 5), u(-5, 5)] for _ in range(3)] + [list(cf), [cf[0], cf[1], f32(cf[2] + dz)], [cf[0], cf[1], f32(cf[2] - dz)],
                                                               [f32(cf[0] - dz), cf[1], cf[2]], [u(-5, 5), u(-5, 5), cf[2]], [0.0, 0.0, 0.0]]
    ci = [1, -2, 3]
    pi_ = [[1, 2, 3], [1, -2, 5], [1, -2, -4], [1, -2, 3], [-3, -2, 3], [4, 0, -1], [0, 0, 0], [-7, 5, 3]]
    Z = [0.0, 0.0, 0.0]
    out = []
    fl = lambda rows: [[float(x) for x in row] for row in rows]

    def st(pre, call, pts, c, same=None, cls=None):
        return dict(pre=pre, call=call, pts=fl(pts), c=[float(x) for x in c], same=same, cls=cls)

    def one(cls, pre, call, pts, c, **flags):
        out.append(dict(cls=cls, steps=[st(pre, call, pts, c)], **flags))

    P = lambda v, extra="": f"P = np.array({v!r}{extra})"
    # dtype / container kinds of points and centre
    one("dtype:points-int64", P(pi_, ", dtype=np.int64"), "fn(P)", pi_, Z)
    one("dtype:points-int32,centre-list", P(pi_, ", dtype=np.int32") + f"; c = {ci!r}", "fn(P, c)", pi_, ci)
    one("dtype:points-int64,centre-tuple", P(pi_, ", dtype=np.int64") + f"; c = tuple({ci!r})", "fn(P, c)", pi_, ci)
    one("dtype:points-int64,centre-int-array", P(pi_, ", dtype=np.int64") + f"; c = np.array({ci!r})", "fn(P, c)", pi_, ci)
    one("dtype:points-int64,centre-float-array", P(pi_, ", dtype=np.int64") + f"; c = np.array({cf!r})", "fn(P, c)", pi_, cf)
    one("dtype:points-uint8", P([[abs(x) for x in row] for row in pi_], ", dtype=np.uint8"), "fn(P)", [[abs(x) for x in row] for row in pi_], Z)
    one("dtype:points-float64,centre-int-list", P(pf) + f"; c = {ci!r}", "fn(P, c)", pf, ci)
    one("dtype:points-float64,centre-list", P(pf) + f"; c = {cf!r}", "fn(P, c)", pf, cf)
    one("dtype:points-float64,centre-tuple", P(pf) + f"; c = tuple({cf!r})", "fn(P, c)", pf, cf)
    one("dtype:points-float64,centre-float32", P(pf) + f"; c = np.array({cf!r}, dtype=np.float32)", "fn(P, c)", pf, cf)
    one("dtype:points-float32", P(pf, ", dtype=np.float32"), "fn(P)", pf, Z)
    one("dtype:points-float32,centre-float32", P(pf, ", dtype=np.float32") + f"; c = np.array({cf!r}, dtype=np.float32)", "fn(P, c)", pf, cf, single=True)
    one("dtype:points-list", f"P = {pf!r}", "fn(P)", pf, Z, soft=True)
    one("dtype:points-read-only,centre-read-only", P(pf) + f"; c = np.array({cf!r}); P.setflags(write=False); c.setflags(write=False)", "fn(P, c)", pf, cf)
    one("dtype:points-F-order", f"P = np.asfortranarray(np.array({pf!r})); c = np.array({cf!r})", "fn(P, c)", pf, cf)
    one("dtype:points-non-contiguous", f"P = np.repeat(np.array({pf!r}), 2, axis=0)[::2]; c = np.array({cf!r})", "fn(P, c)", pf, cf)
    one("dtype:points-column-slice", f"P = np.hstack([np.array({pf!r}), np.ones(({len(pf)}, 2))])[:, :3]; c = np.array({cf!r})[::-1][::-1]", "fn(P, c)", pf, cf)
    one("dtype:points-negative-stride", f"P = np.array({pf[::-1]!r})[::-1]; c = np.array({cf!r})", "fn(P, c)", pf, cf)
    one("dtype:one-point", P(pf[:1]) + f"; c = np.array({cf!r})", "fn(P, c)", pf[:1], cf)
    # call routes; center=None vs zeros
    for name, call, c in (("positional-none", "fn(P, None)", Z), ("keyword-none", "fn(P, center=None)", Z), ("default", "fn(P)", Z),
                          ("zeros", "fn(P, np.zeros(3))", Z), ("keyword-zeros", "fn(points=P, center=np.zeros(3))", Z),
                          ("keyword-centre", "fn(P, center=c)", cf), ("keyword", "fn(points=P, center=c)", cf),
                          ("keyword-reordered", "fn(center=c, points=P)", cf)):
        one(f"call:{name}", P(pf) + f"; c = np.array({cf!r})", call, pf, c)
    po = pf + pf[::-1] + [pf[1]] * 3
    one("order:reversed-repeated-concatenated", P(po) + f"; c = np.array({cf!r})", "fn(P, c)", po, cf)
    # round 4, class 20: N = 1, 2, 3 (= number of columns: a transposed read goes unnoticed only for a symmetric array), 4; first row the
    # centre, last row the origin, all coordinates different.  Class 15: omitted / None / the default value / zeros of another kind
    for N in (1, 2, 3, 4):
        rows = ([list(cf)] + [[u(-5, 5), u(-5, 5), u(-5, 5)] for _ in range(N - 2)] + ([[0.0, 0.0, 0.0]] if N > 1 else []))
        one(f"shape:N={N}", P(rows) + f"; c = np.array({cf!r})", "fn(P, c)", rows, cf)
        one(f"shape:N={N},no-centre", P(rows), "fn(P)", rows, Z)
    for name, call in (("explicit-None-keyword", "fn(points=P, center=None)"), ("zeros-int-list", "fn(P, [0, 0, 0])"), ("zeros-tuple", "fn(P, (0.0, 0.0, 0.0))"),
                       ("zeros-int-array", "fn(P, np.zeros(3, dtype=int))"), ("zeros-float32", "fn(P, center=np.zeros(3, dtype=np.float32))"),
                       ("zeros-bool", "fn(P, np.zeros(3, dtype=bool))"), ("negative-zero", "fn(P, np.array([-0.0, -0.0, -0.0]))")):
        one(f"call:centre-{name}", P(pf), call, pf, Z)
    # class 14: integer / bool / float32 points against every kind of centre (a cast of the centre to the dtype of the points shows)
    cq = [0.25, -1.5, 2.75]
    for pk, pdt in (("int64", "np.int64"), ("int32", "np.int32"), ("int8", "np.int8"), ("float32", "np.float32")):
        for ck, csrc in (("float-list", f"{cq!r}"), ("float64-array", f"np.array({cq!r})"), ("float32-array", f"np.array({cq!r}, dtype=np.float32)"),
                         ("tuple", f"tuple({cq!r})"), ("read-only", f"np.array({cq!r})[::-1][::-1]")):
            # NumPy's promotion: float32 / int8 points with a float32 centre are subtracted in single precision
            one(f"dtype:points-{pk},centre-fractional-{ck}", P(pi_, f", dtype={pdt}") + f"; c = {csrc}", "fn(P, c)", pi_, cq,
                single=pk in ("float32", "int8") and ck == "float32-array")
    # round 5, class 23 (+ 25): points and centre given directly as np.longdouble / float16 / float32 / int16 arrays (values representable
    # in float16), every pairing; repeated on the same objects, after an in-place change of both, and back
    pq = [[1.5, -2.25, 3.0], [0.25, -1.5, 2.75], [0.0, 0.0, 0.0], [-4.0, 0.5, 1.0], [2.5, 2.5, -3.5]]
    pq2 = [[2 * x for x in row] for row in pq]
    cq2 = [x + 1 for x in cq]
    PREC = {"longdouble": 3, "float64": 2, "float32": 1, "float16": 0}
    for pk in ("longdouble", "float16", "float32", "float64", "int16"):
        for ck in ("longdouble", "float16", "float32", "float64", "none"):
            if pk == "float64" and ck in ("float64", "none", "float32"):
                continue
            pts, pts2 = (pi_, [[2 * x for x in row] for row in pi_]) if pk == "int16" else (pq, pq2)
            # NumPy's promotion decides the type the subtraction is carried out in
            kinds = [k for k in (pk, ck) if k in PREC] if pk != "int16" else ([ck] if ck in PREC and ck != "float16" else ["float64"] if ck != "float16" else ["float32"])
            if ck == "none":
                kinds = ["float64"] if pk != "longdouble" else ["longdouble"]
            work = max(kinds, key=PREC.get)
            flags = {"half": True} if work == "float16" else {"single": True} if work == "float32" else {}
            pre = P(pts, f", dtype=np.{pk}") + ("" if ck == "none" else f"; c = np.array({cq!r}, dtype=np.{ck})")
            call, cc, cc2 = ("fn(P)", Z, Z) if ck == "none" else ("fn(P, c)", cq, cq2)
            out.append(dict(cls=f"direct-dtype:points-{pk},centre-{ck}", **flags, steps=[
                st(pre, call, pts, cc),
                st("", call, pts, cc, same=0, cls=f"direct-dtype:points-{pk},centre-{ck}:repeat"),
                st("P *= 2" + ("" if ck == "none" else "; c += 1"), call, pts2, cc2, cls=f"direct-dtype:points-{pk},centre-{ck}:in-place-edit"),
                st(f"P[:] = {pts!r}" + ("" if ck == "none" else f"; c[:] = {cq!r}"), call, pts, cc, same=0, cls=f"direct-dtype:points-{pk},centre-{ck}:in-place-edit")]))
    one("dtype:points-bool,centre-fractional", "P = np.array([[True, False, True], [False, False, False], [True, True, False]]); c = " + repr(cq), "fn(P, c)",
        [[1, 0, 1], [0, 0, 0], [1, 1, 0]], cq)
    # signed zeros (r = 0 with theta = -pi is inside the documented ranges)
    nz = [[-0.0, -0.0, -0.0], [-0.0, -0.0, 1.0], [-1.0, -0.0, 0.0], [0.0, 0.0, -0.0], [0.0, -0.0, -2.0]]
    one("signed-zero", P(nz), "fn(P)", nz, Z)
    # radii over many orders of magnitude (the polar-angle fix-up is for r == 0 only), with and without a centre
    base = [[1.0, 2.0, -3.0], [0.0, 0.0, 1.0], [0.0, 0.0, -1.0], [1.0, 0.0, 0.0], [u(-1, 1), u(-1, 1), u(-1, 1)], [-2.0, 1.0, 0.0]]
    for s in (1e-3, 1e-7, 1e-9, 1e-12, 1e-30, 1e-100, 1e-150, 1e8, 1e30, 1e150):
        pts = [[x * s for x in row] for row in base]
        one(f"radius:{s:g}", P(pts), "fn(P)", pts, Z)
        cs = [x * s for x in cf]
        pts = [[x * s + y for x, y in zip(row, cs)] for row in base]
        one(f"radius:{s:g},centre", P(pts) + f"; c = np.array({cs!r})", "fn(P, c)", pts, cs, atol=4e-16 * max(abs(x) for x in cs + sum(pts, [])))
    # round 3, class 7: the repair `phi[r == 0.0] = 0.0` is for the centre only - points one ulp (and 2^-40) away from an O(1)
    # centre and from a centre far from the origin (every difference point - centre is exact)
    nxa = lambda x, sg: math.nextafter(x, sg * math.inf)
    for cname, ce in (("O(1)", [1.5, -2.25, 3.0]), ("far", [2.0 ** 20 + 0.5, -(2.0 ** 14), 2.0 ** 10 + 0.25])):
        near = [[nxa(ce[0], 1), ce[1], ce[2]], [ce[0], nxa(ce[1], -1), ce[2]], [ce[0], ce[1], nxa(ce[2], 1)], [ce[0], ce[1], nxa(ce[2], -1)],
                [nxa(ce[0], -1), nxa(ce[1], 1), nxa(ce[2], 1)], list(ce), [ce[0] + 2.0 ** -30, ce[1], ce[2] - 2.0 ** -30], [ce[0], ce[1] + 2.0 ** -25, ce[2]]]
        one(f"near-centre:{cname}", P(near) + f"; c = np.array({ce!r})", "fn(P, c)", near, ce)
    small = [[x * 1e-9 + y for x, y in zip(row, cf)] for row in base]
    one("radius:1e-09,centre-O(1)", P(small) + f"; c = np.array({cf!r})", "fn(P, c)", small, cf)  # P - c is exact (Sterbenz)
    for s in (1.4e154, 1e155, 1e200, 5e307, 1e-155, 1e-160, 1e-162, 1e-200, 5e-324):
        pts = [[x * s for x in row] for row in base[:4]]
        one(f"float-range:{s:g}", P(pts), "fn(P)", pts, Z, range_edge=True)
    # next to the polar axis: arccos(z/r) keeps only ~8 digits of the polar angle there (information: largest error recorded)
    na = [[x, y, z] for z in (1.0, -1.0) for x, y in ((1e-9, 0.0), (3e-8, -4e-8), (1e-5, 1e-5), (0.0, 1e-12), (1e-3, 0.0))]
    one("near-polar-axis", P(na), "fn(P)", na, Z, tol=3e-8)
    # call history: the same arrays again after other points / centres, reuse after an in-place edit, centre = a row of points
    qf = [[u(-5, 5), u(-5, 5), u(-5, 5)] for _ in range(len(pf))]
    c2 = [u(-3, 3), u(-3, 3), u(-3, 3)]
    out.append(dict(cls="history", steps=[
        st(P(pf) + f"; Q = np.array({qf!r}); c = np.array({cf!r}); c2 = np.array({c2!r})", "fn(P, c)", pf, cf),
        st("", "fn(P, c2)", pf, c2),
        st("", "fn(Q, c)", qf, cf),
        st("", "fn(P, c)", pf, cf, same=0),
        st("", "fn(P)", pf, Z),
        st("", "fn(P[:4], c)", pf[:4], cf),
        st("", "fn(P, P[0])", pf, pf[0], cls="centre-is-row-of-points"),
        st("", "fn(P, P[3])", pf, pf[3], cls="centre-is-row-of-points"),
        st("", "fn(P.T[:, :3], P.T[:, 0])", np.array(pf).T[:, :3].tolist(), np.array(pf).T[:, 0].tolist(), cls="centre-is-column-of-points"),
        st("P[:] = Q", "fn(P, c)", qf, cf, same=2, cls="in-place-edit"),
        st(f"P[:] = {pf!r}; c[:] = c2", "fn(P, c)", pf, c2, same=1, cls="in-place-edit"),
        st(f"c[:] = {cf!r}", "fn(P, c)", pf, cf, same=0, cls="in-place-edit"),
        st("R = fn(P, c); R[...] = -1.0", "fn(P, c)", pf, cf, same=0, cls="result-modified"),
        st("R = fn(P, c2); R[:, 2] = 0.0", "fn(P, c2)", pf, c2, same=1, cls="result-modified")]))
    return out


def _run_c2s(ctx: Ctx, ut, kind, mp=None):
    variants = _c2s_variants(ctx)
    model, gen = {}, {}
    if kind == "corr":
        keys = []
        for v in variants:
            for s in v["steps"]:
                for q in s["pts"]:
                    k = tuple(f2b(x) for x in tuple(q) + tuple(s["c"]))  # bit patterns: -0.0 and 0.0 are different inputs
                    if k not in keys:
                        keys.append(k)
        for store, op in ((model, "C08.cartToSph"), (gen, "C08.genCartToSph")):  # hand model; definition generated from the source
            answers = driver_batch([op + " " + " ".join(k) for k in keys])
            if store is gen and any(a == "bad-op" for a in answers):
                ctx.info("driver without the op C08.genCartToSph: the generated convert_cart_to_sph was not compared on the variants")
                gen = None
                break
            for k, a in zip(keys, answers):
                T = Tokens(a[3:]) if a.startswith("ok ") else None
                store[k] = [T.flt(), T.flt(), T.flt()] if T else None
    worst_axis = 0.0
    edge = []
    for v in variants:
        ns = {"np": np, "fn": ut.convert_cart_to_sph}
        raw, src, pos = [], [], {}
        for k, s in enumerate(v["steps"]):
            cls = s["cls"] or v["cls"]
            tag = f"variant:c2s:{cls.split(':')[0] if cls.startswith(('radius', 'float-range', 'near-centre')) else 'direct-dtype' if cls.startswith('direct-dtype') else cls}"  # one tag for all scales
            key = f"variant:c2s:{cls}" if kind == "corr" else f"utils.convert_cart_to_sph:{cls}"
            ctx.count([kind, "c2s", cls, k, s["pre"], s["call"]], nontrivial=not v.get("soft"), tag=tag)
            if s["pre"]:
                src.append(s["pre"].replace("; ", "\n"))
            pre_src = "\n".join(src)

            def fail(what, witness=None, snippet=None, key=key):
                ctx.fail(kind, key, f"convert_cart_to_sph: after `{_short(pre_src)}` the call `{s['call']}` {what}",
                         witness=dict(witness or {}, history=src + [s["call"]], step=k), snippet=snippet if kind == "oracle" else None)
            try:
                if s["pre"]:
                    exec(s["pre"], ns)
                before = {n: a.copy() for n, a in ns.items() if isinstance(a, np.ndarray)}
                out = eval(s["call"], ns)
                got = np.asarray(out, dtype=float)
            except Exception as e:
                raw.append(None)
                if v.get("soft"):
                    ctx.tagc(f"{tag}:rejected({type(e).__name__})")
                else:
                    fail(f"raised {type(e).__name__}: {str(e)[:150]}", snippet=SNIP_RAISE.format(fname=_FN["c2s"], pre=pre_src, call=s["call"]))
                continue
            raw.append(out)
            pos[k] = len(src)
            src.append(s["call"])
            for n, a in before.items():
                if not np.array_equal(ns[n], a, equal_nan=True):
                    fail(f"modified its argument `{n}` ({a.dtype}): {np.asarray(a, dtype=float).tolist()} -> {np.asarray(ns[n], dtype=float).tolist()}", witness={"argument": n},
                         snippet=SNIP_MOD.format(fname=_FN["c2s"], pre=pre_src, call=s["call"]),
                         key=f"{key}:input-modified" if kind == "corr" else "utils.convert_cart_to_sph:input-modified")
                    ns[n][...] = a
            if got.shape != (len(s["pts"]), 3):
                fail(f"returned shape {got.shape}, expected {(len(s['pts']), 3)}")
                continue
            if s["same"] is not None and raw[s["same"]] is not None and not np.array_equal(out, raw[s["same"]], equal_nan=True):
                fail(f"does not return bit for bit what the earlier call `{v['steps'][s['same']]['call']}` with the same argument values returned: "
                     f"the answer depends on the call history",
                     snippet=SNIP_SAME.format(fname=_FN["c2s"], call=s["call"], first=v["steps"][s["same"]]["call"],
                                              pre="\n".join(("first = " + x) if i == pos[s["same"]] else x for i, x in enumerate(src[:-1]))))
            for j, q in enumerate(s["pts"]):
                c = s["c"]
                g = [float(x) for x in got[j]]
                if kind == "corr":
                    rt = _loose(v, 1e-13)
                    bad = False
                    for mname, store in (("model", model), ("generated model", gen)):
                        if store is None:
                            continue
                        m = store.get(tuple(f2b(x) for x in tuple(q) + tuple(c)))
                        if m is None or not (close(g[0], m[0], rtol=rt) and all(close(x, y, rtol=rt, atol=1e-15, scale=max(1.0, abs(y))) for x, y in zip(g[1:], m[1:]))):
                            fail(f"returns {g} for point {j} = {q}, centre {c}; {mname} {m}",
                                 witness={"routine": "c2s", "point": q, "center": c, "impl": g, "model": m, "which": mname})
                            bad = True
                    if bad:
                        break
                    continue
                # oracle: ranges, radius, and the round trip through the parametrisation, evaluated with 60 digits
                with mp.workdps(60):
                    d = [mp.mpf(a) - mp.mpf(b) for a, b in zip(q, c)]
                    r0 = mp.sqrt(d[0] ** 2 + d[1] ** 2 + d[2] ** 2)
                    slack = _loose(v, 0.0) / 16  # float32(pi) > pi
                    ok_range = g[0] >= 0 and -PI - slack <= g[1] <= PI + slack and 0 <= g[2] <= PI + slack
                    if all(x == x and abs(x) != float("inf") for x in g):
                        r, t, p = (mp.mpf(x) for x in g)
                        back = [r * mp.cos(t) * mp.sin(p), r * mp.sin(t) * mp.sin(p), r * mp.cos(p)]
                        err = max(abs(a - b) for a, b in zip(back, d))
                        rerr = abs(r - r0)
                    else:
                        err = rerr = mp.inf
                    tol = v.get("tol", _loose(v, 1e-13))
                    good = ok_range and rerr <= (_loose(v, 1e-14)) * r0 + v.get("atol", 0.0) and err <= tol * r0 + v.get("atol", 0.0)
                    if v["cls"] == "near-polar-axis" and r0 > 0:
                        worst_axis = max(worst_axis, float(err / r0))
                if good:
                    continue
                if v.get("range_edge") and not RANGE_EDGE_IS_FAILURE:
                    edge.append((q, g))
                    ctx.tagc("variant:c2s:float-range:not-inverted(information)")
                    continue
                fail(f"returns (r, theta, phi) = {g} for point {j} = {q}, centre {c}: " +
                     ("outside r >= 0, [-pi, pi], [0, pi]" if not ok_range else
                      f"radius off by {float(rerr)!r}, maps back to a point at distance {float(err)!r} (true radius {float(r0)!r})"),
                     witness={"point": q, "center": c, "sph": g, "true_radius": float(r0)},
                     snippet=SNIP_C2S.format(pre=pre_src, call=s["call"], j=j, q=q, c=c, tol=tol, atol=v.get("atol", 0.0), slack=slack,
                                             rtol=_loose(v, 1e-14)),
                     key="utils.convert_cart_to_sph:float-range" if v.get("range_edge") else key)
                break
    if kind == "oracle":
        if edge:
            q, g = edge[0]
            ctx.info(f"convert_cart_to_sph outside the float range of the sum of squares (information, DESIGN 3): {len(edge)} points with "
                     f"|coordinates| >= 1.4e154 or <= 1e-155 are not inverted, e.g. {q} -> (r, theta, phi) = {g}; "
                     f"[0, 0, 1e-160] -> phi = nan; [1e-200, 2e-200, -3e-200] -> r = 0")
        ctx.info(f"convert_cart_to_sph next to the polar axis: arccos(z/r) loses the polar angle, largest round-trip error / r = {worst_axis:.2e} "
                 f"(points (1e-9, 0, 1) ... (1e-3, 0, -1); tolerance 3e-8)")


def _hi_degrees(ctx: Ctx):
    """Degrees beyond 150, where sqrt((2l)!) overflows a double (the recursion keeps it in np.longdouble)."""
    return [151, 180 + ctx.rng.randrange(0, 40), 260] if ctx.thorough else [151 + ctx.rng.randrange(0, 50)]


def _corr_high_degree(ctx: Ctx, ut):
    """Derivative routine and solid harmonics beyond l_max = 150 against the normalised model ylmNorm (the code-shaped
    model overflows at Float): d/dtheta = -m Y_{l,-m}; d/dphi vs a 4th-order central difference of the model rows;
    solid = sqrt(4 pi/(2l+1)) r^l Y_lm."""
    angs = [(0.3, PI / 2, "equator"), (2.1, PI / 2 - 0.2, "near-equator"), (1.0, 1.0, "principal"), (4.0, 2.6, "principal"),
            (-2.5, -1.2, "any"), (7.0, PI + 0.9, "any"),
            # round 4, class 19: where the consumed layers (the recursion, SciPy's sph_harm_y) are tiny / change sign: next to the poles,
            # either side of sin(phi) = 0 (measured on the pinned tree: accurate to 1e-11 relative down to |tan phi| = 1e-10)
            (0.9, 1e-3, "near-pole"), (2.2, PI + 2e-3, "near-pole"), (1.0, -1e-3, "near-pole")]
    h = 1e-4
    for L in _hi_degrees(ctx):
        lms = py_lm_order(L)
        neg = np.array([row_index(l, -m) for l, m in lms])
        mm = np.array([float(m) for l, m in lms])
        deg = np.array([float(l) for l, m in lms])
        lines = [f"C08.ylmNorm {L} {f2b(t)} {f2b(p + k * h)}" for t, p, _ in angs for k in (0, 1, -1, 2, -2)]
        ans = [_rows(a) for a in driver_batch(lines)]
        if any(a is None or len(a) != (L + 1) ** 2 for a in ans):
            ctx.fail("corr", "ylmNorm:shape", f"ylmNorm({L}) did not answer")
            continue
        d = np.asarray(ut.generate_derivative_real_spherical_harmonics(L, np.array([a[0] for a in angs]), np.array([a[1] for a in angs])), dtype=float)
        for j, (t, p, tag) in enumerate(angs):
            y0, yp, ym, ypp, ymm = ans[5 * j:5 * j + 5]
            ctx.count(["dYlm-high-degree", L, t, p], nontrivial=True, tag=f"dYlm:high-degree:{tag}")
            for which, want, got, tol in (("theta", -mm * y0[neg], d[0, :, j], 1e-12 * (L + 1) ** 2),
                                          ("phi", (8 * (yp - ym) - (ypp - ymm)) / (12 * h), d[1, :, j], 1e-5 * (L + 1))):
                dd, i = _maxdiff(want, got)
                if not dd <= tol:
                    l, m = lms[i]
                    ctx.fail("corr", f"dYlm:{which}:high-degree",
                             f"generate_derivative_real_spherical_harmonics(l_max={L}, theta={t!r}, phi={p!r})[{which}] row {i} (l={l}, m={m}): "
                             f"implementation {float(got[i])!r}, from the model ylmNorm {float(want[i])!r}",
                             witness={"routine": "deriv", "l_max": L, "theta": t, "phi": p, "component": which, "row": i, "l": l, "m": m,
                                      "impl": float(got[i]), "model": float(want[i]), "angle_class": tag})
        rs = [1.0, ctx.rng.uniform(0.6, 0.95), ctx.rng.uniform(1.05, 1.5)]
        pts = [(r, angs[(2 * k + q) % len(angs)]) for k, r in enumerate(rs) for q in (0, 1)]
        S = np.asarray(ut.solid_harmonics(L, np.array([[r, a[0], a[1]] for r, a in pts])), dtype=float)
        for j, (r, (t, p, tag)) in enumerate(pts):
            ctx.count(["solid-high-degree", L, r, t, p], nontrivial=True, tag="solid:high-degree:" + ("r=1" if r == 1.0 else "r<1" if r < 1 else "r>1"))
            y0 = ans[5 * angs.index((t, p, tag))]
            want = y0 * np.sqrt(4 * PI / (2 * deg + 1)) * r ** deg
            err = np.abs(S[:, j] - want) / (r ** deg)
            err[np.isnan(err)] = float("inf")
            i = int(np.argmax(err))
            if not err[i] <= 2e-11 * (L + 1):
                l, m = lms[i]
                ctx.fail("corr", "solid:high-degree", f"solid_harmonics(l_max={L}, (r,theta,phi)=({r!r},{t!r},{p!r})) row {i} (l={l}, m={m}): "
                         f"implementation {float(S[i, j])!r}, sqrt(4 pi/(2l+1)) r^l ylmNorm = {float(want[i])!r}",
                         witness={"routine": "solid", "l_max": L, "r": r, "theta": t, "phi": p, "row": i, "l": l, "m": m, "impl": float(S[i, j]), "model": float(want[i])})


def _oracle_high_degree(ctx: Ctx, ut, mp):
    """The same beyond l_max = 150 against the definition evaluated with 2 l + 150 digits, on a few rows."""
    angs = [(0.3, PI / 2, "equator"), (1.0, 1.0, "principal"), (-2.5, -1.2, "any"), (7.0, PI + 0.9, "any"),
            (0.9, 1e-3, "near-pole"), (2.2, PI + 2e-3, "near-pole"), (1.0, -1e-3, "near-pole"), (0.4, PI - 1e-6, "near-pole"), (0.3, 1e-8, "near-pole"),
            (0.3, -3e-9, "near-pole")]
    for L in _hi_degrees(ctx):
        rs = [1.0, ctx.rng.uniform(0.6, 0.95), ctx.rng.uniform(1.05, 1.5), 1.0] + [1.0, ctx.rng.uniform(0.9, 1.1)] * 3
        th, ph = np.array([a[0] for a in angs]), np.array([a[1] for a in angs])
        d = np.asarray(ut.generate_derivative_real_spherical_harmonics(L, th, ph), dtype=float)
        S = np.asarray(ut.solid_harmonics(L, np.array([[r, a[0], a[1]] for r, a in zip(rs, angs)])), dtype=float)
        lms = [(L, 0), (L, L), (L, -L), (L, L - 1), (L, -1), (151, ctx.rng.randrange(-151, 152))]
        lms += [(l, ctx.rng.randrange(-l, l + 1)) for l in (ctx.rng.randrange(151, L + 1) for _ in range(4 if not ctx.thorough else 10))]
        dps = 2 * L + 150
        with mp.workdps(dps):
            for l, m in lms:
                row = row_index(l, m)
                for j in ctx.rng.sample(range(len(angs)), 2):
                    t, p, tag = angs[j]
                    r = rs[j]
                    y = mp_ylm(mp, l, m, t, p)
                    wants = {"solid": (mp.sqrt(4 * mp.pi / (2 * l + 1)) * mp.mpf(r) ** l * y, S[row, j], "[{row}, {j}]"),
                             "dtheta": (-m * mp_ylm(mp, l, -m, t, p), d[0, row, j], "[0, {row}, {j}]"),
                             "dphi": (mp.diff(lambda x: mp_ylm(mp, l, m, t, mp.mpf(p) + x), 0, h=mp.mpf(10) ** -(dps * 3 // 10)), d[1, row, j], "[1, {row}, {j}]")}
                    for what, (want, got, idx) in wants.items():
                        want, got = float(want), float(got)
                        ctx.count(["oracle-high-degree", what, L, l, m, t, p, r], nontrivial=True, tag=f"oracle:high-degree:{what}")
                        tol = 1e-10 * max(1.0, abs(want))
                        if not abs(got - want) <= tol:
                            fn = "solid" if what == "solid" else "deriv"
                            call = (f"fn({L}, np.array([[{r!r}, {t!r}, {p!r}]]))" if what == "solid" else f"fn({L}, np.array([{t!r}]), np.array([{p!r}]))")
                            ctx.fail("oracle", f"utils.{_FN[fn]}:high-degree" + (f":{what}" if fn == "deriv" else ""),
                                     f"{_FN[fn]}(l_max={L}) at (r,theta,phi)=({r!r},{t!r},{p!r}): {what} row (l={l}, m={m}) = {got!r}, definition ({dps} digits) {want!r}",
                                     witness={"l_max": L, "r": r, "theta": t, "phi": p, "l": l, "m": m, "component": what, "got": got, "want": want},
                                     snippet=SNIP_VAR.format(fname=_FN[fn], dps=dps, pre="", call=call, index=idx.format(row=row, j=0), l=l, m=m, r=r, t=t, p=p,
                                                             j=0, want=_WANT[what], tol=tol, what=f"{what} row (l={l}, m={m}) for l_max={L}"))



# --------------------------------------------------------------------------------------
# round 3: the generated definitions at Float, special points under a non-trivial frame, far centres, scaled data,
# thresholds of the Jacobian, results handed out and modified by the caller, the routines after one another
# --------------------------------------------------------------------------------------
def _corr_generated(ctx: Ctx, ut, angs):
    """The definitions *generated from the source* evaluated at Float by the driver against the library:
    `genScipy` (generate_real_spherical_harmonics_scipy, with the flag np.any(outside) of the caller's array, and its shape
    requirements), `sphHarmYAll` (the contract for SciPy's primitive) against scipy.special.sph_harm_y_all, `genYlm`, `genSolid`,
    `genConvDeriv`."""
    from scipy.special import sph_harm_y_all
    r = ctx.rng
    principal = [a for a in angs if 0.0 <= a[1] <= PI][:8]
    # outside-near-pole: the reduction arctan2(|sin(phi)|, cos(phi)) (c2ff251) as carried by the generated text
    sets = [("mixed", angs), ("principal-only", principal), ("outside-near-pole", _outside_near_pole_angles(ctx, 3))] \
        + [("single:" + a[2], [a]) for a in r.sample(angs, 6)]
    for L in [0, 1, 2, 3, 5, 8, r.randrange(9, 17)] + ([20] if ctx.thorough else []):
        for sname, aset in sets:
            th, ph = np.array([a[0] for a in aset]), np.array([a[1] for a in aset])
            flag = int(bool(np.any((ph < 0) | (ph > np.pi))))
            lib = np.asarray(ut.generate_real_spherical_harmonics_scipy(L, th, ph), dtype=float)
            ans = driver_batch([f"C08.genScipy {flag} {L} {f2b(t)} {f2b(p)}" for t, p, _ in aset]
                               + [f"C08.genScipyFits {flag} {L} {f2b(t)} {f2b(p)}" for t, p, _ in aset])
            for j, (t, p, tag) in enumerate(aset):
                ctx.count(["genScipy", L, sname, t, p], nontrivial=L >= 2, tag=f"genScipy:{sname.split(':')[0]}:{tag}")
                rows = _rows(ans[j])
                if ans[j] == "bad-op" or rows is None or len(rows) != (L + 1) ** 2:
                    ctx.fail("corr", "genScipy:shape", f"the driver answered {ans[j][:60]} for C08.genScipy {flag} {L} (theta={t!r}, phi={p!r})")
                    continue
                if ans[len(aset) + j] != "ok 1":
                    ctx.fail("corr", "genScipy:fits", f"a shape requirement of the generated generate_real_spherical_harmonics_scipy is false at "
                             f"l_max={L}, theta={t!r}, phi={p!r}: {ans[len(aset) + j]}")
                d, i = _maxdiff(rows, lib[:, j])
                if not d <= 1e-13 * (L + 1) * (1.0 + abs(t)) + 1e-14:
                    l, m = py_lm_order(L)[i]
                    ctx.fail("corr", "genScipy", f"generate_real_spherical_harmonics_scipy(l_max={L}, theta={t!r}, phi={p!r}) row {i} (l={l}, m={m}) "
                             f"called on the angle set '{sname}' (np.any(outside) = {bool(flag)}): implementation {lib[i, j]!r}, definition generated "
                             f"from the source {rows[i]!r}",
                             witness={"routine": "scipy", "l_max": L, "theta": t, "phi": p, "row": i, "l": l, "m": m, "impl": float(lib[i, j]),
                                      "model": float(rows[i]), "angle_class": tag, "angle_set": sname})
    # the contract for scipy.special.sph_harm_y_all: whole table, angles inside and outside [0, pi]
    for n in (0, 1, 2, 4, 7):
        aset = r.sample(angs, 8)
        tbl = sph_harm_y_all(n, n, np.array([a[1] for a in aset]), np.array([a[0] for a in aset]))
        ans = driver_batch([f"C08.sphHarmYAll {n} {n} {f2b(p)} {f2b(t)}" for t, p, _ in aset])
        for j, (t, p, tag) in enumerate(aset):
            ctx.count(["sphHarmYAll", n, t, p], nontrivial=n >= 2, tag=f"sphHarmYAll:{tag}")
            got = _rows(ans[j])
            want = np.stack([tbl[:, :, j].real, tbl[:, :, j].imag], axis=-1).ravel()
            d, i = _maxdiff(got, want) if got is not None else (float("inf"), -1)
            if not d <= 1e-13 * (n + 1) * (1.0 + abs(t)) + 1e-14:
                ctx.fail("corr", "sphHarmYAll", f"contract for scipy.special.sph_harm_y_all({n}, {n}, phi={p!r}, theta={t!r}): entry {i // 2} "
                         f"(l={i // 2 // (2 * n + 1)}, column {i // 2 % (2 * n + 1)}, {'imag' if i % 2 else 'real'}): SciPy {want[i] if i >= 0 else None!r}, "
                         f"contract {got[i] if got is not None and i >= 0 else ans[j][:40]!r}", witness={"n": n, "theta": t, "phi": p, "entry": i})
    # the other generated routines (proved equal to the hand model for every scalar type; run for completeness)
    aset = r.sample(angs, 6)
    th, ph = np.array([a[0] for a in aset]), np.array([a[1] for a in aset])
    for L in (0, 1, 3, 6):
        lib = np.asarray(ut.generate_real_spherical_harmonics(L, th, ph), dtype=float)
        rs = [0.0, 1.0, r.uniform(0, 3), 1e-6, 1e6, r.uniform(1, 10)]
        sol = np.asarray(ut.solid_harmonics(L, np.array([[rr, a[0], a[1]] for rr, a in zip(rs, aset)])), dtype=float)
        ans = driver_batch([f"C08.genYlm {L} {f2b(t)} {f2b(p)}" for t, p, _ in aset]
                           + [f"C08.genSolid {L} {f2b(rr)} {f2b(a[0])} {f2b(a[1])}" for rr, a in zip(rs, aset)])
        for j, (t, p, tag) in enumerate(aset):
            for name, a, w, scale in (("genYlm", ans[j], lib[:, j], 1.0), ("genSolid", ans[len(aset) + j], sol[:, j], max(1.0, rs[j] ** L))):
                ctx.count([name, L, t, p, rs[j]], nontrivial=L >= 2, tag=name)
                rows = _rows(a)
                d, i = _maxdiff(rows, w) if rows is not None else (float("inf"), -1)
                if not d <= 1e-12 * (L + 1) * (1 + abs(t)) * scale:
                    ctx.fail("corr", name, f"{name}(l_max={L}, theta={t!r}, phi={p!r}" + (f", r={rs[j]!r}" if name == "genSolid" else "") + f") row {i}: "
                             f"implementation {w[i] if i >= 0 else None!r}, generated definition {rows[i] if rows is not None and i >= 0 else a[:40]!r}",
                             witness={"routine": "recursion" if name == "genYlm" else "solid", "l_max": L, "theta": t, "phi": p, "r": rs[j], "row": i})


def _outside_near_pole_angles(ctx: Ctx, n):
    """Polar angles outside [0, pi] within 1e-12 .. 1e-4 of a pole (-x, pi + x, 2 pi + x, -pi - x, ...)."""
    rg = ctx.rng
    out = []
    for x in [1e-12, 1e-9, 1e-8, 3e-8, 1e-6] + [10 ** rg.uniform(-11, -4) for _ in range(n)]:
        p = rg.choice([-x, PI + x, 2 * PI + x, -PI - x, -2 * PI - x, 3 * PI + x])
        out.append((rg.uniform(-7, 14), p, "outside-near-pole"))
    return out


def _oracle_outside_near_pole(ctx: Ctx, ut, mp, large):
    """Polar angles outside [0, pi] within 1e-12 .. 1e-4 of a pole: both routines against the definition, to the accuracy they
    have everywhere else (the SciPy-based routine reduced such angles with arccos(cos(phi)) - ill-conditioned at the poles, absolute
    error up to 1.5e-8 in the angle, ~1e-8 * l^1.5 in the rows with |m| = 1 - until c2ff251; the input angle itself is exact)."""
    angs = _outside_near_pole_angles(ctx, 3 if not large else 10)
    for L in (1, 8, 20):
        th, ph = np.array([a[0] for a in angs]), np.array([a[1] for a in angs])
        A = np.asarray(ut.generate_real_spherical_harmonics(L, th, ph), dtype=float)
        B = np.asarray(ut.generate_real_spherical_harmonics_scipy(L, th, ph), dtype=float)
        lms = py_lm_order(L)
        for j, (t, p, tag) in enumerate(angs):
            ctx.count(["oracle", "outside-near-pole", L, t, p], nontrivial=True, tag="oracle:outside-near-pole")
            want = np.array([float(mp_ylm(mp, l, m, t, p)) for l, m in lms])
            tol = 4e-13 * (L + 1) * (1 + abs(t))
            for name, got in (("generate_real_spherical_harmonics", A[:, j]), ("generate_real_spherical_harmonics_scipy", B[:, j])):
                d, i = _maxdiff(want, got)
                if not d <= tol:
                    l, m = lms[i]
                    ctx.fail("oracle", f"utils.{name}:definition:outside-principal-range",
                             f"{name}(l_max={L}, theta={t!r}, phi={p!r}) row (l={l}, m={m}) = {float(got[i])!r}, definition (50 digits) "
                             f"{float(want[i])!r} (polar angle outside [0, pi], {min(abs(p - k * PI) for k in range(-3, 5)):.1e} from a pole)",
                             witness={"l_max": L, "theta": t, "phi": p, "l": l, "m": m, "got": float(got[i]), "want": float(want[i])},
                             snippet=SNIP_DEF.format(fn=name, L=L, theta=t, phi=p, l=l, m=m, tol=tol))


def _jacobian_threshold_cases(ctx: Ctx):
    """Both sides within a factor 1.01 and 100 of |r| = 1e-10 and of |phi| = 1e-10 (either sign)."""
    out = []
    u = ctx.rng.uniform
    for x in (0.99e-10, 1.01e-10, 1e-12, 1e-8):
        for sg in (1.0, -1.0):
            out += [([u(-2, 2) for _ in range(3)], sg * x, u(-7, 7), u(0.05, 3.0), "r-threshold-window"),
                    ([u(-2, 2) for _ in range(3)], sg * x, u(-7, 7), -u(0.05, 3.0), "r-threshold-window"),
                    ([u(-2, 2) for _ in range(3)], u(0.1, 5), u(-7, 7), sg * x, "phi-threshold-window"),
                    ([u(-2, 2) for _ in range(3)], -u(0.1, 5), u(-7, 7), sg * x, "phi-threshold-window"),
                    ([u(-2, 2) for _ in range(3)], sg * x, u(-7, 7), sg * ctx.rng.choice([0.99e-10, 1.01e-10, 1e-8]), "both-thresholds-window")]
    return out


SNIP_GRAD = """import numpy as np, mpmath as mp
from grid.utils import convert_derivative_from_spherical_to_cartesian as f
mp.mp.dps = 50
g, r, t, p = {g!r}, {r!r}, {t!r}, {p!r}   # Cartesian gradient of a linear function, spherical coordinates of the point
R, T, P = mp.mpf(r), mp.mpf(t), mp.mpf(p)
J = [[mp.cos(T)*mp.sin(P), mp.sin(T)*mp.sin(P), mp.cos(P)],
     [-R*mp.sin(T)*mp.sin(P), R*mp.cos(T)*mp.sin(P), mp.mpf(0)],
     [R*mp.cos(T)*mp.cos(P), R*mp.sin(T)*mp.cos(P), -R*mp.sin(P)]]
fr, ft, fp = (float(sum(mp.mpf(a)*b for a, b in zip(g, row))) for row in J)   # chain rule, 50 digits, rounded once
got = np.asarray(f(fr, ft, fp, r, t, p), dtype=float)
assert all(abs(a - b) <= {tol!r} for a, b in zip(got, g)), f'gradient {{g}} through its spherical derivatives at (r, theta, phi) = ({{r}}, {{t}}, {{p}}): routine {{got.tolist()}}'
"""


def _oracle_gradient_near_thresholds(ctx: Ctx, ut, mp, large):
    """The conventions of convert_derivative_from_spherical_to_cartesian apply only below the code's thresholds
    (|r| < 1e-10: no angular part; |phi| < 1e-10: no azimuthal part): from 1.01e-10 on the routine must return the true
    gradient.  Linear functions: gradient g, spherical derivatives by the chain rule with 50 digits (rounded once)."""
    rg = ctx.rng
    cases = []
    for x in [1.01e-10, 2e-10, 1e-8] + [10 ** rg.uniform(-9.9, -3) for _ in range(2 if not large else 10)]:
        sg = rg.choice([1.0, -1.0])
        cases += [(sg * x, rg.uniform(-7, 7), rg.choice([1.0, -1.0]) * rg.uniform(0.3, 2.8), "r-small"),
                  (rg.uniform(0.2, 3), rg.uniform(-7, 7), sg * x, "phi-small"),
                  (sg * x, rg.uniform(-7, 7), rg.choice([1.01e-10, 3e-9, 1e-6]), "both-small")]
    for r, t, p, kind in cases:
        for g in ([1.0, 0.0, 0.0], [0.0, 1.0, 0.0], [0.0, 0.0, 1.0], [rg.uniform(-2, 2) for _ in range(3)]):
            with mp.workdps(50):
                R, T, P = mp.mpf(r), mp.mpf(t), mp.mpf(p)
                J = [[mp.cos(T) * mp.sin(P), mp.sin(T) * mp.sin(P), mp.cos(P)],
                     [-R * mp.sin(T) * mp.sin(P), R * mp.cos(T) * mp.sin(P), mp.mpf(0)],
                     [R * mp.cos(T) * mp.cos(P), R * mp.sin(T) * mp.cos(P), -R * mp.sin(P)]]
                fr, ft, fp = (float(sum(mp.mpf(a) * b for a, b in zip(g, row))) for row in J)
            got = np.asarray(ut.convert_derivative_from_spherical_to_cartesian(fr, ft, fp, r, t, p), dtype=float)
            ctx.count(["gradient-near-threshold", kind, g, r, t, p], nontrivial=True, tag=f"oracle:gradient:{kind}")
            # the three inputs carry one rounding each (relative 1.1e-16), amplified by at most 1/|r sin phi| * |d x/d angle| = O(1)
            tol = 1e-9 * max(1.0, max(abs(v) for v in g))
            if not all(abs(a - b) <= tol for a, b in zip(got, g)):
                ctx.fail("oracle", f"utils.convert_derivative_from_spherical_to_cartesian:gradient:{kind}",
                         f"gradient {g} of a linear function through its spherical derivatives at (r,theta,phi)=({r!r},{t!r},{p!r}) "
                         f"(above the thresholds 1e-10 of the routine): routine {got.tolist()}",
                         witness={"grad": g, "r": r, "theta": t, "phi": p, "got": got.tolist()}, snippet=SNIP_GRAD.format(g=g, r=r, t=t, p=p, tol=tol))
                break


def _special_points(ctx: Ctx):
    """[(centre, [(point, tag)])]: points coinciding with special points of the frame about a non-trivial centre — the
    centre itself, the Cartesian origin, points on the three axes through the centre (both directions), in the three
    coordinate planes through it, one ulp away from it — for an O(1) centre, a centre with a zero coordinate and a far one.
    All coordinates are dyadic, so every difference point - centre is exact."""
    rg = ctx.rng
    q = lambda lo, hi: rg.randrange(int(lo * 64), int(hi * 64) + 1) / 64.0
    out = []
    for c in ([q(-3, 3) or 0.5, q(-3, 3) or -0.25, q(-3, 3) or 1.5], [0.0, q(0.5, 3), -q(0.5, 3)],
              [2.0 ** rg.choice([10, 14, 20]) + q(0, 1), -(2.0 ** rg.choice([10, 14, 20])), q(-3, 3)]):
        d = q(0.25, 4)
        pts = [(list(c), "centre-itself"), ([0.0, 0.0, 0.0], "origin")]
        for k, ax in enumerate("xyz"):
            for sg in (1.0, -1.0):
                p = list(c)
                p[k] += sg * d
                pts.append((p, f"on-{ax}-axis-through-centre"))
                p = list(c)
                p[k] = math.nextafter(p[k], sg * math.inf)
                pts.append((p, "one-ulp-from-centre"))
            p = [c[i] + q(-3, 3) for i in range(3)]
            p[k] = c[k]
            pts.append((p, f"in-plane-{ax}=centre"))
        p = [math.nextafter(c[i], math.inf) for i in range(3)]
        pts.append((p, "one-ulp-from-centre"))
        pts.append(([c[i] + q(-3, 3) for i in range(3)], "generic"))
        out.append((c, pts))
    return out


SNIP_PIPE = """import warnings; warnings.filterwarnings('ignore')
import numpy as np, mpmath as mp, math
from grid.utils import convert_cart_to_sph, solid_harmonics
mp.mp.dps = 60
q, c, L, l, m = {q!r}, {c!r}, {L}, {l}, {m}
sph = convert_cart_to_sph(np.array([q]), np.array(c))
got = float(np.asarray(solid_harmonics(L, sph), dtype=float)[{row}, 0])
x, y, z = (mp.mpf(a) - mp.mpf(b) for a, b in zip(q, c))
r = mp.sqrt(x*x + y*y + z*z); rho = mp.sqrt(x*x + y*y); a = abs(m)
if r == 0:
    want = mp.mpf(1 if l == 0 else 0)
else:
    az = mp.atan2(y, x) if rho != 0 else mp.mpf(0)
    s = sum(mp.mpf((-1)**k * math.comb(l, k) * math.comb(2*l-2*k, l) * math.factorial(l-2*k)) / (math.factorial(l-2*k-a) * 2**l) * (z/r)**(l-2*k-a)
            for k in range((l-a)//2 + 1))
    want = r**l * mp.sqrt(mp.factorial(l-a)/mp.factorial(l+a)) * (rho/r)**a * s * (1 if m == 0 else mp.sqrt(2) * (mp.cos(a*az) if m > 0 else mp.sin(a*az)))
assert abs(got - float(want)) <= {tol!r}, f'solid harmonic (l={{l}}, m={{m}}) of the point {{q}} about the centre {{c}}: solid_harmonics(convert_cart_to_sph(...)) = {{got!r}}, definition (60 digits) {{float(want)!r}}'
"""


def _mp_solid_cart(mp, l, m, d):
    """Regular solid harmonic R_lm = sqrt(4 pi/(2l+1)) r^l Y_lm of the Cartesian vector d (mp numbers), from the definition."""
    x, y, z = d
    r = mp.sqrt(x * x + y * y + z * z)
    if r == 0:
        return mp.mpf(1 if l == 0 else 0)
    rho = mp.sqrt(x * x + y * y)
    az = mp.atan2(y, x) if rho != 0 else mp.mpf(0)
    a = abs(m)
    s = mp.mpf(0)
    for e, c in _legendre_coeffs(l, a):
        s += mp.mpf(c.numerator) / mp.mpf(c.denominator) * (z / r) ** e
    v = r ** l * mp.sqrt(mp.factorial(l - a) / mp.factorial(l + a)) * (rho / r) ** a * s
    return v if m == 0 else v * mp.sqrt(2) * (mp.cos(a * az) if m > 0 else mp.sin(a * az))


def _special_point_pipeline(ctx: Ctx, ut, kind, mp=None):
    """Points at special positions of a non-trivial frame through convert_cart_to_sph into solid_harmonics and into the
    derivative routine.  corr: every stage against the model at the very floats the previous stage returned.
    oracle: solid harmonics against the definition evaluated on the Cartesian vector point - centre (60 digits); the
    derivative routine against the definition at the angles it was given."""
    L = 4
    lms = py_lm_order(L)
    for c, pts in _special_points(ctx):
        P = np.array([p for p, _ in pts])
        sph = np.asarray(ut.convert_cart_to_sph(P, np.array(c)), dtype=float)
        S = np.asarray(ut.solid_harmonics(L, sph), dtype=float)
        D = np.asarray(ut.generate_derivative_real_spherical_harmonics(L, sph[:, 1].copy(), sph[:, 2].copy()), dtype=float)
        far = max(abs(x) for x in c) > 100
        if kind == "corr":
            a1 = driver_batch(["C08.cartToSph " + " ".join(f2b(x) for x in list(p) + list(c)) for p, _ in pts])
            a2 = driver_batch([f"C08.solid {L} {f2b(r)} {f2b(t)} {f2b(ph)}" for r, t, ph in sph])
            a3 = driver_batch([f"C08.dYlm {L} {f2b(t)} {f2b(ph)}" for r, t, ph in sph])
        for j, (p, tag) in enumerate(pts):
            r, t, ph = (float(v) for v in sph[j])
            ctx.count([kind, "special-point", c, p], nontrivial=True, tag=f"special-point:{'far-centre:' if far else ''}{tag}")
            if kind == "corr":
                T = Tokens(a1[j][3:]) if a1[j].startswith("ok ") else None
                m1 = [T.flt(), T.flt(), T.flt()] if T else None
                if m1 is None or not all(close(x, y, rtol=1e-13, atol=1e-15, scale=max(1.0, abs(y))) for x, y in zip(m1, (r, t, ph))):
                    ctx.fail("corr", "special-point:cartToSph", f"convert_cart_to_sph({p}, center={c}) [{tag}] = {[r, t, ph]}, model {m1}",
                             witness={"routine": "c2s", "point": p, "center": c, "impl": [r, t, ph], "model": m1})
                rows = _rows(a2[j])
                d, i = _maxdiff(rows, S[:, j]) if rows is not None else (float("inf"), -1)
                if not d <= 1e-12 * (L + 1) * max(1.0, r ** L):
                    ctx.fail("corr", "special-point:solid", f"solid_harmonics({L}, convert_cart_to_sph({p}, {c})) [{tag}] row {i}: implementation "
                             f"{S[i, j] if i >= 0 else None!r}, model {rows[i] if rows is not None and i >= 0 else None!r}",
                             witness={"routine": "solid", "l_max": L, "r": r, "theta": t, "phi": ph, "row": i, "point": p, "center": c})
                if a3[j].startswith("ok "):
                    T = Tokens(a3[j][3:])
                    for which, mm, impl in (("theta", np.array(T.fvec()), D[0, :, j]), ("phi", np.array(T.fvec()), D[1, :, j])):
                        d, i = _maxdiff(mm, impl)
                        if not d <= 1e-12 * (L + 1) * max(1.0, float(np.nanmax(np.abs(impl)))):
                            ctx.fail("corr", f"special-point:dYlm:{which}", f"generate_derivative_real_spherical_harmonics({L}, theta={t!r}, phi={ph!r})"
                                     f"[{which}] at the angles of the point {p} about {c} [{tag}], row {i}: implementation {impl[i]!r}, model {mm[i]!r}",
                                     witness={"routine": "deriv", "l_max": L, "theta": t, "phi": ph, "component": which, "row": i})
                else:
                    ctx.fail("corr", "dYlm:shape", f"dYlm({L}) answered {a3[j][:60]}")
                continue
            # oracle
            with mp.workdps(60):
                d3 = [mp.mpf(a) - mp.mpf(b) for a, b in zip(p, c)]
                r0 = mp.sqrt(sum(x * x for x in d3))
                # the polar angle from arccos(z/r) carries an absolute error of up to ~1e-8 next to the axis (information of round 2):
                # exactly on the axis / at the centre it is exact, elsewhere the points are away from it
                for l, m in lms:
                    want = float(_mp_solid_cart(mp, l, m, d3))
                    got = float(S[row_index(l, m), j])
                    tol = 2e-12 * (L + 1) * max(float(r0) ** l, 1e-300)
                    if not abs(got - want) <= tol:
                        ctx.fail("oracle", f"utils.solid_harmonics:special-point:{tag}",
                                 f"solid harmonic (l={l}, m={m}) of the point {p} about the centre {c} [{tag}]: "
                                 f"solid_harmonics(convert_cart_to_sph(...)) = {got!r}, definition on the Cartesian vector (60 digits) {want!r}",
                                 witness={"point": p, "center": c, "l": l, "m": m, "got": got, "want": want, "sph": [r, t, ph]},
                                 snippet=SNIP_PIPE.format(q=p, c=c, L=L, l=l, m=m, row=row_index(l, m), tol=tol))
                        break
            _oracle_point(ctx, ut, mp, "deriv", L, t, ph, lms=[x for x in lms if x[0] in (1, 3)])


def _far_centres(ctx: Ctx, ut, kind):
    """Translation by exactly representable shifts 2^10 .. 2^20 (points and centre dyadic, so point + shift is exact):
    convert_cart_to_sph(points + s, centre + s) must be bit for bit convert_cart_to_sph(points, centre), and so must the
    solid harmonics computed from it."""
    rg = ctx.rng
    q = lambda lo, hi: rg.randrange(int(lo * 1024), int(hi * 1024) + 1) / 1024.0
    for _ in range(ctx.n(3, 12)):
        c = [q(-3, 3) for _ in range(3)]
        pts = [[q(-5, 5) for _ in range(3)] for _ in range(5)] + [list(c), [c[0], c[1], c[2] + q(0.5, 2)], [c[0] + 2.0 ** -10, c[1], c[2]], [0.0, 0.0, 0.0]]
        s = [rg.choice([1.0, -1.0]) * 2.0 ** rg.choice([10, 14, 17, 20]) for _ in range(3)]
        P, C = np.array(pts), np.array(c)
        Ps, Cs = P + np.array(s), C + np.array(s)
        assert np.array_equal(Ps - np.array(s), P) and np.array_equal(Cs - np.array(s), C)
        a = np.asarray(ut.convert_cart_to_sph(P, C))
        b = np.asarray(ut.convert_cart_to_sph(Ps, Cs))
        ctx.count([kind, "far-centre", c, s], nontrivial=True, tag="far-centre:translation")
        if not np.array_equal(a, b, equal_nan=True):
            j = int(np.argmax(np.any(a != b, axis=1)))
            snippet = ("import numpy as np\nfrom grid.utils import convert_cart_to_sph\n"
                       f"P, c, s = np.array({pts!r}), np.array({c!r}), np.array({s!r})   # P + s and c + s are exact\n"
                       "a, b = convert_cart_to_sph(P, c), convert_cart_to_sph(P + s, c + s)\n"
                       "assert np.array_equal(a, b, equal_nan=True), f'translated by {s.tolist()}: {b.tolist()} instead of {a.tolist()}'\n")
            ctx.fail(kind, "far-centre:translation" if kind == "corr" else "utils.convert_cart_to_sph:translation",
                     f"convert_cart_to_sph is not invariant under the exact translation {s}: point {pts[j]} about {c} -> {a[j].tolist()}, "
                     f"translated -> {b[j].tolist()}", witness={"routine": "c2s", "point": Ps[j].tolist(), "center": Cs.tolist(), "shift": s,
                                                                "untranslated": a[j].tolist(), "translated": b[j].tolist()},
                     snippet=snippet if kind == "oracle" else None)
        if kind == "corr":
            ans = driver_batch(["C08.cartToSph " + " ".join(f2b(x) for x in list(p) + list(Cs)) for p in Ps])
            for j, an in enumerate(ans):
                T = Tokens(an[3:]) if an.startswith("ok ") else None
                m1 = [T.flt(), T.flt(), T.flt()] if T else None
                if m1 is None or not all(close(x, float(y), rtol=1e-13, atol=1e-15, scale=max(1.0, abs(float(y)))) for x, y in zip(m1, b[j])):
                    ctx.fail("corr", "far-centre:cartToSph", f"convert_cart_to_sph({Ps[j].tolist()}, center={Cs.tolist()}) = {b[j].tolist()}, model {m1}",
                             witness={"routine": "c2s", "point": Ps[j].tolist(), "center": Cs.tolist(), "impl": b[j].tolist(), "model": m1})


def _scaled_solid(ctx: Ctx, ut, kind, mp=None):
    """Radii over 1e-300 .. 1e12: every row of solid_harmonics compared *relative to its own scale* r^l."""
    rg = ctx.rng
    L = 5
    lms = py_lm_order(L)
    deg = np.array([float(l) for l, _ in lms])
    for r in (1e-300, 1e-50, 1e-12, 1e-6, 1e6, 1e12, 10 ** rg.uniform(-12, 12)):
        t, p = rg.uniform(-7, 7), rg.uniform(-3, 6)
        S = np.asarray(ut.solid_harmonics(L, np.array([[r, t, p]])), dtype=float)[:, 0]
        ctx.count([kind, "solid-scaled", r, t, p], nontrivial=True, tag="solid:scaled")
        with np.errstate(under="ignore", over="ignore"):
            scale = np.maximum(r ** deg, 5e-324)
        if kind == "corr":
            rows = _rows(driver_batch([f"C08.solid {L} {f2b(r)} {f2b(t)} {f2b(p)}"])[0])
            refname = "model"
        else:
            with mp.workdps(50):
                rows = np.array([float(mp.sqrt(4 * mp.pi / (2 * l + 1)) * mp.mpf(r) ** l * mp_ylm(mp, l, m, t, p)) for l, m in lms])
            refname = "definition (50 digits)"
        err = np.abs(S - rows) / scale if rows is not None else np.array([np.inf])
        err[np.isnan(err)] = np.inf
        i = int(np.argmax(err))
        if not err[i] <= 1e-12 * (L + 1) * (1 + abs(t)):
            l, m = lms[i]
            ctx.fail(kind, "solid:scaled" if kind == "corr" else "utils.solid_harmonics:scaled",
                     f"solid_harmonics({L}, (r,theta,phi)=({r!r},{t!r},{p!r})) row (l={l}, m={m}) = {float(S[i])!r}, {refname} {float(rows[i])!r} "
                     f"(difference relative to r^l = {float(scale[i])!r}: {float(err[i])!r})",
                     witness={"routine": "solid", "l_max": L, "r": r, "theta": t, "phi": p, "l": l, "m": m, "row": i},
                     snippet=SNIP_VAR.format(fname=_FN["solid"], dps=50, pre="", call=f"fn({L}, np.array([[{r!r}, {t!r}, {p!r}]]))", index=f"[{i}, 0]", l=l, m=m, r=r,
                                             t=t, p=p, j=0, want=_WANT["solid"], tol=float(1e-12 * (L + 1) * (1 + abs(t)) * scale[i]),
                                             what=f"solid row (l={l}, m={m})") if kind == "oracle" else None)


def _empty_inputs(ctx: Ctx, ut, kind):
    """Zero points: every routine returns the empty array of the documented shape."""
    e = np.zeros(0)
    for name, call, shape in (("recursion", lambda: ut.generate_real_spherical_harmonics(3, e, e), (16, 0)),
                              ("scipy", lambda: ut.generate_real_spherical_harmonics_scipy(3, e, e), (16, 0)),
                              ("deriv", lambda: ut.generate_derivative_real_spherical_harmonics(3, e, e), (2, 16, 0)),
                              ("solid", lambda: ut.solid_harmonics(3, np.zeros((0, 3))), (16, 0)),
                              ("c2s", lambda: ut.convert_cart_to_sph(np.zeros((0, 3)), np.array([1.0, 2.0, 3.0])), (0, 3))):
        ctx.count([kind, "empty", name], nontrivial=False, tag=f"variant:{name}:no-points")
        try:
            got = np.asarray(call())
            if got.shape != shape:
                ctx.fail(kind, f"variant:{name}:no-points" if kind == "corr" else f"utils.{_FN[name]}:no-points",
                         f"{_FN[name]} on zero points returned shape {got.shape}, expected {shape}")
        except Exception as ex:
            ctx.tagc(f"variant:{name}:no-points:rejected({type(ex).__name__})")


def _cross_routine_history(ctx: Ctx, ut, kind, mp=None):
    """The routines after one another on shared arrays, in both orders, with results modified in place by the caller in
    between: every answer against `ref` and bit for bit equal to the answer the same call gave in the other order."""
    rg = ctx.rng
    f32 = lambda x: float(np.float32(x))
    t = [f32(rg.uniform(0.2, 2.9)), -f32(rg.uniform(3.4, 6.0)), f32(rg.uniform(6.5, 9.2))]
    p = [f32(rg.uniform(0.2, 2.9)), -f32(rg.uniform(0.2, 2.9)), f32(rg.uniform(3.4, 6.0))]
    rr = [f32(rg.uniform(0.3, 2.0)) for _ in t]
    L = 3
    calls = {"recursion": f"u.generate_real_spherical_harmonics({L}, A, Ap)", "scipy": f"u.generate_real_spherical_harmonics_scipy({L}, A, Ap)",
             "deriv": f"u.generate_derivative_real_spherical_harmonics({L}, A, Ap)", "solid": f"u.solid_harmonics({L}, S)"}
    pre = f"import grid.utils as u\nA = np.array({t!r}); Ap = np.array({p!r}); S = np.array({[[a, b, c] for a, b, c in zip(rr, t, p)]!r})"
    if kind == "corr":
        ref = _model_refs([dict(fn=f, steps=[dict(t=t, p=p, L=L, r=rr)]) for f in ("recursion", "deriv", "solid")])
        refname = "model"
    else:
        ref, refname = _mp_refs(mp), "definition (50 digits)"
    first = {}
    for order in (["deriv", "solid", "scipy", "recursion"], ["recursion", "scipy", "solid", "deriv"], ["solid", "recursion", "deriv", "scipy"]):
        ns = {"np": np, "u": ut}
        exec(pre.split("\n", 1)[1], ns)
        hist = [pre]
        for name in order:
            ctx.count([kind, "cross-routine", tuple(order), name], nontrivial=True, tag=f"variant:{name}:after-other-routines")
            out = eval(calls[name], ns)
            got = np.asarray(out, dtype=float).copy()
            hist.append("R = " + calls[name] + "\nR[...] = 7.0   # the caller uses the result as its own")
            try:
                out[...] = 7.0
            except Exception:
                pass
            key = f"variant:{name}:after-other-routines" if kind == "corr" else f"utils.{_FN[name]}:after-other-routines"
            for j in range(len(t)):
                want = ref("solid" if name == "solid" else "dY" if name == "deriv" else "Y", L, t[j], p[j], rr[j] if name == "solid" else None)
                g = got[:, :, j] if name == "deriv" else got[:, j]
                d, i = _maxdiff(np.asarray(want).ravel(), np.asarray(g).ravel()) if want is not None else (float("inf"), -1)
                if not d <= 1e-11 * (L + 1) ** 2 * (1 + abs(t[j])) * max(1.0, rr[j] ** L):
                    ctx.fail(kind, key, f"{_FN[name]} called after {order[:order.index(name)]} on the shared arrays returns {np.asarray(g).ravel()[i]!r} "
                             f"at point {j}, flat entry {i}; {refname} {np.asarray(want).ravel()[i] if want is not None else None!r}",
                             witness={"history": hist, "routine": name, "point": j, "entry": i})
                    break
            if name in first and not np.array_equal(first[name], got, equal_nan=True):
                snippet = ("import warnings; warnings.filterwarnings('ignore')\nimport numpy as np\n" + pre + "\nfirst = np.array(" + calls[name] + ", dtype=float)\n"
                           + "\n".join(hist[1:-1]) + "\nagain = np.array(" + calls[name] + ", dtype=float)\n"
                           "assert np.array_equal(first, again, equal_nan=True), 'the answer depends on what was called (and modified) before: largest difference ' + repr(float(np.max(np.abs(first - again))))\n")
                ctx.fail(kind, key, f"{_FN[name]} on the same arrays returns another answer after the calls {order[:order.index(name)]} whose results the "
                         f"caller modified in place (largest difference {_maxdiff(first[name], got)[0]!r})",
                         witness={"history": hist, "routine": name}, snippet=snippet if kind == "oracle" else None)
            first.setdefault(name, got)



# --------------------------------------------------------------------------------------
# round 4: independent parts (an exception in one part does not hide what the others find); arrays held by objects;
# one argument object for several requests; value kinds of the data; rejected calls; extreme radii; small / unequal shapes
# --------------------------------------------------------------------------------------
def _run_parts(ctx: Ctx, kind, ut, parts):
    """Run the parts one after the other.  An exception raised *inside the library* (a frame of the traceback lies in the
    package under test) is recorded as a failure of that part (`<part>:raises`, with the harness line that made the call) and
    the run goes on; any other exception (driver, harness) is kept and re-raised after all parts have run."""
    import os
    import traceback
    from ..common import DriverError
    libdir = os.path.dirname(os.path.abspath(ut.__file__)) + os.sep
    first = None
    for name, fn in parts:
        try:
            fn()
        except DriverError as e:
            first = first or e
            ctx.info(f"{kind} part '{name}' stopped: driver unusable ({str(e)[:120]})")
        except Exception as e:
            tb = traceback.extract_tb(e.__traceback__)
            lib = [f for f in tb if os.path.abspath(f.filename).startswith(libdir)]
            if lib:
                here = [f for f in tb if f.filename == __file__]
                call = here[-1].line if here else "?"
                ctx.fail(kind, f"part:{name}:raises" if kind == "corr" else f"utils:{name}:raises",
                         f"{kind} part '{name}': the library raised {type(e).__name__}: {str(e)[:200]} in {lib[-1].name} "
                         f"(utils.py line {lib[-1].lineno}: `{lib[-1].line}`), called from `{call}`",
                         witness={"part": name, "traceback": traceback.format_exc()[-2000:]})
            else:
                first = first or e
                ctx.info(f"{kind} part '{name}' raised {type(e).__name__}: {str(e)[:200]} (harness side; re-raised after the other parts)")
    if first is not None:
        raise first


_HELD_KINDS = {  # how the point array held by the object is built from the float64 values `V` (an (N, 3) list)
    "float64": "np.array(V)",
    "int64": "np.array(V, dtype=np.int64)",
    "int32": "np.array(V, dtype=np.int32)",
    "float32": "np.array(V, dtype=np.float32)",
    "read-only": "_ro(np.array(V))",
    "strided": "np.repeat(np.array(V), 2, axis=0)[::2]",
    "negative-stride": "np.array(V[::-1])[::-1]",
    "F-order": "np.asfortranarray(np.array(V))",
    "column-slice-of-wider": "np.hstack([np.array(V), np.full((len(V), 2), 9.0)])[:, :3]",
}

SNIP_HELD = """import warnings; warnings.filterwarnings('ignore')
import numpy as np
from grid.basegrid import Grid
from grid.utils import convert_cart_to_sph, solid_harmonics, generate_real_spherical_harmonics, generate_real_spherical_harmonics_scipy, generate_derivative_real_spherical_harmonics
def _ro(a):
    a.setflags(write=False); return a
V = {V!r}; c = {c!r}; L = {L}
g = Grid({build}, np.ones(len(V)))          # the object holds the array as it was given
ref = Grid(np.array(V, dtype=float), np.ones(len(V)))
def run(points):
    sph = convert_cart_to_sph(points, {centre})
    return [np.asarray(x, dtype=float) for x in (sph, solid_harmonics(L, sph), generate_real_spherical_harmonics(L, sph[:, 1], sph[:, 2]),
            generate_real_spherical_harmonics_scipy(L, sph[:, 1], sph[:, 2]), generate_derivative_real_spherical_harmonics(L, sph[:, 1], sph[:, 2]))]
for name, a, b in zip(('convert_cart_to_sph', 'solid_harmonics', 'harmonics', 'harmonics (SciPy)', 'derivatives'), run(g.points), run(ref.points)):
    assert a.shape == b.shape and np.allclose(a, b, rtol=0, atol={tol!r} * max(1.0, float(np.max(np.abs(b)))), equal_nan=True), f'{{name}} from the points held by the grid ({kind}) differs from the float64 computation by {{float(np.max(np.abs(a - b)))!r}}'
"""


def _object_held_arrays(ctx: Ctx, ut, mp):
    """Class 14: the point array *held by a grid object* (integer, float32, read-only, strided, negative stride, Fortran order,
    a slice of a wider array; AngularGrid / AtomGrid points) handed to convert_cart_to_sph and on to solid_harmonics, both
    harmonics routines and the derivative routine.  Reference: the same pipeline on a float64 C-contiguous copy (and that one
    against the definition, round trip with 60 digits)."""
    from grid.basegrid import Grid
    rg = ctx.rng
    L = 3
    V = [[float(rg.randrange(-6, 7)), float(rg.randrange(-6, 7)), float(rg.randrange(-6, 7))] for _ in range(5)] + [[0.0, 0.0, 0.0], [1.0, -2.0, 3.0]]
    cfrac = [rg.randrange(-12, 13) / 4.0 + 0.25, rg.randrange(-12, 13) / 4.0 + 0.125, rg.randrange(-12, 13) / 4.0 + 0.375]   # fractional: a cast to the integer dtype shows

    def _ro(a):
        a.setflags(write=False)
        return a

    def run(points, centre):
        sph = ut.convert_cart_to_sph(points, centre)
        return [np.asarray(x, dtype=float) for x in (sph, ut.solid_harmonics(L, sph), ut.generate_real_spherical_harmonics(L, sph[:, 1], sph[:, 2]),
                                                     ut.generate_real_spherical_harmonics_scipy(L, sph[:, 1], sph[:, 2]),
                                                     ut.generate_derivative_real_spherical_harmonics(L, sph[:, 1], sph[:, 2]))]
    names = ("convert_cart_to_sph", "solid_harmonics", "generate_real_spherical_harmonics", "generate_real_spherical_harmonics_scipy",
             "generate_derivative_real_spherical_harmonics")
    centres = (("fractional-list", cfrac, repr(cfrac)), ("fractional-array", np.array(cfrac), "np.array(c)"), ("none", None, "None"),
               ("integer-tuple", (1, -2, 3), "(1, -2, 3)"))
    refs = {}
    for cname, cobj, csrc in centres:
        ref = refs[cname] = run(Grid(np.array(V, dtype=float), np.ones(len(V))).points, cobj)
        # the float64 pipeline itself: round trip (60 digits) and the solid harmonics against the Cartesian definition
        cc = [0.0, 0.0, 0.0] if cobj is None else [float(x) for x in cobj]
        with mp.workdps(60):
            for j, q in enumerate(V):
                d3 = [mp.mpf(a) - mp.mpf(b) for a, b in zip(q, cc)]
                r0 = mp.sqrt(sum(x * x for x in d3))
                r, t, ph = (mp.mpf(float(x)) for x in ref[0][j])
                back = [r * mp.cos(t) * mp.sin(ph), r * mp.sin(t) * mp.sin(ph), r * mp.cos(ph)]
                ctx.count(["held", "reference", cname, q], nontrivial=True, tag="held-by-object:float64-reference")
                if not max(abs(a - b) for a, b in zip(back, d3)) <= 1e-13 * r0:
                    ctx.fail("oracle", "utils.convert_cart_to_sph:roundtrip", f"convert_cart_to_sph({q}, center={cc}) = {ref[0][j].tolist()} does not map back to the point",
                             witness={"point": q, "center": cc, "sph": ref[0][j].tolist()})
                for l, m in py_lm_order(L):
                    want = float(_mp_solid_cart(mp, l, m, d3))
                    if not abs(float(ref[1][row_index(l, m), j]) - want) <= 2e-12 * (L + 1) * max(float(r0) ** l, 1e-300):
                        ctx.fail("oracle", "utils.solid_harmonics:cartesian", f"solid harmonic (l={l}, m={m}) of the point {q} about {cc}: "
                                 f"{float(ref[1][row_index(l, m), j])!r}, definition on the Cartesian vector {want!r}", witness={"point": q, "center": cc, "l": l, "m": m})
                        break
        for kname, build in _HELD_KINDS.items():
            g = Grid(eval(build, {"np": np, "V": V, "_ro": _ro}), np.ones(len(V)))
            ctx.count(["held", kname, cname], nontrivial=kname != "float64", tag=f"held-by-object:{kname}")
            single = kname == "float32"
            try:
                got = run(g.points, cobj)
            except Exception as e:
                ctx.fail("oracle", f"utils.convert_cart_to_sph:held-by-object:{kname}", f"the pipeline on the points held by Grid({build}) with centre {csrc} raised "
                         f"{type(e).__name__}: {str(e)[:150]}", witness={"V": V, "center": cc, "kind": kname},
                         snippet=SNIP_HELD.format(V=V, c=cfrac, L=L, build=build, centre=csrc, kind=kname, tol=1e-12))
                continue
            for name, a, b in zip(names, got, ref):
                tol = 1e-12 * max(1.0, float(np.nanmax(np.abs(b))))
                if a.shape != b.shape or not np.allclose(a, b, rtol=0, atol=tol, equal_nan=True):
                    dd = float(np.nanmax(np.abs(a - b))) if a.shape == b.shape else float("inf")
                    ctx.fail("oracle", f"utils.{name}:held-by-object:{kname}",
                             f"{name} on the points held by Grid({build}) (values {V}) about the centre {csrc} = {cc} differs from the float64 computation by {dd!r}",
                             witness={"V": V, "center": cc, "kind": kname, "centre_kind": cname, "routine": name},
                             snippet=SNIP_HELD.format(V=V, c=cfrac, L=L, build=build, centre=csrc, kind=kname, tol=1e-12))
                    break
    # points held by the library's own grid classes
    from grid.angular import AngularGrid
    for obj, what in ((AngularGrid(degree=7), "AngularGrid(degree=7)"),):
        pts = obj.points
        ctx.count(["held", what], nontrivial=True, tag="held-by-object:AngularGrid")
        before = pts.copy()
        sph = np.asarray(ut.convert_cart_to_sph(pts, np.array(cfrac)), dtype=float)
        sph2 = np.asarray(ut.convert_cart_to_sph(before.copy(), np.array(cfrac)), dtype=float)
        if not np.array_equal(sph, sph2, equal_nan=True) or not np.array_equal(pts, before):
            ctx.fail("oracle", "utils.convert_cart_to_sph:held-by-object:AngularGrid", f"convert_cart_to_sph({what}.points, {cfrac}) differs from the call on a copy of the points, "
                     f"or modified the points of the grid", witness={"center": cfrac})


SNIP_VIEW = """import warnings; warnings.filterwarnings('ignore')
import numpy as np
import grid.utils as u
big = np.full(({n} + 4, 7), 777.0)
S = big[2:-2, 2:5]            # (r, theta, phi) rows: a view into the caller's larger array
S[...] = {vals!r}
A, Ap = S[:, 1], S[:, 2]      # theta and phi: views of the same memory
pristine = big.copy()
rc, tc, pc = (np.ascontiguousarray(pristine[2:-2, k]) for k in (2, 3, 4))
for _ in range(3):
    got = np.asarray({call}, dtype=float)
want = np.asarray({ref}, dtype=float)
assert np.array_equal(big, pristine), 'the call wrote into the caller\\'s array: ' + repr(np.argwhere(big != pristine).tolist()[:5])
assert got.shape == want.shape and np.allclose(got, want, rtol=0, atol={tol!r} * max(1.0, float(np.max(np.abs(want)))), equal_nan=True), f'the answer on the views differs from the answer on pristine copies by {{float(np.max(np.abs(got - want)))!r}}'
"""


def _shared_argument_views(ctx: Ctx, ut):
    """Class 16: one argument object for several requests.  (r, theta, phi) live in a view into a larger caller array (guard
    cells all around); theta and phi are views of the same memory, passed two and three times to the same routine and to the
    other routines, the same array for both parameters, a row of the points as the centre.  Every answer against the answer on
    pristine contiguous copies; the whole larger array unchanged afterwards."""
    rg = ctx.rng
    f32 = lambda x: float(np.float32(x))
    n, L = 5, 3
    vals = [[f32(rg.uniform(0.3, 2.0)), f32(rg.uniform(-7, 7)), f32(rg.uniform(-3, 6))] for _ in range(n)]
    big = np.full((n + 4, 7), 777.0)
    S = big[2:-2, 2:5]
    S[...] = vals
    A, Ap = S[:, 1], S[:, 2]
    pristine = big.copy()
    rc, tc, pc = (np.ascontiguousarray(pristine[2:-2, k]) for k in (2, 3, 4))
    Sc = np.ascontiguousarray(pristine[2:-2, 2:5])
    ns = {"np": np, "u": ut, "S": S, "A": A, "Ap": Ap, "rc": rc, "tc": tc, "pc": pc, "Sc": Sc, "big": big}
    reqs = [("generate_real_spherical_harmonics", f"u.generate_real_spherical_harmonics({L}, A, Ap)", f"u.generate_real_spherical_harmonics({L}, tc, pc)"),
            ("generate_real_spherical_harmonics", f"u.generate_real_spherical_harmonics({L}, A, A)", f"u.generate_real_spherical_harmonics({L}, tc, tc)"),
            ("generate_real_spherical_harmonics_scipy", f"u.generate_real_spherical_harmonics_scipy({L}, A, Ap)", f"u.generate_real_spherical_harmonics_scipy({L}, tc, pc)"),
            ("generate_real_spherical_harmonics_scipy", f"u.generate_real_spherical_harmonics_scipy({L}, Ap, Ap)", f"u.generate_real_spherical_harmonics_scipy({L}, pc, pc)"),
            ("generate_derivative_real_spherical_harmonics", f"u.generate_derivative_real_spherical_harmonics({L}, A, Ap)", f"u.generate_derivative_real_spherical_harmonics({L}, tc, pc)"),
            ("solid_harmonics", f"u.solid_harmonics({L}, S)", f"u.solid_harmonics({L}, np.stack([rc, tc, pc], axis=1))"),
            ("convert_cart_to_sph", "u.convert_cart_to_sph(S, S[1])", "u.convert_cart_to_sph(np.stack([rc, tc, pc], axis=1), np.array([rc[1], tc[1], pc[1]]))"),
            ("convert_cart_to_sph", "u.convert_cart_to_sph(S, S[0])", "u.convert_cart_to_sph(np.stack([rc, tc, pc], axis=1), np.array([rc[0], tc[0], pc[0]]))"),
            ("convert_cart_to_sph", "u.convert_cart_to_sph(S)", "u.convert_cart_to_sph(np.stack([rc, tc, pc], axis=1))")]
    for rnd in range(2):   # every request twice, in the second round in reversed order (the earlier requests are the history)
        for name, call, ref in (reqs if rnd == 0 else reqs[::-1]):
            ctx.count(["shared-view", rnd, call], nontrivial=True, tag=f"shared-view:{name}")
            key = f"utils.{name}:shared-view"
            snip = SNIP_VIEW.format(n=n, vals=vals, call=call, ref=ref, tol=1e-12)
            try:
                outs = [np.asarray(eval(call, ns), dtype=float) for _ in range(3)]
                want = np.asarray(eval(ref, ns), dtype=float)
            except Exception as e:
                ctx.fail("oracle", key, f"`{call}` on views into a larger array raised {type(e).__name__}: {str(e)[:150]}", witness={"vals": vals, "call": call}, snippet=snip)
                continue
            if not np.array_equal(big, pristine):
                where = np.argwhere(big != pristine).tolist()[:5]
                ctx.fail("oracle", f"utils.{name}:input-modified", f"`{call}` wrote into the caller's larger array (S = big[2:-2, 2:5]) at {where}: "
                         f"{[float(big[tuple(w)]) for w in where]} instead of {[float(pristine[tuple(w)]) for w in where]}", witness={"vals": vals, "call": call, "where": where}, snippet=snip)
                big[...] = pristine
            tol = 1e-12 * max(1.0, float(np.nanmax(np.abs(want))) if want.size else 1.0)
            if outs[0].shape != want.shape or not np.allclose(outs[0], want, rtol=0, atol=tol, equal_nan=True):
                ctx.fail("oracle", key, f"`{call}` (arguments: views into a larger array, (r, theta, phi) = {vals}) differs from `{ref}` on pristine contiguous copies by "
                         f"{float(np.nanmax(np.abs(outs[0] - want))) if outs[0].shape == want.shape else 'shape ' + str(outs[0].shape)!r}", witness={"vals": vals, "call": call}, snippet=snip)
            elif not all(np.array_equal(outs[0], o, equal_nan=True) for o in outs[1:]):
                ctx.fail("oracle", key, f"`{call}` repeated three times on the same argument objects does not return the same answer", witness={"vals": vals, "call": call}, snippet=snip)


_VALUE_KINDS = {  # value kinds of the three derivative data (the routine is linear in them)
    "complex128": "np.complex128({z})", "complex64": "np.complex64({z})", "python-complex": "complex({z})", "longdouble": "np.longdouble({x})",
    "float32": "np.float32({x})", "int": "int({i})", "np.int32": "np.int32({i})", "bool": "bool({b})", "0-d-complex": "np.array({z})", "0-d-float": "np.array({x})",
}

SNIP_KIND = """import numpy as np
from grid.utils import convert_derivative_from_spherical_to_cartesian as f
r, t, p = {r!r}, {t!r}, {p!r}
d = [{d0}, {d1}, {d2}]                     # the three derivative data, kinds {kinds}
got = np.asarray(f(d[0], d[1], d[2], r, t, p))
re = np.asarray(f(*[float(np.real(x)) for x in d], r, t, p), dtype=float)     # the routine is linear in the data
im = np.asarray(f(*[float(np.imag(x)) for x in d], r, t, p), dtype=float)
assert got.shape == (3,) and np.allclose(np.real(got).astype(float), re, rtol=0, atol={tol!r}) and np.allclose(np.imag(got).astype(float), im, rtol=0, atol={tol!r}), f'{{got.tolist()}} instead of {{(re + 1j * im).tolist()}}'
"""


def _value_kinds_conv_deriv(ctx: Ctx, ut):
    """Class 17: convert_derivative_from_spherical_to_cartesian is linear in (deriv_r, deriv_theta, deriv_phi): complex128 /
    complex64 / Python complex / longdouble / float32 / integer / bool / 0-d data, the same kind for all three and mixed kinds,
    against real and imaginary part computed separately with Python floats."""
    rg = ctx.rng
    f = ut.convert_derivative_from_spherical_to_cartesian
    kinds = list(_VALUE_KINDS)
    combos = [(k, k, k) for k in kinds] + [tuple(rg.choice(kinds) for _ in range(3)) for _ in range(6)]
    for ks in combos:
        r, t, p = rg.choice([rg.uniform(0.2, 3), 0.0, 5e-11]), rg.uniform(-7, 7), rg.choice([rg.uniform(0.1, 3.0), -rg.uniform(0.1, 3.0), 0.0])
        srcs = []
        for k in ks:
            x, y = float(np.float32(rg.uniform(-2, 2))), float(np.float32(rg.uniform(-2, 2)))
            srcs.append(_VALUE_KINDS[k].format(z=repr(complex(x, y)), x=repr(x), i=rg.randrange(-3, 4), b=rg.choice([True, False])))
        d = [eval(sx, {"np": np}) for sx in srcs]
        ctx.count(["value-kind", ks, r, t, p], nontrivial=True, tag="value-kind:" + (ks[0] if len(set(ks)) == 1 else "mixed"))
        key = "utils.convert_derivative_from_spherical_to_cartesian:value-kind:" + (ks[0] if len(set(ks)) == 1 else "mixed")
        snip = SNIP_KIND.format(r=r, t=t, p=p, d0=srcs[0], d1=srcs[1], d2=srcs[2], kinds=ks, tol=1e-6 if any(k in ("float32", "complex64") for k in ks) else 1e-12)
        tol = 1e-6 if any(k in ("float32", "complex64") for k in ks) else 1e-12
        try:
            got = np.asarray(f(d[0], d[1], d[2], r, t, p))
            re = np.asarray(f(*[float(np.real(x)) for x in d], r, t, p), dtype=float)
            im = np.asarray(f(*[float(np.imag(x)) for x in d], r, t, p), dtype=float)
        except Exception as e:
            ctx.fail("oracle", key, f"convert_derivative_from_spherical_to_cartesian({', '.join(srcs)}, r={r!r}, theta={t!r}, phi={p!r}) raised {type(e).__name__}: {str(e)[:150]}",
                     witness={"data": srcs, "r": r, "theta": t, "phi": p}, snippet=snip)
            continue
        ok = got.shape == (3,) and np.allclose(np.real(got).astype(float), re, rtol=0, atol=tol * max(1.0, float(np.max(np.abs(re))))) \
            and np.allclose(np.imag(got).astype(float), im, rtol=0, atol=tol * max(1.0, float(np.max(np.abs(im)))))
        if not ok:
            ctx.fail("oracle", key, f"convert_derivative_from_spherical_to_cartesian({', '.join(srcs)}, r={r!r}, theta={t!r}, phi={p!r}) = {got.tolist()}, "
                     f"real / imaginary part computed separately {(re + 1j * im).tolist()}", witness={"data": srcs, "r": r, "theta": t, "phi": p}, snippet=snip)


_ACCEPTED = [("generate_real_spherical_harmonics", "u.generate_real_spherical_harmonics(3, A, Ap)"),
             ("generate_real_spherical_harmonics_scipy", "u.generate_real_spherical_harmonics_scipy(3, A, Ap)"),
             ("generate_derivative_real_spherical_harmonics", "u.generate_derivative_real_spherical_harmonics(3, A, Ap)"),
             ("solid_harmonics", "u.solid_harmonics(3, S)"),
             ("convert_cart_to_sph", "u.convert_cart_to_sph(S, c)"),
             ("convert_derivative_from_spherical_to_cartesian", "u.convert_derivative_from_spherical_to_cartesian(1.0, -2.0, 0.5, 1.5, A[0], Ap[0])")]
_REJECTED = ["u.generate_real_spherical_harmonics(-1, A, Ap)", "u.generate_real_spherical_harmonics_scipy(-1, A, Ap)",
             "u.generate_real_spherical_harmonics(3, A, Ap[:2])", "u.generate_real_spherical_harmonics_scipy(3, A, Ap[:2])",
             "u.generate_real_spherical_harmonics_scipy(3, A.reshape(1, -1), Ap.reshape(1, -1))", "u.generate_real_spherical_harmonics(3, None, None)",
             "u.generate_real_spherical_harmonics(3, A, 'x')", "u.generate_real_spherical_harmonics_scipy('3', A, Ap)",
             "u.generate_derivative_real_spherical_harmonics(-2, A, Ap)", "u.generate_derivative_real_spherical_harmonics(3, A, Ap[:2])",
             "u.generate_derivative_real_spherical_harmonics(3, A, None)", "u.generate_derivative_real_spherical_harmonics(2.5, A, Ap)",
             "u.solid_harmonics(3, S[:, :2])", "u.solid_harmonics(-1, S)", "u.solid_harmonics(3, S[0])", "u.solid_harmonics(3, None)",
             "u.convert_cart_to_sph(S[0], c)", "u.convert_cart_to_sph(S, c[:2])", "u.convert_cart_to_sph(S[:, :2], c)", "u.convert_cart_to_sph(S, 'abc')",
             "u.convert_cart_to_sph(None)", "u.convert_cart_to_sph(S.reshape(-1, 3, 1))",
             "u.convert_derivative_from_spherical_to_cartesian(1.0, 2.0, 3.0, 'a', 0.0, 0.0)", "u.convert_derivative_from_spherical_to_cartesian(1.0, 2.0, None, 1.0, 0.0, 0.0)",
             "u.convert_derivative_from_spherical_to_cartesian(1.0, 2.0)"]

SNIP_TRACE = """import warnings; warnings.filterwarnings('ignore')
import numpy as np
import grid.utils as u
A = np.array({t!r}); Ap = np.array({p!r}); S = np.array({S!r}); c = np.array({c!r})
first = np.array({call}, dtype=float)
keep = [x.copy() for x in (A, Ap, S, c)]
for bad in {rejected!r}:
    try:
        eval(bad)
    except Exception:
        pass
assert all(np.array_equal(x, y) for x, y in zip((A, Ap, S, c), keep)), 'a call that raised modified its arguments'
again = np.array({call}, dtype=float)
assert np.array_equal(first, again, equal_nan=True), 'after calls that ended in an exception `{call}` returns another answer: largest difference ' + repr(float(np.nanmax(np.abs(first - again))))
"""


SNIP_TRACE_FRESH = """import subprocess, sys
# run in a fresh interpreter: the calls that end in an exception come first
code = '''import warnings; warnings.filterwarnings('ignore')
import numpy as np
import grid.utils as u
A = np.array({t!r}); Ap = np.array({p!r}); S = np.array({S!r}); c = np.array({c!r})
if RAISE_FIRST:
    for bad in {rejected!r}:
        try:
            eval(bad)
        except Exception:
            pass
print(np.array({call}, dtype=float).tobytes().hex())
'''
a, b = (subprocess.run([sys.executable, '-c', code.replace('RAISE_FIRST', flag)], capture_output=True, text=True).stdout for flag in ('False', 'True'))
assert a and a == b, 'the answer of `{call}` depends on whether calls that ended in an exception were made before it'
"""


def _rejected_calls_leave_no_trace(ctx: Ctx, ut):
    """Class 18: after public calls that end in an exception (negative / non-integer / string l_max, mismatched lengths, wrong
    rank, None, a centre of the wrong length, too few arguments) every accepted call returns bit for bit what it returned before
    and what a fresh process returns; the arguments of the rejected calls are unchanged."""
    import hashlib
    import subprocess
    import sys
    rg = ctx.rng
    f32 = lambda x: float(np.float32(x))
    t = [f32(rg.uniform(0.2, 2.9)), -f32(rg.uniform(3.4, 6.0)), f32(rg.uniform(6.5, 9.2)), 0.0]
    p = [f32(rg.uniform(0.2, 2.9)), -f32(rg.uniform(0.2, 2.9)), f32(rg.uniform(3.4, 6.0)), 0.0]
    Sv = [[f32(rg.uniform(0.3, 2.0)), a, b] for a, b in zip(t, p)]
    c = [0.5, -1.25, 2.0]
    setup = f"A = np.array({t!r}); Ap = np.array({p!r}); S = np.array({Sv!r}); c = np.array({c!r})"
    ns = {"np": np, "u": ut}
    exec(setup, ns)
    first = {call: np.array(eval(call, ns), dtype=float) for _, call in _ACCEPTED}
    keep = {k: ns[k].copy() for k in ("A", "Ap", "S", "c")}
    for rnd in range(2):
        for bad in (_REJECTED if rnd == 0 else rg.sample(_REJECTED, len(_REJECTED))):
            ctx.count(["rejected", rnd, bad], nontrivial=True, tag="rejected-call")
            try:
                eval(bad, ns)
                ctx.tagc("rejected-call:accepted(" + bad.split("(")[0][2:] + ")")
            except Exception as e:
                ctx.tagc(f"rejected-call:{type(e).__name__}")
            for k, v in keep.items():
                if not np.array_equal(ns[k], v):
                    ctx.fail("oracle", "utils:rejected-call:input-modified", f"`{bad}` (a call that ends in an exception) modified its argument {k}: {v.tolist()} -> {ns[k].tolist()}",
                             witness={"call": bad, "argument": k}, snippet=SNIP_TRACE.format(t=t, p=p, S=Sv, c=c, call=_ACCEPTED[0][1], rejected=[bad]))
                    ns[k][...] = v
        for name, call in _ACCEPTED:
            ctx.count(["after-rejected", rnd, call], nontrivial=True, tag=f"after-rejected-calls:{name}")
            again = np.array(eval(call, ns), dtype=float)
            if not np.array_equal(first[call], again, equal_nan=True):
                ctx.fail("oracle", f"utils.{name}:after-rejected-calls", f"after {len(_REJECTED)} calls that ended in an exception `{call}` returns another answer than before "
                         f"(largest difference {_maxdiff(first[call], again)[0]!r})", witness={"call": call, "setup": setup},
                         snippet=SNIP_TRACE.format(t=t, p=p, S=Sv, c=c, call=call, rejected=_REJECTED))
    # two fresh processes: one makes the accepted calls only, the other one makes every rejected call *first* (so that a call that
    # raised is the first one to touch whatever the routine keeps per l_max / per shape) and then the accepted calls
    head = "import warnings; warnings.filterwarnings('ignore')\nimport numpy as np, hashlib\nimport grid.utils as u\nprint(u.__file__)\n" + setup + "\n"
    prints = "\n".join(f"print(hashlib.sha256(np.array({call}, dtype=float).tobytes()).hexdigest())" for _, call in _ACCEPTED)
    raising = f"for bad in {_REJECTED!r}:\n    try:\n        eval(bad)\n    except Exception:\n        pass\n"
    env = dict(__import__("os").environ, PYTHONPATH=":".join(sys.path))
    try:
        procs = [subprocess.Popen([sys.executable, "-c", head + mid + prints], stdout=subprocess.PIPE, stderr=subprocess.PIPE, text=True, env=env) for mid in ("", raising)]
        outs = [pr.communicate(timeout=300)[0].split() for pr in procs]
    except Exception as e:
        outs = [[], []]
        ctx.info(f"fresh-process comparison not run: {type(e).__name__}: {e}")
    real = __import__("os").path.realpath
    if all(len(o) == len(_ACCEPTED) + 1 and real(o[0]) == real(ut.__file__) for o in outs):
        here = [hashlib.sha256(np.array(eval(call, ns), dtype=float).tobytes()).hexdigest() for _, call in _ACCEPTED]
        for k, (name, call) in enumerate(_ACCEPTED):
            ctx.count(["fresh-process", call], nontrivial=True, tag="after-rejected-calls:fresh-process")
            if outs[1][k + 1] != outs[0][k + 1]:
                ctx.fail("oracle", f"utils.{name}:after-rejected-calls", f"in a fresh process `{call}` returns another answer when the {len(_REJECTED)} calls that end in an "
                         f"exception were made first than when they were not", witness={"call": call, "setup": setup},
                         snippet=SNIP_TRACE_FRESH.format(t=t, p=p, S=Sv, c=c, call=call, rejected=_REJECTED))
            elif here[k] != outs[0][k + 1]:
                ctx.fail("oracle", f"utils.{name}:after-rejected-calls", f"`{call}` in this process (after calls that ended in an exception) differs bit-wise from the same call in a fresh process",
                         witness={"call": call, "setup": setup}, snippet=SNIP_TRACE.format(t=t, p=p, S=Sv, c=c, call=call, rejected=_REJECTED))
    else:
        ctx.info(f"fresh-process comparison not evaluated: the subprocesses answered {[len(o) for o in outs]} lines ({[o[:1] for o in outs]})")


def _extreme_pipeline(ctx: Ctx, ut, kind, mp=None):
    """Class 19: where the consumed layer is extreme.  convert_cart_to_sph -> solid_harmonics at radii 1e-150 .. 1e150 about a
    centre of the same magnitude, with l_max such that r^l stays inside [1e-300, 1e300] (the envelope of a float64 result; measured
    on the pinned tree: accurate to 1e-13 relative to r^l there)."""
    rg = ctx.rng
    for s, L in ((1e-150, 1), (1e-100, 2), (1e-30, 9), (1e-12, 12), (1e12, 12), (1e30, 9), (1e100, 2), (1e150, 1), (10 ** rg.uniform(-20, 20), 6)):
        c0 = [rg.uniform(-2, 2) for _ in range(3)]
        ds = [[rg.uniform(-2, 2) for _ in range(3)], [0.0, 0.0, rg.uniform(0.5, 2)], [rg.uniform(0.5, 2), 0.0, 0.0], [0.0, 0.0, 0.0]]
        c = [x * s for x in c0]
        pts = [[(a + b) * s for a, b in zip(c0, d)] if any(d) else list(c) for d in ds]
        sph = np.asarray(ut.convert_cart_to_sph(np.array(pts), np.array(c)), dtype=float)
        S = np.asarray(ut.solid_harmonics(L, sph), dtype=float)
        lms = py_lm_order(L)
        if kind == "corr":
            a1 = driver_batch(["C08.cartToSph " + " ".join(f2b(x) for x in list(q) + list(c)) for q in pts])
            a2 = driver_batch([f"C08.solid {L} {f2b(r)} {f2b(t)} {f2b(ph)}" for r, t, ph in sph])
        for j, q in enumerate(pts):
            r, t, ph = (float(v) for v in sph[j])
            ctx.count([kind, "extreme", s, L, q], nontrivial=True, tag="extreme-pipeline")
            with np.errstate(over="ignore", under="ignore"):
                scale = np.array([max(r ** l, 5e-324) for l, _ in lms])
            if kind == "corr":
                T = Tokens(a1[j][3:]) if a1[j].startswith("ok ") else None
                m1 = [T.flt(), T.flt(), T.flt()] if T else None
                if m1 is None or not all(close(x, y, rtol=1e-13, atol=1e-15, scale=max(1.0, abs(y))) for x, y in zip(m1[1:], (t, ph))) or not close(m1[0], r, rtol=1e-13):
                    ctx.fail("corr", "extreme:cartToSph", f"convert_cart_to_sph({q}, center={c}) = {[r, t, ph]}, model {m1}",
                             witness={"routine": "c2s", "point": q, "center": c, "impl": [r, t, ph], "model": m1})
                rows = _rows(a2[j])
                err = np.abs(S[:, j] - rows) / scale if rows is not None and len(rows) == len(lms) else np.array([np.inf])
                err[np.isnan(err)] = np.inf
                if not np.max(err) <= 1e-12 * (L + 1):
                    i = int(np.argmax(err))
                    ctx.fail("corr", "extreme:solid", f"solid_harmonics({L}, convert_cart_to_sph({q}, {c})) row {i}: implementation {float(S[i, j])!r}, model "
                             f"{float(rows[i]) if rows is not None and i < len(rows) else None!r} (r^l = {float(scale[i]) if i < len(scale) else None!r})",
                             witness={"routine": "solid", "l_max": L, "r": r, "theta": t, "phi": ph, "row": i, "point": q, "center": c})
                continue
            with mp.workdps(60):
                d3 = [mp.mpf(a) - mp.mpf(b) for a, b in zip(q, c)]
                r0 = mp.sqrt(sum(x * x for x in d3))
                if not abs(mp.mpf(r) - r0) <= 1e-13 * r0:
                    ctx.fail("oracle", "utils.convert_cart_to_sph:extreme", f"convert_cart_to_sph({q}, center={c}): r = {r!r}, true distance {float(r0)!r}",
                             witness={"point": q, "center": c, "sph": [r, t, ph]},
                             snippet=SNIP_C2S.format(pre=f"P = np.array([{q!r}])\nc = np.array({c!r})", call="fn(P, c)", j=0, q=q, c=c, tol=1e-12, atol=0.0, slack=0.0, rtol=1e-13))
                    continue
                for i, (l, m) in enumerate(lms):
                    want = float(_mp_solid_cart(mp, l, m, d3))
                    tol = 1e-11 * (L + 1) * max(float(r0 ** l), 5e-324)
                    if not abs(float(S[i, j]) - want) <= tol:
                        ctx.fail("oracle", "utils.solid_harmonics:extreme", f"solid harmonic (l={l}, m={m}) of the point {q} about the centre {c} (scale {s:g}): "
                                 f"solid_harmonics(convert_cart_to_sph(...)) = {float(S[i, j])!r}, definition on the Cartesian vector (60 digits) {want!r}",
                                 witness={"point": q, "center": c, "l": l, "m": m, "got": float(S[i, j]), "want": want},
                                 snippet=SNIP_PIPE.format(q=q, c=c, L=L, l=l, m=m, row=i, tol=tol))
                        break



# --------------------------------------------------------------------------------------
# round 5: sizes past block boundaries and orders the code might assume (classes 21, 22); the scalar arguments of the derivative
# conversion in extended / reduced precision and as 0-d arrays changed in place (classes 23, 25)
# --------------------------------------------------------------------------------------
SNIP_BLOCK = """import warnings; warnings.filterwarnings('ignore')
import numpy as np
import grid.utils as u
N, L, off = {N}, {L}, {off!r}
k = np.arange(N)
t = ((k * 0.6180339887498949 + off) % 1.0) * 14.0 - 7.0      # azimuth in [-7, 7), every point different
p = ((k * 0.7548776662466927 + off) % 1.0) * 12.0 - 4.0      # polar angle in [-4, 8)
r = ((k * 0.5698402909980532 + off) % 1.0) * 2.0 + 0.25
X = np.stack([t, p, r * 3 - 3], axis=1); c = np.array([0.5, -1.25, 2.0])
f = {{'recursion': lambda i: u.generate_real_spherical_harmonics(L, t[i], p[i]), 'scipy': lambda i: u.generate_real_spherical_harmonics_scipy(L, t[i], p[i]),
     'deriv': lambda i: u.generate_derivative_real_spherical_harmonics(L, t[i], p[i]), 'solid': lambda i: u.solid_harmonics(L, np.stack([r[i], t[i], p[i]], axis=1)),
     'c2s': lambda i: u.convert_cart_to_sph(X[i], c).T}}[{fn!r}]
full = np.asarray(f(k), dtype=float)
idx = {idx}          # {what}
other = np.concatenate([np.asarray(f(i), dtype=float) for i in idx], axis=-1) if isinstance(idx, list) else np.asarray(f(idx), dtype=float)
want = full[..., np.concatenate(idx) if isinstance(idx, list) else idx]
assert other.shape == want.shape and np.allclose(other, want, rtol=0, atol={tol!r}, equal_nan=True), f'{what}: largest difference {{float(np.nanmax(np.abs(other - want)))!r}} at {{np.unravel_index(int(np.nanargmax(np.abs(other - want))), want.shape)}}'
"""


def _block_sizes_and_order(ctx: Ctx, ut, kind, mp=None):
    """Classes 21 / 22: numbers of points just above powers of two / round decimal numbers (1025, 4097; thorough: 65537, 2^19 + 1), every
    point different.  The routines act point by point, so the answer on the whole array must be the concatenation of the answers
    on a split of it, its permutation under a shuffle / a descending sort / a reversal of the points, and - at the first, last and
    block-boundary points - the per-point model (corr) / the definition (oracle)."""
    rg = ctx.rng
    sizes = [(1025, 3), (4097, 2)] + ([(65537, 2), (2 ** 19 + 1, 1)] if ctx.thorough else [])
    for N, L in sizes:
        off = round(rg.random(), 6)
        k = np.arange(N)
        t = ((k * 0.6180339887498949 + off) % 1.0) * 14.0 - 7.0
        p = ((k * 0.7548776662466927 + off) % 1.0) * 12.0 - 4.0
        r = ((k * 0.5698402909980532 + off) % 1.0) * 2.0 + 0.25
        X = np.stack([t, p, r * 3 - 3], axis=1)
        c = np.array([0.5, -1.25, 2.0])
        fs = {"recursion": lambda i: ut.generate_real_spherical_harmonics(L, t[i], p[i]), "scipy": lambda i: ut.generate_real_spherical_harmonics_scipy(L, t[i], p[i]),
              "deriv": lambda i: ut.generate_derivative_real_spherical_harmonics(L, t[i], p[i]), "solid": lambda i: ut.solid_harmonics(L, np.stack([r[i], t[i], p[i]], axis=1)),
              "c2s": lambda i: ut.convert_cart_to_sph(X[i], c).T}
        cut = rg.randrange(N // 3, 2 * N // 3)
        perm = np.random.default_rng(rg.randrange(2 ** 32)).permutation(N)
        special = sorted({0, 1, 2, 255, 256, 511, 512, 1023, 1024, cut - 1, cut, N - 2, N - 1} | ({4095, 4096} if N > 4096 else set()) | ({65535, 65536} if N > 65536 else set())
                         | {rg.randrange(N) for _ in range(3)})
        special = [i for i in special if i < N]
        if kind == "corr":
            lines = [f"C08.ylmCode {L} {f2b(t[i])} {f2b(p[i])}" for i in special] + [f"C08.dYlm {L} {f2b(t[i])} {f2b(p[i])}" for i in special] \
                + [f"C08.solid {L} {f2b(r[i])} {f2b(t[i])} {f2b(p[i])}" for i in special] + ["C08.cartToSph " + " ".join(f2b(x) for x in list(X[i]) + list(c)) for i in special]
            ans = driver_batch(lines)
            n = len(special)
        else:
            ref = _mp_refs(mp)
        for fn, f in fs.items():
            full = np.asarray(f(k), dtype=float)
            scale = max(1.0, float(np.nanmax(np.abs(full))))
            tol = 1e-12 * (L + 1) * 8 * scale
            ctx.count([kind, "blocks", fn, N], nontrivial=True, tag=f"blocks:{fn}:N={N}")
            key = f"blocks:{fn}" if kind == "corr" else f"utils.{_FN[fn]}:large-N"
            tests = [("split", [k[:cut], k[cut:]], f"[k[:{cut}], k[{cut}:]]", f"the answer on {N} points against the concatenation of the answers on the first {cut} and the remaining {N - cut}"),
                     ("three-way split", [k[:1024], k[1024:N - 1], k[N - 1:]], f"[k[:1024], k[1024:{N - 1}], k[{N - 1}:]]", f"{N} points against 1024 + {N - 1025} + 1 points"),
                     ("reversed", k[::-1], "k[::-1]", f"the answer on the {N} points in reversed order against the reversed answer"),
                     ("descending polar angle", np.argsort(-p, kind="stable"), "np.argsort(-p, kind='stable')", f"the {N} points sorted by descending polar angle"),
                     ("shuffled", perm, f"np.random.default_rng({0}).permutation(N)", f"the {N} points shuffled")]
            for name, idx, src, what in tests:
                if name == "shuffled":   # the snippet must rebuild the same permutation
                    seed = rg.randrange(2 ** 32)
                    idx = np.random.default_rng(seed).permutation(N)
                    src = f"np.random.default_rng({seed}).permutation(N)"
                other = np.concatenate([np.asarray(f(i), dtype=float) for i in idx], axis=-1) if isinstance(idx, list) else np.asarray(f(idx), dtype=float)
                want = full[..., np.concatenate(idx) if isinstance(idx, list) else idx]
                if other.shape != want.shape or not np.allclose(other, want, rtol=0, atol=tol, equal_nan=True):
                    dd = float(np.nanmax(np.abs(other - want))) if other.shape == want.shape else float("inf")
                    where = np.unravel_index(int(np.nanargmax(np.abs(other - want))), want.shape) if other.shape == want.shape else None
                    ctx.fail(kind, key, f"{_FN[fn]}, l_max = {L}, {N} different points ({name}): {what} differs by {dd!r} at {where} (shapes {other.shape} / {want.shape})",
                             witness={"routine": fn, "N": N, "l_max": L, "offset": off, "test": name},
                             snippet=SNIP_BLOCK.format(N=N, L=L, off=off, fn=fn, idx=src, what=what, tol=tol) if kind == "oracle" else None)
            # per-point reference at the first / last / boundary points
            for q, i in enumerate(special):
                if fn == "c2s":
                    got = full[:, i]
                    if kind == "corr":
                        T = Tokens(ans[3 * n + q][3:]) if ans[3 * n + q].startswith("ok ") else None
                        want = np.array([T.flt(), T.flt(), T.flt()]) if T else None
                    else:
                        with mp.workdps(40):
                            d3 = [mp.mpf(float(a)) - mp.mpf(float(b)) for a, b in zip(X[i], c)]
                            r0 = mp.sqrt(sum(x * x for x in d3))
                            want = np.array([float(r0), float(mp.atan2(d3[1], d3[0])), float(mp.acos(d3[2] / r0))])
                    ok = want is not None and np.allclose(got, want, rtol=0, atol=1e-12 * max(1.0, float(got[0])))
                elif fn == "deriv":
                    got = full[:, :, i]
                    if kind == "corr":
                        a = ans[n + q]
                        T = Tokens(a[3:]) if a.startswith("ok ") else None
                        want = np.array([T.fvec(), T.fvec()]) if T else None
                    else:
                        want = ref("dY", L, float(t[i]), float(p[i]), None) if abs(math.sin(p[i])) > 1e-3 else None
                        if want is None:
                            continue
                    ok = want is not None and np.allclose(got, want, rtol=0, atol=(1e-10 if kind == "oracle" else 1e-12) * (L + 1) ** 2 * 8 * max(1.0, float(np.max(np.abs(want)))))
                else:
                    got = full[:, i]
                    if kind == "corr":
                        want = _rows(ans[(2 * n if fn == "solid" else 0) + q])
                    else:
                        want = ref("solid" if fn == "solid" else "Y", L, float(t[i]), float(p[i]), float(r[i]) if fn == "solid" else None)
                    ok = want is not None and len(want) == len(got) and np.allclose(got, want, rtol=0, atol=1e-12 * (L + 1) * 8 * max(1.0, float(r[i]) ** L if fn == "solid" else 1.0))
                if not ok:
                    ctx.fail(kind, key, f"{_FN[fn]}, l_max = {L}, {N} different points: the answer at point {i} (theta={float(t[i])!r}, phi={float(p[i])!r}, r={float(r[i])!r}) is "
                             f"{np.asarray(got).ravel()[:6].tolist()} ..., {'model' if kind == 'corr' else 'definition'} {None if want is None else np.asarray(want).ravel()[:6].tolist()} ...",
                             witness={"routine": fn if fn != "c2s" else "c2s", "N": N, "l_max": L, "theta": float(t[i]), "phi": float(p[i]), "r": float(r[i]), "point": [float(x) for x in X[i]],
                                      "center": c.tolist(), "index": i},
                             snippet=SNIP_BLOCK.format(N=N, L=L, off=off, fn=fn, idx=f"np.array([{i}])", what=f"the answer for point {i} alone against column {i} of the answer on all {N} points", tol=tol)
                             if kind == "oracle" else None)
                    break


SNIP_CONV_DT = """import numpy as np
from grid.utils import convert_derivative_from_spherical_to_cartesian as f
vals = {vals!r}      # deriv_r, deriv_theta, deriv_phi, r, theta, phi: all exact in float16
args = [{mk} for x in vals]
keep = [np.array(a, copy=True) for a in args]
first = np.asarray(f(*args), dtype=float)
again = np.asarray(f(*args), dtype=float)
assert all(np.array_equal(np.asarray(a), k) for a, k in zip(args, keep)), 'the call modified a 0-d argument'
assert np.array_equal(first, again), 'the second call on the same argument objects differs from the first'
want = np.asarray(f(*[float(x) for x in vals]), dtype=float)
assert np.allclose(first, want, rtol=0, atol={tol!r}), f'{{first.tolist()}} with {dt} arguments, {{want.tolist()}} with Python floats'
"""


def _direct_precision_conv_deriv(ctx: Ctx, ut):
    """Classes 23 / 25 for convert_derivative_from_spherical_to_cartesian: all six arguments as np.longdouble / float32 / float16 /
    integer scalars and 0-d arrays (values exact in float16) against the call with Python floats; the 0-d arrays unchanged, a second
    call on the same objects identical, and after `r0[...] = new` the answer for the new contents."""
    rg = ctx.rng
    f = ut.convert_derivative_from_spherical_to_cartesian
    q = lambda lo, hi: round(rg.uniform(lo, hi) * 64) / 64.0
    for dt, tol in (("np.longdouble", 1e-12), ("np.float32", 64 * EPS32), ("np.float16", 64 * EPS16), ("np.int64", 1e-12)):
        for form, mk in (("scalar", f"{dt}(x)"), ("0-d", f"np.array(x, dtype={dt})")):
            for _ in range(3):
                vals = [q(-2, 2), q(-2, 2), q(-2, 2), q(0.5, 3), q(-3, 3), rg.choice([1, -1]) * q(0.5, 2.5)]
                if dt == "np.int64":
                    vals = [float(round(x)) or 1.0 for x in vals]
                args = [eval(mk, {"np": np, "x": x}) for x in vals]
                ctx.count(["conv-direct", dt, form, vals], nontrivial=True, tag=f"convDeriv:direct-dtype:{dt[3:]}:{form}")
                key = f"utils.convert_derivative_from_spherical_to_cartesian:direct-dtype:{dt[3:]}"
                snip = SNIP_CONV_DT.format(vals=vals, mk=mk, tol=tol * 8, dt=dt)
                try:
                    keep = [np.array(a, copy=True) for a in args]
                    first = np.asarray(f(*args), dtype=float)
                    again = np.asarray(f(*args), dtype=float)
                    want = np.asarray(f(*vals), dtype=float)
                except Exception as e:
                    ctx.fail("oracle", key, f"convert_derivative_from_spherical_to_cartesian with six {dt} {form} arguments {vals} raised {type(e).__name__}: {str(e)[:150]}",
                             witness={"vals": vals, "dtype": dt, "form": form}, snippet=snip)
                    continue
                if not all(np.array_equal(np.asarray(a), kk) for a, kk in zip(args, keep)):
                    ctx.fail("oracle", "utils.convert_derivative_from_spherical_to_cartesian:input-modified", f"the call with {dt} {form} arguments {vals} modified an argument",
                             witness={"vals": vals, "dtype": dt, "form": form}, snippet=snip)
                if not np.array_equal(first, again) or not np.allclose(first, want, rtol=0, atol=tol * 8 * max(1.0, float(np.max(np.abs(want))))):
                    ctx.fail("oracle", key, f"convert_derivative_from_spherical_to_cartesian with six {dt} {form} arguments {vals} = {first.tolist()} (second call {again.tolist()}), "
                             f"with Python floats {want.tolist()}", witness={"vals": vals, "dtype": dt, "form": form}, snippet=snip)
                if form == "0-d":   # the same objects with new contents
                    new = [vals[0], vals[1], vals[2], vals[3] * 2, -vals[4], vals[5]]
                    args[3][...] = new[3]
                    args[4][...] = new[4]
                    got = np.asarray(f(*args), dtype=float)
                    want2 = np.asarray(f(*new), dtype=float)
                    if not np.allclose(got, want2, rtol=0, atol=tol * 8 * max(1.0, float(np.max(np.abs(want2))))):
                        ctx.fail("oracle", key + ":in-place-edit", f"after r[...] = {new[3]}, theta[...] = {new[4]} on the 0-d {dt} arguments of the previous call "
                                 f"convert_derivative_from_spherical_to_cartesian returns {got.tolist()}, the answer for the new contents is {want2.tolist()}",
                                 witness={"vals": vals, "new": new, "dtype": dt})


# --------------------------------------------------------------------------------------
# correspondence
# --------------------------------------------------------------------------------------
def corr(ctx: Ctx):
    import importlib
    ut = importlib.import_module("grid.utils")
    angs = angle_set(ctx, ctx.n(20, 60))
    th = np.array([a[0] for a in angs])
    ph = np.array([a[1] for a in angs])

    def _p_row_order():
        # -- row order ------------------------------------------------------------------------
        for L in (0, 1, 2, 3, 7, 20):
            ans = driver_batch([f"C08.lmOrder {L}"])[0]
            want = "ok " + " ".join([str((L + 1) ** 2)] + [f"{l} {m}" for l, m in py_lm_order(L)])
            ctx.count(["lmOrder", L], nontrivial=L >= 2, tag="lmOrder")
            if ans != want:
                ctx.fail("corr", "lmOrder", f"row order for l_max={L}: model {ans[:80]}, Horton-2 order {want[:80]}")
            lines = [f"C08.rowIndex {l} {m}" for l, m in py_lm_order(L)]
            for i, ((l, m), a) in enumerate(zip(py_lm_order(L), driver_batch(lines))):
                if a != f"ok {i}" or row_index(l, m) != i:
                    ctx.fail("corr", "rowIndex", f"rowIndex({l},{m}) = {a}, position in the Horton-2 order {i}")
        ctx.count(["rowIndex", "out-of-range"], nontrivial=False, tag="rowIndex")
        if driver_batch(["C08.rowIndex 2 3"])[0] != "index-error":
            ctx.fail("corr", "rowIndex", "rowIndex(2,3) not rejected by the driver")

    def _p_harmonics():
        # -- harmonics: both implementations vs ylmCode and ylmNorm ---------------------------
        for L in lmax_set(ctx):
            ref = np.asarray(ut.generate_real_spherical_harmonics(L, th, ph), dtype=float)
            ref2 = np.asarray(ut.generate_real_spherical_harmonics_scipy(L, th, ph), dtype=float)
            code = driver_batch([f"C08.ylmCode {L} {f2b(t)} {f2b(p)}" for t, p in zip(th, ph)])
            norm = driver_batch([f"C08.ylmNorm {L} {f2b(t)} {f2b(p)}" for t, p in zip(th, ph)])
            for j, (t, p, tag) in enumerate(angs):
                tol = 1e-13 * (L + 1) * (1.0 + abs(t)) + 1e-14
                for name, model in (("ylmCode", code[j]), ("ylmNorm", norm[j])):
                    rows = _rows(model)
                    for impl_name, impl in (("recursion", ref[:, j]), ("scipy", ref2[:, j])):
                        ctx.count([name, impl_name, L, t, p], nontrivial=L >= 2, tag=f"{name}:{impl_name}:{tag}")
                        if rows is None or len(rows) != (L + 1) ** 2:
                            ctx.fail("corr", f"{name}:shape", f"{name}({L}) answered {model[:60]}")
                            continue
                        d, i = _maxdiff(rows, impl)
                        if d > tol:
                            l, m = py_lm_order(L)[i]
                            fn = "generate_real_spherical_harmonics" + ("_scipy" if impl_name == "scipy" else "")
                            ctx.fail("corr", f"{name}:{impl_name}",
                                     f"{fn}(l_max={L}, theta={t!r}, phi={p!r}) row {i} (l={l}, m={m}): implementation "
                                     f"{impl[i]!r}, model {name} {rows[i]!r}",
                                     witness={"routine": impl_name, "l_max": L, "theta": t, "phi": p, "row": i, "l": l, "m": m,
                                              "impl": float(impl[i]), "model": float(rows[i]), "angle_class": tag})

    def _p_high_degree_recursion():
        # -- high degrees: the recursion is documented to work up to the largest shipped angular degree
        # (325; it runs in extended precision because sqrt((2l)!) overflows a double beyond l = 150).
        # The code-shaped model overflows at Float there, so only the normalised model is compared.
        hi_ls = [151, 160, 230, 325] if ctx.thorough else [151 + ctx.rng.randrange(0, 30), ctx.rng.choice([200, 260, 325])]
        hi_angs = [(0.3, PI / 2, "equator"), (2.1, PI / 2 - 0.2, "near-equator"), (1.0, 1.0, "principal"),
                   (4.0, 2.6, "principal"), (-2.5, -1.2, "any"), (7.0, PI + 0.9, "any"), (0.7, 1e-3, "near-pole")]
        hth = np.array([a[0] for a in hi_angs])
        hph = np.array([a[1] for a in hi_angs])
        for L in hi_ls:
            ref = np.asarray(ut.generate_real_spherical_harmonics(L, hth, hph), dtype=float)
            norm = driver_batch([f"C08.ylmNorm {L} {f2b(t)} {f2b(p)}" for t, p in hi_angs_tp(hi_angs)])
            for j, (t, p, tag) in enumerate(hi_angs):
                rows = _rows(norm[j])
                ctx.count(["ylmNorm", "recursion-high-degree", L, t, p], nontrivial=True, tag=f"ylmNorm:recursion:high-degree:{tag}")
                if rows is None or len(rows) != (L + 1) ** 2:
                    ctx.fail("corr", "ylmNorm:shape", f"ylmNorm({L}) answered {norm[j][:60]}")
                    continue
                d, i = _maxdiff(rows, ref[:, j])
                if not (d <= 2e-11 * (L + 1)):
                    l, m = py_lm_order(L)[i]
                    ctx.fail("corr", "ylmNorm:recursion:high-degree",
                             f"generate_real_spherical_harmonics(l_max={L}, theta={t!r}, phi={p!r}) row {i} (l={l}, m={m}): implementation "
                             f"{ref[i, j]!r}, model ylmNorm {rows[i]!r}",
                             witness={"routine": "recursion", "l_max": L, "theta": t, "phi": p, "row": i, "l": l, "m": m,
                                      "impl": float(ref[i, j]), "model": float(rows[i]), "angle_class": tag})

    def _p_derivative():
        # -- derivative routine -----------------------------------------------------------------
        dangs = angs + [(ctx.rng.uniform(0, 6), x, "cot-threshold") for x in (5e-11, 9.9e-11, 1.01e-10, 2e-10, PI - 5e-11, PI + 2e-10)]
        # exactly at / one ulp around |tan(phi)| = 1e-10, negative polar angles on both sides of it, next to 2 pi
        dangs += [(ctx.rng.uniform(0, 6), x, "cot-threshold") for x in (1e-10, -1e-10, math.nextafter(1e-10, 0.0), math.nextafter(1e-10, 1.0),
                                                                         -5e-11, -9.9e-11, -1.01e-10, -2e-10, 2 * PI + 2e-10, 2 * PI - 5e-11)]
        dth = np.array([a[0] for a in dangs])
        dph = np.array([a[1] for a in dangs])
        dth0, dph0 = dth.copy(), dph.copy()
        th0, ph0 = np.array([a[0] for a in angs]), np.array([a[1] for a in angs])
        for L in ([0, 1, 2, 3, 5, 8] + ([12, 20] if ctx.thorough else [])):
            d = np.asarray(ut.generate_derivative_real_spherical_harmonics(L, dth, dph), dtype=float)
            model = driver_batch([f"C08.dYlm {L} {f2b(t)} {f2b(p)}" for t, p in zip(dth, dph)])
            for j, (t, p, tag) in enumerate(dangs):
                ctx.count(["dYlm", L, t, p], nontrivial=L >= 2, tag=f"dYlm:{tag}")
                if not model[j].startswith("ok "):
                    ctx.fail("corr", "dYlm:shape", f"dYlm({L}) answered {model[j][:60]}")
                    continue
                T = Tokens(model[j][3:])
                m0, m1 = np.array(T.fvec()), np.array(T.fvec())
                for which, mm, impl in (("theta", m0, d[0, :, j]), ("phi", m1, d[1, :, j])):
                    scale = max(1.0, float(np.nanmax(np.abs(impl))) if impl.size else 1.0)
                    dd, i = _maxdiff(mm, impl)
                    if dd > 1e-12 * (L + 1) * (1 + abs(t)) * scale:
                        l, m = py_lm_order(L)[i] if i >= 0 else (-1, 0)
                        ctx.fail("corr", f"dYlm:{which}",
                                 f"generate_derivative_real_spherical_harmonics(l_max={L}, theta={t!r}, phi={p!r})[{which}] "
                                 f"row {i} (l={l}, m={m}): implementation {impl[i] if i >= 0 else None!r}, model {mm[i] if i >= 0 else None!r}",
                                 witness={"routine": "deriv", "l_max": L, "theta": t, "phi": p, "component": which, "row": i, "angle_class": tag})
        # the angle arrays handed to the three routines above (many calls, every degree) are still what they were
        ctx.count(["angles-unchanged"], nontrivial=False, tag="input-unchanged")
        for name, now, was in (("theta", th, th0), ("phi", ph, ph0), ("theta (derivative routine)", dth, dth0), ("phi (derivative routine)", dph, dph0)):
            if not np.array_equal(now, was, equal_nan=True):
                j = int(np.argmax(now != was))
                ctx.fail("corr", "ylm:input-modified", f"the harmonics / derivative routines modified their argument {name} in place: "
                         f"entry {j} was {was[j]!r}, is {now[j]!r}", witness={"argument": name, "index": j})

    def _p_solid():
        # -- solid harmonics -----------------------------------------------------------------------
        for L in ([0, 1, 2, 3, 6, 10] + ([25] if ctx.thorough else [])):
            rs = [0.0, 1.0, ctx.rng.uniform(0, 3), ctx.rng.uniform(0, 0.1), ctx.rng.uniform(1, 10)]
            pts = [(r, *ctx.rng.choice(angs)[:2]) for r in rs for _ in range(3)]
            impl = np.asarray(ut.solid_harmonics(L, np.array(pts)), dtype=float)
            model = driver_batch([f"C08.solid {L} {f2b(r)} {f2b(t)} {f2b(p)}" for r, t, p in pts])
            for j, (r, t, p) in enumerate(pts):
                ctx.count(["solid", L, r, t, p], nontrivial=L >= 2 and r not in (0.0, 1.0), tag="solid:" + ("r=0" if r == 0 else "r>0"))
                rows = _rows(model[j])
                scale = max(1.0, r ** L)
                d, i = _maxdiff(rows, impl[:, j]) if rows is not None else (float("inf"), -1)
                if d > 1e-12 * (L + 1) * (1 + abs(t)) * scale:
                    ctx.fail("corr", "solid", f"solid_harmonics(l_max={L}, (r,theta,phi)=({r!r},{t!r},{p!r})) row {i}: "
                             f"implementation {impl[i, j] if i >= 0 else None!r}, model {rows[i] if rows is not None and i >= 0 else None!r}",
                             witness={"routine": "solid", "l_max": L, "r": r, "theta": t, "phi": p, "row": i})

    def _p_cart_to_sph():
        # -- convert_cart_to_sph ----------------------------------------------------------------------
        cases = []
        for _ in range(ctx.n(60, 1500)):
            kind = ctx.rng.choice(["generic", "generic", "centre-itself", "axis", "plane", "no-centre", "far"])
            c = [ctx.rng.uniform(-3, 3) for _ in range(3)]
            p = [ctx.rng.uniform(-5, 5) for _ in range(3)]
            if kind == "centre-itself":
                p = list(c)
            elif kind == "axis":
                p = [c[0], c[1], c[2] + ctx.rng.choice([-1, 1]) * ctx.rng.uniform(0.1, 4)]
            elif kind == "plane":
                p = [p[0], p[1], c[2]]
            elif kind == "no-centre":
                c = None
            elif kind == "far":
                p = [x * 1e6 for x in p]
            cases.append((p, c, kind))
        lines = []
        for p, c, kind in cases:
            cc = c if c is not None else [0.0, 0.0, 0.0]
            lines.append("C08.cartToSph " + " ".join(f2b(x) for x in p + cc))
        model = driver_batch(lines)
        # the same inputs through the definition generated from the source (answers bad-op with a driver built before it existed)
        gen = driver_batch([ln.replace("C08.cartToSph", "C08.genCartToSph", 1) for ln in lines])
        if any(a == "bad-op" for a in gen):
            ctx.info("driver without the op C08.genCartToSph: the generated convert_cart_to_sph was not compared in this run")
            gen = [None] * len(lines)
        for (p, c, kind), a, ag in zip(cases, model, gen):
            impl = ut.convert_cart_to_sph(np.array([p]), None if c is None else np.array(c))[0]
            ctx.count(["cartToSph", p, c], nontrivial=(c is not None and p != c), tag=f"cartToSph:{kind}")
            for mname, ans in (("model", a), ("generated model", ag)):
                if ans is None:
                    continue
                T = Tokens(ans[3:]) if ans.startswith("ok ") else None
                got = [T.flt(), T.flt(), T.flt()] if T else None
                if got is None or not all(close(x, y, rtol=1e-13, atol=1e-15, scale=max(1.0, abs(float(y)))) for x, y in zip(got, impl)):
                    ctx.fail("corr", "cartToSph" if mname == "model" else "genCartToSph",
                             f"convert_cart_to_sph({p}, center={c}) = {impl.tolist()}, {mname} {got if got is not None else ans[:40]}",
                             witness={"routine": "c2s", "point": p, "center": c, "impl": impl.tolist(), "model": got})
        # rejected shapes (implementation only; the model is typed)
        for bad in (np.zeros(3), np.zeros((2, 2)), np.zeros((2, 3, 1))):
            ctx.count(["cartToSph", "shape", list(bad.shape)], nontrivial=False, tag="cartToSph:malformed")
            try:
                ut.convert_cart_to_sph(bad)
                ctx.fail("corr", "cartToSph:malformed", f"points of shape {bad.shape} not rejected")
            except ValueError:
                pass
        try:
            ut.convert_cart_to_sph(np.zeros((2, 3)), center=[0.0, 1.0])
            ctx.fail("corr", "cartToSph:malformed", "center of length 2 not rejected")
        except ValueError:
            pass
        try:
            ut.generate_real_spherical_harmonics_scipy(-1, np.zeros(1), np.zeros(1))
            ctx.fail("corr", "ylm:malformed", "l_max = -1 not rejected by the SciPy-based routine")
        except ValueError:
            pass

    def _p_conv_deriv():
        # -- convert_derivative_from_spherical_to_cartesian ------------------------------------------------
        cases = []
        for _ in range(ctx.n(60, 1500)):
            kind = ctx.rng.choice(["generic", "generic", "r=0", "r-small", "phi=0", "phi-small", "both", "phi<0"])
            r = ctx.rng.uniform(0.1, 5)
            t = ctx.rng.uniform(-7, 7)
            p = ctx.rng.uniform(0.05, 3.0)
            if kind == "r=0":
                r = 0.0
            elif kind == "r-small":
                r = ctx.rng.choice([5e-11, -5e-11, 2e-10])
            elif kind == "phi=0":
                p = 0.0
            elif kind == "phi-small":
                p = ctx.rng.choice([5e-11, -5e-11, 2e-10])
            elif kind == "both":
                r, p = 0.0, 0.0
            elif kind == "phi<0":
                p = -p
            d = [ctx.rng.uniform(-2, 2) for _ in range(3)]
            cases.append((d, r, t, p, kind))
        # both sides of the two hard-coded thresholds |r| < 1e-10 and |phi| < 1e-10, either sign, and both at once
        e = 1e-10
        for x in (e, math.nextafter(e, 0.0), math.nextafter(e, 1.0)):
            for sg in (1.0, -1.0):
                for kind, (r, p) in (("r-threshold", (sg * x, ctx.rng.uniform(0.05, 3.0))), ("r-threshold", (sg * x, -ctx.rng.uniform(0.05, 3.0))),
                                     ("phi-threshold", (ctx.rng.uniform(0.1, 5), sg * x)), ("phi-threshold", (-ctx.rng.uniform(0.1, 5), sg * x)),
                                     ("both-thresholds", (sg * x, -sg * x)), ("both-thresholds", (sg * x, sg * e)), ("both-thresholds", (sg * e, sg * x))):
                    cases.append(([ctx.rng.uniform(-2, 2) for _ in range(3)], r, ctx.rng.uniform(-7, 7), p, kind))
        # integer-valued arguments (called below as Python ints and np.int64)
        cases += [([1.0, -2.0, 3.0], 2.0, 1.0, 2.0, "int-valued"), ([0.0, 1.0, 0.0], 1.0, 0.0, 1.0, "int-valued"),
                  ([2.0, 1.0, -1.0], 0.0, 3.0, 1.0, "int-valued"), ([2.0, 1.0, -1.0], 3.0, -2.0, 0.0, "int-valued")]
        cases += _jacobian_threshold_cases(ctx)
        model = driver_batch(["C08.convDeriv " + " ".join(f2b(x) for x in d + [r, t, p]) for d, r, t, p, _ in cases])
        genm = driver_batch(["C08.genConvDeriv " + " ".join(f2b(x) for x in d + [r, t, p]) for d, r, t, p, _ in cases])
        names = ("deriv_r", "deriv_theta", "deriv_phi", "r", "theta", "phi")
        fconv = ut.convert_derivative_from_spherical_to_cartesian
        for i, ((d, r, t, p, kind), a) in enumerate(zip(cases, model)):
            args = d + [r, t, p]
            # every route to the routine: positional / keyword (any order), Python float / NumPy scalar / 0-d array / integers
            route = ("python-int", "np.int64")[i % 2] if kind == "int-valued" else ("positional", "keyword", "np.float64", "0-d-array", "keyword-reordered")[i % 5]
            if route == "positional":
                impl = fconv(*args)
            elif route == "keyword":
                impl = fconv(**dict(zip(names, args)))
            elif route == "keyword-reordered":
                impl = fconv(**dict(reversed(list(zip(names, args)))))
            elif route == "np.float64":
                impl = fconv(*[np.float64(x) for x in args])
            elif route == "0-d-array":
                impl = fconv(*[np.array(x) for x in args])
            elif route == "python-int":
                impl = fconv(*[int(x) for x in args])
            else:
                impl = fconv(*[np.int64(x) for x in args])
            impl = np.asarray(impl, dtype=float)
            ctx.count(["convDeriv", d, r, t, p, route], nontrivial=True, tag=f"convDeriv:{kind}")
            ctx.tagc(f"convDeriv:route:{route}")
            got = _rows(a)
            scale = max(1.0, float(np.max(np.abs(impl)))) if np.all(np.isfinite(impl)) else 1.0
            if got is None or len(got) != 3 or not all(close(x, y, rtol=1e-12, scale=scale) for x, y in zip(got, impl)):
                ctx.fail("corr", "convDeriv", f"convert_derivative_from_spherical_to_cartesian({d}, r={r!r}, theta={t!r}, phi={p!r}) = "
                         f"{impl.tolist()}, model {None if got is None else got.tolist()}",
                         witness={"routine": "convDeriv", "deriv": d, "r": r, "theta": t, "phi": p, "class": kind, "route": route})
            gg = _rows(genm[i])
            if gg is None or len(gg) != 3 or not all(close(x, y, rtol=1e-12, scale=scale) for x, y in zip(gg, impl)):
                ctx.fail("corr", "genConvDeriv", f"convert_derivative_from_spherical_to_cartesian({d}, r={r!r}, theta={t!r}, phi={p!r}) = "
                         f"{impl.tolist()}, definition generated from the source {None if gg is None else gg.tolist()} ({genm[i][:30]})",
                         witness={"routine": "convDeriv", "deriv": d, "r": r, "theta": t, "phi": p, "class": kind, "route": route})
            if i % 7 == 0:   # the vector handed out is the caller's: modified in place, then the same call again
                first = np.array(fconv(*args), dtype=float)
                res = fconv(*args)
                try:
                    res[...] = 3.0
                except Exception:
                    pass
                again = np.array(fconv(*args), dtype=float)
                ctx.tagc("convDeriv:result-modified")
                if not np.array_equal(first, again, equal_nan=True):
                    ctx.fail("corr", "convDeriv:result-modified", f"convert_derivative_from_spherical_to_cartesian({d}, r={r!r}, theta={t!r}, phi={p!r}) returns "
                             f"{again.tolist()} after the caller modified the previous result in place, {first.tolist()} before",
                             witness={"routine": "convDeriv", "deriv": d, "r": r, "theta": t, "phi": p, "class": kind, "route": route})

    def _p_variants():
        # container / dtype kinds, call routes, kinds of l_max, call histories, object identity, shapes: every answer vs the model
        variants = _variants(ctx)
        _run_variants(ctx, ut, "corr", variants, _model_refs(variants), "model")

    _run_parts(ctx, "corr", ut, [
        ("row-order", _p_row_order), ("harmonics", _p_harmonics), ("high-degree-recursion", _p_high_degree_recursion),
        ("derivative", _p_derivative), ("solid", _p_solid), ("cart-to-sph", _p_cart_to_sph), ("conv-deriv", _p_conv_deriv),
        ("variants", _p_variants),
        # derivative routine and solid harmonics beyond l_max = 150 (long double region of the recursion)
        ("high-degree", lambda: _corr_high_degree(ctx, ut)),
        # convert_cart_to_sph: kinds of points / centre, call routes, radii from 1e-200 to 1e200, histories, identity
        ("c2s-variants", lambda: _run_c2s(ctx, ut, "corr")),
        # round 3: the definitions generated from the source at Float; special points of a non-trivial frame through the
        # whole pipeline; exact translations to far centres; rows relative to r^l; zero points; the routines after one another
        ("generated", lambda: _corr_generated(ctx, ut, angs)),
        ("special-points", lambda: _special_point_pipeline(ctx, ut, "corr")),
        ("far-centres", lambda: _far_centres(ctx, ut, "corr")),
        ("scaled-solid", lambda: _scaled_solid(ctx, ut, "corr")),
        ("empty-inputs", lambda: _empty_inputs(ctx, ut, "corr")),
        ("cross-routine", lambda: _cross_routine_history(ctx, ut, "corr")),
        # round 4: extreme radii through the pipeline
        ("extreme-pipeline", lambda: _extreme_pipeline(ctx, ut, "corr")),
        # round 5: numbers of points past block boundaries, orders the code might assume
        ("block-sizes", lambda: _block_sizes_and_order(ctx, ut, "corr")),
    ])



# --------------------------------------------------------------------------------------
# oracle: the property on the implementation against mpmath (50 digits)
# --------------------------------------------------------------------------------------
_COEF = {}


def _legendre_coeffs(l, m):
    """Exact coefficients of d^m/dx^m P_l(x) = 2^-l sum_k (-1)^k C(l,k) C(2l-2k,l) (l-2k)!/(l-2k-m)! x^(l-2k-m)."""
    key = (l, m)
    if key not in _COEF:
        cs = []
        for k in range(0, (l - m) // 2 + 1):
            e = l - 2 * k - m
            c = Fraction((-1) ** k * math.comb(l, k) * math.comb(2 * l - 2 * k, l) * math.factorial(l - 2 * k), math.factorial(e) * 2 ** l)
            cs.append((e, c))
        _COEF[key] = cs
    return _COEF[key]


def mp_ylm(mp, l, m, theta, phi):
    """The documented definition at the point of the sphere addressed by (theta, phi):
    sqrt((2l+1)/(4 pi) (l-|m|)!/(l+|m|)!) * [sqrt2 cos(m az) | 1 | sqrt2 sin(|m| az)] * P_l^|m|(cos pol), no Condon-Shortley phase,
    (az, pol) the principal angles of (cos theta sin phi, sin theta sin phi, cos phi)."""
    t, p = mp.mpf(theta), mp.mpf(phi)
    x, y, z = mp.cos(t) * mp.sin(p), mp.sin(t) * mp.sin(p), mp.cos(p)
    rho = mp.sqrt(x * x + y * y)
    az = mp.atan2(y, x) if rho != 0 else mp.mpf(0)
    a = abs(m)
    s = mp.mpf(0)
    for e, c in _legendre_coeffs(l, a):
        s += mp.mpf(c.numerator) / mp.mpf(c.denominator) * z ** e
    plm = rho ** a * s
    nrm = mp.sqrt(mp.mpf(2 * l + 1) / (4 * mp.pi) * mp.factorial(l - a) / mp.factorial(l + a))
    if m == 0:
        return nrm * plm
    if m > 0:
        return nrm * mp.sqrt(2) * plm * mp.cos(a * az)
    return nrm * mp.sqrt(2) * plm * mp.sin(a * az)


SNIP_DEF = """import warnings; warnings.filterwarnings('ignore')
import numpy as np, mpmath as mp, math
from fractions import Fraction
from grid.utils import generate_real_spherical_harmonics, generate_real_spherical_harmonics_scipy
mp.mp.dps = 50
fn = {fn}
L, theta, phi, l, m = {L}, {theta!r}, {phi!r}, {l}, {m}
t, p = mp.mpf(theta), mp.mpf(phi)
x, y, z = mp.cos(t)*mp.sin(p), mp.sin(t)*mp.sin(p), mp.cos(p)
rho = mp.sqrt(x*x + y*y); az = mp.atan2(y, x) if rho != 0 else mp.mpf(0); a = abs(m)
s = sum(mp.mpf((-1)**k * math.comb(l, k) * math.comb(2*l-2*k, l) * math.factorial(l-2*k)) / (math.factorial(l-2*k-a) * 2**l) * z**(l-2*k-a)
        for k in range((l-a)//2 + 1))
want = mp.sqrt(mp.mpf(2*l+1)/(4*mp.pi) * mp.factorial(l-a)/mp.factorial(l+a)) * rho**a * s
want *= 1 if m == 0 else mp.sqrt(2) * (mp.cos(a*az) if m > 0 else mp.sin(a*az))
row = l*l + (2*m - 1 if m > 0 else 2*abs(m))
got = fn(L, np.array([theta]), np.array([phi]))[row, 0]
assert abs(float(got) - float(want)) <= {tol!r}, f'Y_{{l}},{{m}}(theta={{theta}}, phi={{phi}}): routine {{float(got)!r}}, definition {{float(want)!r}}'
"""

SNIP_ADD = """import warnings; warnings.filterwarnings('ignore')
import numpy as np, mpmath as mp
from grid.utils import generate_real_spherical_harmonics, generate_real_spherical_harmonics_scipy
mp.mp.dps = 50
fn = {fn}
L, l, a, b = {L}, {l}, {a!r}, {b!r}
Y = np.asarray(fn(L, np.array([a[0], b[0]]), np.array([a[1], b[1]])), dtype=float)
u = [mp.cos(mp.mpf(q[0]))*mp.sin(mp.mpf(q[1])) for q in (a, b)], [mp.sin(mp.mpf(q[0]))*mp.sin(mp.mpf(q[1])) for q in (a, b)], [mp.cos(mp.mpf(q[1])) for q in (a, b)]
cosg = u[0][0]*u[0][1] + u[1][0]*u[1][1] + u[2][0]*u[2][1]
want = float((2*l+1)/(4*mp.pi) * mp.legendre(l, cosg))
got = float(np.dot(Y[l*l:(l+1)**2, 0], Y[l*l:(l+1)**2, 1]))
assert abs(got - want) <= {tol!r}, f'addition theorem l={{l}}: sum_m Y_lm(a) Y_lm(b) = {{got!r}}, (2l+1)/(4 pi) P_l(cos gamma) = {{want!r}}'
"""

SNIP_DER = """import warnings; warnings.filterwarnings('ignore')
import numpy as np
from grid.utils import generate_real_spherical_harmonics, generate_derivative_real_spherical_harmonics
L, theta, phi, row, comp = {L}, {theta!r}, {phi!r}, {row}, {comp}
h = 1e-5
ang = [np.array([theta]), np.array([phi])]
def Y(dt, dp):
    return np.asarray(generate_real_spherical_harmonics(L, ang[0] + dt, ang[1] + dp), dtype=np.longdouble)[row, 0]
d = [(1, 0), (0, 1)][comp]
fd = (8*(Y(d[0]*h, d[1]*h) - Y(-d[0]*h, -d[1]*h)) - (Y(2*d[0]*h, 2*d[1]*h) - Y(-2*d[0]*h, -2*d[1]*h))) / (12*h)
got = generate_derivative_real_spherical_harmonics(L, ang[0], ang[1])[comp, row, 0]
assert abs(float(got) - float(fd)) <= 1e-7 * max(1.0, abs(float(fd))), f'd/d{{["theta","phi"][comp]}} of row {{row}} at theta={{theta}}, phi={{phi}}: routine {{float(got)!r}}, finite difference of the routine\\'s own harmonics {{float(fd)!r}}'
"""


def oracle(ctx: Ctx, budget: str):
    import importlib
    import mpmath as mp
    ut = importlib.import_module("grid.utils")
    mp.mp.dps = 50
    large = budget == "large" or ctx.thorough
    fns = {"recursion": ut.generate_real_spherical_harmonics, "scipy": ut.generate_real_spherical_harmonics_scipy}
    fn_src = {"recursion": "generate_real_spherical_harmonics", "scipy": "generate_real_spherical_harmonics_scipy"}
    angs = angle_set(ctx, 5 if not large else 12)
    th = np.array([a[0] for a in angs])
    ph = np.array([a[1] for a in angs])

    def _p_definition():
        # (a) definition, order, normalisation: every row against the 50-digit definition
        Ldef = 16 if not large else 40
        sel = list(range(len(angs))) if large else list(range(0, len(angs), 2))
        vals = {k: np.asarray(f(Ldef, th, ph), dtype=float) for k, f in fns.items()}
        for j in sel:
            t, p, tag = angs[j]
            tol = 1e-13 * (Ldef + 1) * (1 + abs(t)) * 4
            lms = py_lm_order(Ldef)
            if not large:  # all rows up to l=6, then a seeded sample
                lms = [x for x in lms if x[0] <= 6] + ctx.rng.sample([x for x in lms if x[0] > 6], 25)
            for l, m in lms:
                want = float(mp_ylm(mp, l, m, t, p))
                for k in fns:
                    got = float(vals[k][row_index(l, m), j])
                    if not abs(got - want) <= tol:
                        ctx.fail("oracle", f"utils.{fn_src[k]}:definition:{'principal' if 0 <= p <= PI else 'outside-principal-range'}",
                                 f"{fn_src[k]}(l_max={Ldef}, theta={t!r}, phi={p!r}) row (l={l}, m={m}) = {got!r}, definition (50 digits) {want!r}",
                                 witness={"l_max": Ldef, "theta": t, "phi": p, "l": l, "m": m, "got": got, "want": want, "angle_class": tag},
                                 snippet=SNIP_DEF.format(fn=fn_src[k], L=Ldef, theta=t, phi=p, l=l, m=m, tol=tol))

    def _p_agreement():
        # (b) agreement of the two implementations, all rows, higher degree
        for L in ([5, 20, 151 + ctx.rng.randrange(0, 60)] + ([60, 325] if large else [])):
            A = np.asarray(fns["recursion"](L, th, ph), dtype=float)
            B = np.asarray(fns["scipy"](L, th, ph), dtype=float)
            for j, (t, p, tag) in enumerate(angs):
                d, i = _maxdiff(A[:, j], B[:, j])
                if d > 1e-13 * (L + 1) * (1 + abs(t)) * 4:
                    l, m = py_lm_order(L)[i]
                    ctx.fail("oracle", f"utils.generate_real_spherical_harmonics_scipy:agreement:{'principal' if 0 <= p <= PI else 'outside-principal-range'}",
                             f"the two implementations differ at l_max={L}, theta={t!r}, phi={p!r}, row (l={l}, m={m}): recursion {float(A[i, j])!r}, scipy {float(B[i, j])!r}",
                             witness={"l_max": L, "theta": t, "phi": p, "l": l, "m": m, "angle_class": tag},
                             snippet=("import warnings; warnings.filterwarnings('ignore')\nimport numpy as np\n"
                                      "from grid.utils import generate_real_spherical_harmonics as f, generate_real_spherical_harmonics_scipy as g\n"
                                      f"t, p = np.array([{t!r}]), np.array([{p!r}])\n"
                                      f"a, b = np.asarray(f({L}, t, p), dtype=float)[{i}, 0], g({L}, t, p)[{i}, 0]\n"
                                      f"assert abs(a - b) <= 1e-10, f'row {i} (l={l}, m={m}): recursion {{a!r}}, scipy {{b!r}}'\n"))

    def _p_addition_theorem():
        # (c) addition theorem with mpmath.legendre
        Ladd = 30 if not large else 60
        npairs = 10 if not large else 30
        for _ in range(npairs):
            a = ctx.rng.choice(angs)
            b = ctx.rng.choice(angs)
            ua = [mp.cos(mp.mpf(a[0])) * mp.sin(mp.mpf(a[1])), mp.sin(mp.mpf(a[0])) * mp.sin(mp.mpf(a[1])), mp.cos(mp.mpf(a[1]))]
            ub = [mp.cos(mp.mpf(b[0])) * mp.sin(mp.mpf(b[1])), mp.sin(mp.mpf(b[0])) * mp.sin(mp.mpf(b[1])), mp.cos(mp.mpf(b[1]))]
            cosg = ua[0] * ub[0] + ua[1] * ub[1] + ua[2] * ub[2]
            for k, f in fns.items():
                Y = np.asarray(f(Ladd, np.array([a[0], b[0]]), np.array([a[1], b[1]])), dtype=float)
                for l in range(Ladd + 1):
                    want = float((2 * l + 1) / (4 * mp.pi) * mp.legendre(l, cosg))
                    got = float(np.dot(Y[l * l:(l + 1) ** 2, 0], Y[l * l:(l + 1) ** 2, 1]))
                    tol = 1e-13 * (2 * l + 1) * (Ladd + 1) * (1 + max(abs(a[0]), abs(b[0])))
                    if not abs(got - want) <= tol:
                        ctx.fail("oracle", f"utils.{fn_src[k]}:addition-theorem",
                                 f"{fn_src[k]}: sum_m Y_lm(a) Y_lm(b) = {got!r} but (2l+1)/(4 pi) P_l(cos gamma) = {want!r} at l={l}, "
                                 f"a=(theta,phi)={a[:2]}, b={b[:2]}",
                                 witness={"l": l, "a": a[:2], "b": b[:2], "got": got, "want": want},
                                 snippet=SNIP_ADD.format(fn=fn_src[k], L=Ladd, l=l, a=tuple(a[:2]), b=tuple(b[:2]), tol=tol))
                        break

    def _p_derivatives():
        # (d) derivatives: 50-digit numerical derivative of the definition vs the routine, away from the poles;
        #     pole convention; d/dtheta identity
        Ld = 5 if not large else 8
        dsel = [a for a in angs if abs(math.sin(a[1])) > 1e-3]
        # angles outside the principal range (sin(phi) < 0, phi > 2 pi, negative) are always in
        dsel = dsel if large else dsel[::3] + [a for a in dsel if a[2] in ("phi<0", "both<0", "phi in (pi,2pi)", "phi>2pi")]
        dsel += [(ctx.rng.uniform(0, 6), ctx.rng.uniform(-3 * PI + 0.2, -2 * PI - 0.2), "phi in (-3pi,-2pi)"),
                 (ctx.rng.uniform(-6, 0), ctx.rng.uniform(-PI + 0.2, -0.2), "phi in (-pi,0)")]
        # close to, but not on, the polar axis: the documented zero convention applies only where |tan(phi)| < 1e-10 (the code's
        # threshold); from 1.01e-10 on the routine must return the true derivative (m = +-1 rows are O(1) there)
        for _ in range(3 if not large else 12):
            e = 10 ** ctx.rng.uniform(-9.99, -3.0)
            dsel.append((ctx.rng.uniform(0, 6), ctx.rng.choice([e, -e, PI - e, PI + e, 2 * PI + e]), "near-pole"))
        dsel += [(ctx.rng.uniform(0, 6), 1.05e-10, "near-pole"), (ctx.rng.uniform(0, 6), PI - 3e-9, "near-pole")]
        for t, p, tag in dsel:
            d = np.asarray(ut.generate_derivative_real_spherical_harmonics(Ld, np.array([t]), np.array([p])), dtype=float)
            for l, m in py_lm_order(Ld):
                row = row_index(l, m)
                # the definition is evaluated at the point of the sphere, so differentiate along the curves theta+h, phi+h
                wt = float(mp.diff(lambda x: mp_ylm(mp, l, m, mp.mpf(t) + x, p), 0, h=mp.mpf(10) ** -15))
                wp = float(mp.diff(lambda x: mp_ylm(mp, l, m, t, mp.mpf(p) + x), 0, h=mp.mpf(10) ** -15))
                for comp, want in ((0, wt), (1, wp)):
                    got = float(d[comp, row, 0])
                    # the routine forms cos/sin(float(m) * theta) in double precision: the rounding of m * theta is part of the input
                    if not abs(got - want) <= (1e-10 + 1e-15 * (Ld + 1) ** 2 * abs(t)) * max(1.0, abs(want)):
                        cls = "principal" if 0 <= p <= PI else "outside-principal-range"
                        ctx.fail("oracle", f"utils.generate_derivative_real_spherical_harmonics:d{['theta', 'phi'][comp]}:{cls}",
                                 f"generate_derivative_real_spherical_harmonics(l_max={Ld}, theta={t!r}, phi={p!r})[{comp}] row (l={l}, m={m}) = {got!r}, "
                                 f"derivative of the definition (50 digits) {want!r}",
                                 witness={"l_max": Ld, "theta": t, "phi": p, "l": l, "m": m, "component": ["theta", "phi"][comp],
                                          "got": got, "want": want, "angle_class": tag},
                                 snippet=SNIP_DER.format(L=Ld, theta=t, phi=p, row=row, comp=comp))
        # pole convention: at phi = 0 the derivative with respect to phi is returned as 0 (documented); the theta derivative
        # is -m Y_{l,-m} everywhere
        for t, p, tag in [a for a in angs if a[2] in ("north-pole", "zero")] + angs[5:9]:
            d = np.asarray(ut.generate_derivative_real_spherical_harmonics(Ld, np.array([t]), np.array([p])), dtype=float)
            Y = np.asarray(ut.generate_real_spherical_harmonics(Ld, np.array([t]), np.array([p])), dtype=float)
            for l, m in py_lm_order(Ld):
                if p == 0.0 and d[1, row_index(l, m), 0] != 0.0:
                    ctx.fail("oracle", "utils.generate_derivative_real_spherical_harmonics:pole-convention",
                             f"at phi = 0 the phi-derivative of row (l={l}, m={m}) is {d[1, row_index(l, m), 0]!r}, documented convention 0",
                             witness={"theta": t, "phi": p, "l": l, "m": m})
                if not abs(d[0, row_index(l, m), 0] + m * Y[row_index(l, -m), 0]) <= 1e-12 * (l + 1):
                    ctx.fail("oracle", "utils.generate_derivative_real_spherical_harmonics:dtheta-identity",
                             f"d/dtheta Y_({l},{m}) = {d[0, row_index(l, m), 0]!r} but -m Y_({l},{-m}) = {-m * Y[row_index(l, -m), 0]!r} at theta={t!r}, phi={p!r}",
                             witness={"theta": t, "phi": p, "l": l, "m": m})

    def _p_solid():
        # (e) solid harmonics: definition (50 digits) and the Cartesian polynomials of degree <= 2
        Ls = 6 if not large else 15
        for _ in range(4 if not large else 20):
            c = [ctx.rng.uniform(-1, 1) for _ in range(3)]
            q = [ctx.rng.uniform(-2, 2) for _ in range(3)]
            sph = ut.convert_cart_to_sph(np.array([q]), np.array(c))
            R = np.asarray(ut.solid_harmonics(Ls, sph), dtype=float)[:, 0]
            r, t, p = (float(v) for v in sph[0])
            x, y, z = (q[i] - c[i] for i in range(3))
            cart = {(0, 0): 1.0, (1, 0): z, (1, 1): x, (1, -1): y,
                    (2, 0): (3 * z * z - (x * x + y * y + z * z)) / 2, (2, 1): math.sqrt(3) * x * z, (2, -1): math.sqrt(3) * y * z,
                    (2, 2): math.sqrt(3) / 2 * (x * x - y * y), (2, -2): math.sqrt(3) * x * y}
            for (l, m), want in cart.items():
                got = float(R[row_index(l, m)])
                if not abs(got - want) <= 1e-12 * max(1.0, r ** l):
                    ctx.fail("oracle", "utils.solid_harmonics:cartesian", f"solid harmonic (l={l}, m={m}) of the point {q} about {c} is {got!r}, Cartesian form {want!r}",
                             witness={"point": q, "center": c, "l": l, "m": m, "got": got, "want": want})
            for l, m in ctx.rng.sample(py_lm_order(Ls), 12):
                want = float(mp.sqrt(4 * mp.pi / (2 * l + 1)) * mp.mpf(r) ** l * mp_ylm(mp, l, m, t, p))
                got = float(R[row_index(l, m)])
                if not abs(got - want) <= 1e-12 * (Ls + 1) * max(1.0, r ** l):
                    ctx.fail("oracle", "utils.solid_harmonics:definition", f"solid harmonic (l={l}, m={m}) at (r,theta,phi)=({r!r},{t!r},{p!r}) is {got!r}, "
                             f"sqrt(4 pi/(2l+1)) r^l Y_lm = {want!r}", witness={"r": r, "theta": t, "phi": p, "l": l, "m": m})
        R0 = np.asarray(ut.solid_harmonics(3, np.array([[0.0, 0.3, 0.4]])), dtype=float)[:, 0]
        if not (abs(R0[0] - 1.0) <= 1e-15 and np.all(R0[1:] == 0.0)):
            ctx.fail("oracle", "utils.solid_harmonics:r=0", f"solid harmonics at r = 0 are {R0.tolist()}, expected [1, 0, 0, ...]")

    def _p_round_trip():
        # (f) round trip and r = 0
        for _ in range(40 if not large else 1000):
            c = [ctx.rng.uniform(-3, 3) for _ in range(3)] if ctx.rng.random() < 0.8 else None
            q = [ctx.rng.uniform(-5, 5) for _ in range(3)]
            if ctx.rng.random() < 0.15:  # on the polar axis through the centre
                q = [c[0], c[1], q[2]] if c is not None else [0.0, 0.0, q[2]]
            sph = ut.convert_cart_to_sph(np.array([q]), None if c is None else np.array(c))[0]
            r, t, p = (float(v) for v in sph)
            cc = c or [0.0, 0.0, 0.0]
            back = [cc[0] + r * math.cos(t) * math.sin(p), cc[1] + r * math.sin(t) * math.sin(p), cc[2] + r * math.cos(p)]
            if not all(abs(a - b) <= 1e-13 * max(1.0, r) for a, b in zip(back, q)) or not (r >= 0 and -PI <= t <= PI and 0 <= p <= PI):
                ctx.fail("oracle", "utils.convert_cart_to_sph:roundtrip", f"convert_cart_to_sph({q}, center={c}) = {[r, t, p]} maps back to {back}",
                         witness={"point": q, "center": c, "sph": [r, t, p], "back": back},
                         snippet=("import numpy as np, math\nfrom grid.utils import convert_cart_to_sph\n"
                                  f"q, c = {q!r}, {cc!r}\nr, t, p = convert_cart_to_sph(np.array([q]), np.array(c))[0]\n"
                                  "back = [c[0] + r*math.cos(t)*math.sin(p), c[1] + r*math.sin(t)*math.sin(p), c[2] + r*math.cos(p)]\n"
                                  "assert all(abs(a - b) <= 1e-12*max(1, r) for a, b in zip(back, q)), (back, q)\n"))
        for c in ([0.0, 0.0, 0.0], [ctx.rng.uniform(-3, 3) for _ in range(3)]):
            s0 = ut.convert_cart_to_sph(np.array([c]), np.array(c))[0]
            if not (s0[0] == 0.0 and s0[1] == 0.0 and s0[2] == 0.0):
                ctx.fail("oracle", "utils.convert_cart_to_sph:r=0", f"the centre itself maps to {s0.tolist()}, expected (0, 0, 0)", witness={"center": c})

    def _p_conv_deriv():
        # (g) derivative conversion: gradient of a polynomial through its spherical derivatives
        for _ in range(10 if not large else 200):
            co = [ctx.rng.uniform(-1, 1) for _ in range(6)]
            r, t, p = ctx.rng.uniform(0.2, 3), ctx.rng.uniform(-7, 7), ctx.rng.uniform(0.1, 3.0)
            x, y, z = r * math.cos(t) * math.sin(p), r * math.sin(t) * math.sin(p), r * math.cos(p)
            # f = a x + b y + c z + d x y + e y z + g z z
            grad = [co[0] + co[3] * y, co[1] + co[3] * x + co[4] * z, co[2] + co[4] * y + 2 * co[5] * z]
            dxr = [math.cos(t) * math.sin(p), math.sin(t) * math.sin(p), math.cos(p)]
            dxt = [-r * math.sin(t) * math.sin(p), r * math.cos(t) * math.sin(p), 0.0]
            dxp = [r * math.cos(t) * math.cos(p), r * math.sin(t) * math.cos(p), -r * math.sin(p)]
            fr, ft, fp = (sum(g * d for g, d in zip(grad, dd)) for dd in (dxr, dxt, dxp))
            got = np.asarray(ut.convert_derivative_from_spherical_to_cartesian(fr, ft, fp, r, t, p), dtype=float)
            if not all(abs(a - b) <= 1e-11 * max(1.0, max(abs(v) for v in grad)) / min(1.0, abs(math.sin(p))) for a, b in zip(got, grad)):
                ctx.fail("oracle", "utils.convert_derivative_from_spherical_to_cartesian:gradient",
                         f"gradient of a quadratic at (r,theta,phi)=({r!r},{t!r},{p!r}): routine {got.tolist()}, exact {grad}",
                         witness={"coeffs": co, "r": r, "theta": t, "phi": p, "got": got.tolist(), "want": grad})
        g0 = np.asarray(ut.convert_derivative_from_spherical_to_cartesian(1.0, 2.0, 3.0, 0.0, 0.3, 0.4), dtype=float)
        w0 = [math.cos(0.3) * math.sin(0.4), math.sin(0.3) * math.sin(0.4), math.cos(0.4)]
        if not all(abs(a - b) <= 1e-15 for a, b in zip(g0, w0)):
            ctx.fail("oracle", "utils.convert_derivative_from_spherical_to_cartesian:r=0", f"r = 0 convention: {g0.tolist()} vs radial part only {w0}")

    _run_parts(ctx, "oracle", ut, [
        ("definition", _p_definition), ("agreement", _p_agreement), ("addition-theorem", _p_addition_theorem),
        ("derivatives", _p_derivatives), ("solid", _p_solid), ("round-trip", _p_round_trip), ("conv-deriv", _p_conv_deriv),
        # (h) the same routines through every container / dtype kind, call route, kind of l_max, shape, and in call histories
        #     (overlapping arguments in different orders, same array twice, reuse after an in-place edit): the definition
        #     must hold for every answer, independently of what was called before
        ("variants", lambda: _run_variants(ctx, ut, "oracle", _variants(ctx), _mp_refs(mp), "definition (50 digits)")),
        # (i) derivative routine and solid harmonics beyond l_max = 150
        ("high-degree", lambda: _oracle_high_degree(ctx, ut, mp)),
        # (j) convert_cart_to_sph inverts the parametrisation for every kind of points / centre, call route, radius, history
        ("c2s-variants", lambda: _run_c2s(ctx, ut, "oracle", mp)),
        # (k) round 3: the true gradient from the thresholds of the derivative conversion on; special points of a non-trivial frame
        #     through convert_cart_to_sph -> solid_harmonics / derivative routine; exact translations; rows relative to r^l;
        #     the routines after one another with results modified by the caller
        ("gradient-near-thresholds", lambda: _oracle_gradient_near_thresholds(ctx, ut, mp, large)),
        ("outside-near-pole", lambda: _oracle_outside_near_pole(ctx, ut, mp, large)),
        ("special-points", lambda: _special_point_pipeline(ctx, ut, "oracle", mp)),
        ("far-centres", lambda: _far_centres(ctx, ut, "oracle")),
        ("scaled-solid", lambda: _scaled_solid(ctx, ut, "oracle", mp)),
        ("empty-inputs", lambda: _empty_inputs(ctx, ut, "oracle")),
        ("cross-routine", lambda: _cross_routine_history(ctx, ut, "oracle", mp)),
        # (l) round 4: arrays held by grid objects; one argument object (a view into a larger array) for several requests;
        #     value kinds of the derivative data; calls that raise leave no trace; extreme radii through the pipeline
        ("held-by-object", lambda: _object_held_arrays(ctx, ut, mp)),
        ("shared-views", lambda: _shared_argument_views(ctx, ut)),
        ("value-kinds", lambda: _value_kinds_conv_deriv(ctx, ut)),
        ("after-rejected-calls", lambda: _rejected_calls_leave_no_trace(ctx, ut)),
        ("extreme-pipeline", lambda: _extreme_pipeline(ctx, ut, "oracle", mp)),
        # (m) round 5: numbers of points past block boundaries and orders the code might assume; the scalar arguments of the derivative
        #     conversion in extended / reduced precision and as 0-d arrays changed in place
        ("block-sizes", lambda: _block_sizes_and_order(ctx, ut, "oracle", mp)),
        ("conv-deriv-direct-dtype", lambda: _direct_precision_conv_deriv(ctx, ut)),
    ])



def _oracle_point(ctx: Ctx, ut, mp, routine, L, t, p, r=None, lms=None):
    """The property at one point: rows `lms` (default all) of `routine` against the definition (50 digits; 2 l_max + 150
    beyond degree 20). Same keys as in `oracle`."""
    lms = py_lm_order(L) if lms is None else lms
    dps = 50 if L <= 20 else 2 * L + 150
    fn = getattr(ut, _FN[routine])
    call = f"fn({L}, np.array([[{r!r}, {t!r}, {p!r}]]))" if routine == "solid" else f"fn({L}, np.array([{t!r}]), np.array([{p!r}]))"
    try:
        got = np.asarray(eval(call, {"np": np, "fn": fn}), dtype=float)
    except Exception as e:
        ctx.fail("oracle", f"utils.{_FN[routine]}:raises", f"{_FN[routine]}: `{call}` raised {type(e).__name__}: {str(e)[:150]}",
                 witness={"l_max": L, "theta": t, "phi": p, "r": r}, snippet=SNIP_RAISE.format(fname=_FN[routine], pre="", call=call))
        return
    cls = "principal" if 0 <= p <= PI else "outside-principal-range"
    with mp.workdps(dps):
        for l, m in lms:
            row = row_index(l, m)
            if routine in ("recursion", "scipy"):
                comps = [("Y", mp_ylm(mp, l, m, t, p), got[row, 0], f"[{row}, 0]", f"utils.{_FN[routine]}:definition:{cls}", 4e-13 * (L + 1) * (1 + abs(t)))]
            elif routine == "solid":
                comps = [("solid", mp.sqrt(4 * mp.pi / (2 * l + 1)) * mp.mpf(r) ** l * mp_ylm(mp, l, m, t, p), got[row, 0], f"[{row}, 0]",
                          "utils.solid_harmonics:definition", 1e-12 * (L + 1) * max(1.0, abs(r) ** l))]
            else:
                comps = [("dtheta", -m * mp_ylm(mp, l, -m, t, p), got[0, row, 0], f"[0, {row}, 0]", f"utils.{_FN[routine]}:dtheta:{cls}", None)]
                if abs(math.tan(p)) > 1.01e-10:  # at the poles (|tan phi| < 1e-10, the code's threshold) d/dphi is 0 by documented convention
                    comps.append(("dphi", mp.diff(lambda x: mp_ylm(mp, l, m, t, mp.mpf(p) + x), 0, h=mp.mpf(10) ** -(dps * 3 // 10)),
                                  got[1, row, 0], f"[1, {row}, 0]", f"utils.{_FN[routine]}:dphi:{cls}", None))
            for what, want, g, idx, key, tol in comps:
                want, g = float(want), float(g)
                tol = 1e-10 * max(1.0, abs(want)) if tol is None else tol
                ctx.count(["oracle_at", routine, what, L, l, m, t, p, r], nontrivial=True, tag=f"oracle_at:{routine}")
                if not abs(g - want) <= tol:
                    ctx.fail("oracle", key, f"{_FN[routine]}(l_max={L}) at " + (f"r={r!r}, " if r is not None else "") + f"theta={t!r}, phi={p!r}: "
                             f"{what} row (l={l}, m={m}) = {g!r}, definition ({dps} digits) {want!r}",
                             witness={"l_max": L, "r": r, "theta": t, "phi": p, "l": l, "m": m, "component": what, "got": g, "want": want},
                             snippet=SNIP_VAR.format(fname=_FN[routine], dps=dps, pre="", call=call, index=idx, l=l, m=m, r=r, t=t, p=p, j=0,
                                                     want=_WANT[what], tol=tol, what=f"{what} row (l={l}, m={m}) for l_max={L}"))


def oracle_at(ctx: Ctx, failure):
    """A correspondence disagreement -> the property itself evaluated at exactly that input against the independent
    reference (definition with mpmath; round trip; gradient of a polynomial), so that it becomes a failing input."""
    import importlib
    import mpmath as mp
    ut = importlib.import_module("grid.utils")
    w = failure.witness if isinstance(failure.witness, dict) else {}
    key = failure.key
    if key.startswith("variant:"):
        # the variant is source text: replay all of them against the definition (once)
        if not getattr(ctx, "_c08_variants_replayed", False):
            ctx._c08_variants_replayed = True
            mp.mp.dps = 50
            _run_variants(ctx, ut, "oracle", _variants(ctx), _mp_refs(mp), "definition (50 digits)")
            _run_c2s(ctx, ut, "oracle", mp)
            _cross_routine_history(ctx, ut, "oracle", mp)
        return
    routine = w.get("routine")
    num = lambda x: float({"inf": "inf", "-inf": "-inf", "nan": "nan"}.get(x, x)) if isinstance(x, str) else float(x)
    if routine in ("recursion", "scipy", "deriv", "solid") and {"l_max", "theta", "phi"} <= set(w):
        L, t, p = int(w["l_max"]), num(w["theta"]), num(w["phi"])
        r = num(w["r"]) if routine == "solid" else None
        lms = None
        if L > 12:  # only the row of the witness (and its partner -m, the zonal and the sectoral row of that degree)
            l, m = (int(w["l"]), int(w["m"])) if "l" in w else py_lm_order(L)[max(int(w.get("row", 0)), 0)]
            lms = list(dict.fromkeys([(l, m), (l, -m), (l, 0), (l, l), (L, m if abs(m) <= L else 0)]))
        for rt in (("recursion", "scipy") if routine in ("recursion", "scipy") else (routine,)):
            _oracle_point(ctx, ut, mp, rt, L, t, p, r, lms)
    elif routine == "c2s" and "point" in w:
        q = [num(x) for x in w["point"]]
        c = [num(x) for x in (w.get("center") or [0.0, 0.0, 0.0])]
        g = [float(x) for x in ut.convert_cart_to_sph(np.array([q]), np.array(c))[0]]
        with mp.workdps(60):
            d = [mp.mpf(a) - mp.mpf(b) for a, b in zip(q, c)]
            r0 = mp.sqrt(d[0] ** 2 + d[1] ** 2 + d[2] ** 2)
            ok = g[0] >= 0 and -PI <= g[1] <= PI and 0 <= g[2] <= PI and all(abs(x) != float("inf") for x in g)
            if ok:
                rr, tt, pp = (mp.mpf(x) for x in g)
                back = [rr * mp.cos(tt) * mp.sin(pp), rr * mp.sin(tt) * mp.sin(pp), rr * mp.cos(pp)]
                atol = 4e-16 * max(abs(x) for x in q + c)
                ok = abs(rr - r0) <= 1e-14 * r0 + atol and max(abs(a - b) for a, b in zip(back, d)) <= 1e-13 * r0 + atol
        ctx.count(["oracle_at", "c2s", q, c], nontrivial=True, tag="oracle_at:c2s")
        big = max(abs(float(x)) for x in d)
        if not ok and not RANGE_EDGE_IS_FAILURE and (big >= 1.3e154 or 0 < big < 1.5e-154):
            ctx.info(f"convert_cart_to_sph({q}, center={c}) = {g}: outside the float range of the sum of squares (information)")
        elif not ok:
            ctx.fail("oracle", "utils.convert_cart_to_sph:roundtrip", f"convert_cart_to_sph({q}, center={c}) = {g} does not map back to the point "
                     f"(true radius {float(r0)!r})", witness={"point": q, "center": c, "sph": g},
                     snippet=SNIP_C2S.format(pre=f"P = np.array([{q!r}]); c = np.array({c!r})".replace("; ", "\n"), call="fn(P, c)", j=0, q=q, c=c,
                                             tol=1e-13, atol=atol if all(abs(x) != float("inf") for x in g) else 0.0, slack=0.0, rtol=1e-14))
    elif routine == "convDeriv" and {"r", "theta", "phi"} <= set(w):
        r, t, p = num(w["r"]), num(w["theta"]), num(w["phi"])
        if abs(r) < 1e-10 or abs(p) < 1e-10 or abs(math.sin(p)) < 1e-6:
            return  # documented conventions at r = 0 / phi = 0; the chart is singular on the axis
        for grad in ([1.0, 0.0, 0.0], [0.0, 1.0, 0.0], [0.0, 0.0, 1.0], [0.3, -1.1, 0.7]):  # gradient of a linear function
            dxr = [math.cos(t) * math.sin(p), math.sin(t) * math.sin(p), math.cos(p)]
            dxt = [-r * math.sin(t) * math.sin(p), r * math.cos(t) * math.sin(p), 0.0]
            dxp = [r * math.cos(t) * math.cos(p), r * math.sin(t) * math.cos(p), -r * math.sin(p)]
            fr, ft, fp = (sum(a * b for a, b in zip(grad, dd)) for dd in (dxr, dxt, dxp))
            got = np.asarray(ut.convert_derivative_from_spherical_to_cartesian(fr, ft, fp, r, t, p), dtype=float)
            ctx.count(["oracle_at", "convDeriv", grad, r, t, p], nontrivial=True, tag="oracle_at:convDeriv")
            if not all(abs(a - b) <= 1e-11 * max(1.0, 1.0 / abs(math.sin(p))) for a, b in zip(got, grad)):
                ctx.fail("oracle", "utils.convert_derivative_from_spherical_to_cartesian:gradient",
                         f"gradient of the linear function {grad} . x through its spherical derivatives at (r,theta,phi)=({r!r},{t!r},{p!r}): "
                         f"routine {got.tolist()}", witness={"grad": grad, "r": r, "theta": t, "phi": p, "got": got.tolist()},
                         snippet=("import numpy as np, math\nfrom grid.utils import convert_derivative_from_spherical_to_cartesian as f\n"
                                  f"g, r, t, p = {grad!r}, {r!r}, {t!r}, {p!r}\n"
                                  "J = [[math.cos(t)*math.sin(p), math.sin(t)*math.sin(p), math.cos(p)],\n"
                                  "     [-r*math.sin(t)*math.sin(p), r*math.cos(t)*math.sin(p), 0.0],\n"
                                  "     [r*math.cos(t)*math.cos(p), r*math.sin(t)*math.cos(p), -r*math.sin(p)]]\n"
                                  "fr, ft, fp = (sum(a*b for a, b in zip(g, row)) for row in J)\n"
                                  "got = f(fr, ft, fp, r, t, p)\n"
                                  "assert all(abs(a - b) <= 1e-10 / abs(math.sin(p)) for a, b in zip(got, g)), (list(got), g)\n"))
                break

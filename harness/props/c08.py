"""C08 — real spherical harmonics, their derivatives, solid harmonics, coordinate conversion."""
import math
from fractions import Fraction

import numpy as np

from ..common import Ctx, Tokens, close, driver_batch, f2b

LEVEL = "proof"
LEVEL_TEXT = (
    "Lean theorems over the reals about the hand model of utils.generate_real_spherical_harmonics (the recursion "
    "exactly as written: two work columns updated in place, running factorial factor, row counter), unbounded in l_max: "
    "the row map (l,m) -> l^2+2m-1 | l^2+2|m| is a bijection onto [0,(L+1)^2) and is the order of the rows; every row "
    "equals sqrt((2l+1)/4pi) * [1 | sqrt2 cos(m theta) | sqrt2 sin(|m| theta)] * P_l^|m| / F with P the unnormalised "
    "Legendre recursion and F = sqrt((l+m)!/(l-m)!) (loop invariant of the in-place double loop); for l <= 3 the rows equal "
    "the explicit Cartesian closed forms for all angles (normalisation, sign, no Condon-Shortley phase, m <-> cos/sin); "
    "invariance under (theta+pi, -phi), (theta+pi, 2pi-phi), theta+2pi, phi+2pi; d/dtheta Y_lm = -m Y_l,-m as HasDerivAt "
    "and it is what the derivative routine returns; solid harmonics = sqrt(4pi/(2l+1)) r^l Y_lm with the degree-of-row list; "
    "Cartesian -> spherical -> Cartesian round trip for every point and centre, r = 0 -> angles 0, ranges; the "
    "derivative-conversion matrix is the inverse transpose Jacobian of the parametrisation and its documented conventions; "
    "the fully normalised recursion used by the C02 oracle returns the same rows (all l_max); the addition theorem for "
    "l <= 2; the phi-derivative for l <= 1 at every polar angle (sin(phi) of either sign; the sign factor added in d7630ad "
    "is part of the model). NOT proved (Mathlib "
    "has no associated Legendre theory; kept as `def ..._full : Prop`): the addition theorem for every l (i.e. that the "
    "recursion equals the harmonics for every l) and the phi-derivative formula for every l; these clauses are decided "
    "by exploration: 50-digit mpmath evaluation of the definition, the addition theorem with mpmath.legendre, 50-digit "
    "numerical derivatives. Tie to the code: differential run of both library implementations against the model "
    "(l_max <= 20 quick, <= 60 thorough; through C02 on whole point sets up to degree 75)."
)
TECHNIQUE = ("Lean 4 proof (loop invariant of the in-place recursion, closed forms l<=3, symmetry, HasDerivAt, "
             "round trip, Jacobian) + differential correspondence + mpmath (50 digits) exploration of the all-degree clauses")
GEN = []
LEAN_MODULES = ["GridVerif.Props.C08"]
THEOREMS = [
    "GridVerif.C08.row_index_bij",
    "GridVerif.C08.ylm_rows_spec",
    "GridVerif.C08.ylm_normalisation",
    "GridVerif.C08.ylm_low_degree",
    "GridVerif.C08.ylm_reparam",
    "GridVerif.C08.ylm_theta_periodic",
    "GridVerif.C08.ylm_phi_periodic",
    "GridVerif.C08.ylm_reparam_gt_pi",
    "GridVerif.C08.dtheta_spec",
    "GridVerif.C08.solid_spec",
    "GridVerif.C08.sph_roundtrip",
    "GridVerif.C08.sph_center_and_range",
    "GridVerif.C08.jacobian_spec",
    "GridVerif.C08.dphi_partial",
    "GridVerif.C08.dphi_unsigned_formula_fails_at",
    "GridVerif.C08.addition_theorem_partial",
    "GridVerif.C08.ylm_norm_eq_code",
    "GridVerif.C08.weights_sum",
]
RULE = (
    "correspondence: generate_real_spherical_harmonics and generate_real_spherical_harmonics_scipy vs the Lean models "
    "ylmCode and ylmNorm for l_max in {0..8, 10, 13, 20, one seeded value in 9..19} (thorough: also 30, 45, 60) on structured angles (both poles, "
    "equator, negative, > 2pi, sin(phi) < 0, near-pole, random); the derivative routine vs dYlm incl. the cot "
    "threshold; solid_harmonics, convert_cart_to_sph (random points/centres incl. the centre itself), "
    "convert_derivative_from_spherical_to_cartesian incl. its r -> 0, phi -> 0 conventions; row order vs rowIndex/lmOrder. "
    "non-trivial = l_max >= 2 (harmonics, derivatives, solid), point != centre and centre != 0 (conversion), "
    "all Jacobian cases"
)
TRUSTED_BASE = [
    "Lean 4.33 kernel; axioms propext, Classical.choice, Quot.sound only (audited per theorem)",
    "hand model Model/Harmonics.lean (ylmCode, dYlm, solidHarmonics, cartToSph, convJacobian), tied by correspondence",
    "Elem instance at the reals (Lemmas/ElemReal.lean): arctan2 y x = Complex.arg (x + i y), arccos, sqrt, sin, cos, tan",
    "contract for SciPy's complex sph_harm_y inside the derivative routine: (-1)^k (Y_lk + i Y_l,-k)/sqrt2 of the "
    "recursion evaluated with (|sin phi|, cos phi) - the routine multiplies by sign(sin phi)^k (modelled) - "
    "(exercised by the correspondence at angles with sin(phi) of either sign, not proved)",
    "NumPy elementwise semantics (the model is written for one point); long double vs double rounding not modelled",
    "mpmath 50-digit arithmetic and mpmath.legendre for the exploration clauses",
]
ASSUMPTIONS = [
    "theta is the azimuth, phi the polar angle (docstrings); inputs are finite floats (NaN/inf not modelled)",
    "l_max >= 0 (the recursion routine raises IndexError for negative l_max; the SciPy routine ValueError)",
    "associated Legendre facts for all degrees (addition theorem, phi-derivative recurrences) are not available in "
    "Mathlib: explored numerically for l <= 60 (and through C02 up to degree 325), not proved",
]

PI = math.pi


# --------------------------------------------------------------------------------------
# inputs
# --------------------------------------------------------------------------------------
def angle_set(ctx: Ctx, nrand: int):
    """[(theta, phi, tag)] — structured angles; theta azimuth, phi polar."""
    r = ctx.rng
    out = []
    u = lambda a, b: r.uniform(a, b)
    out += [(u(0, 2 * PI), 0.0, "north-pole"), (u(-7, 7), PI, "south-pole"), (0.0, 0.0, "zero"),
            (u(0, 2 * PI), PI / 2, "equator"), (PI / 2, PI / 2, "equator"), (PI, u(0, PI), "theta=pi"),
            (0.0, u(0.1, 3.0), "theta=0"),
            (u(-7, 0), u(0.1, 3.0), "theta<0"), (u(0, 2 * PI), -u(0.1, 3.0), "phi<0"),
            (-u(0, 7), -u(0.1, 3.0), "both<0"), (u(2 * PI, 14), u(0.1, 3.0), "theta>2pi"),
            (u(0, 2 * PI), u(2 * PI + 0.1, 3 * PI - 0.1), "phi>2pi"),
            (u(0, 2 * PI), u(PI + 0.1, 2 * PI - 0.1), "phi in (pi,2pi)"),
            (u(0, 2 * PI), 3 * PI, "phi=3pi"), (u(0, 2 * PI), -PI, "phi=-pi"),
            (u(0, 2 * PI), 1e-11, "near-pole"), (u(0, 2 * PI), 3e-10, "near-pole"), (u(0, 2 * PI), 1e-6, "near-pole"),
            (u(0, 2 * PI), PI - 1e-9, "near-pole"), (u(0, 2 * PI), PI / 2 + 1e-9, "near-equator")]
    for _ in range(nrand):
        out.append((u(0, 2 * PI), u(0.05, PI - 0.05), "principal"))
        out.append((u(-7, 14), u(-4, 8), "any"))
    return out


def hi_angs_tp(hi_angs):
    return [(t, p) for t, p, _ in hi_angs]


def lmax_set(ctx: Ctx):
    ls = [0, 1, 2, 3, 4, 5, 6, 7, 8, 10, 13, 20]
    if ctx.thorough:
        ls += [30, 45, 60]
    else:
        ls += [ctx.rng.randrange(9, 20)]
    return ls


def py_lm_order(L):
    out = []
    for l in range(L + 1):
        out.append((l, 0))
        for x in range(1, l + 1):
            out += [(l, x), (l, -x)]
    return out


def row_index(l, m):
    return l * l + (2 * m - 1 if m > 0 else 2 * abs(m))


def _rows(ans):
    if not ans.startswith("ok "):
        return None
    return np.array(Tokens(ans[3:]).fvec())


def _maxdiff(a, b):
    a = np.asarray(a, dtype=float)
    b = np.asarray(b, dtype=float)
    if a.shape != b.shape:
        return float("inf"), -1
    d = np.abs(a - b)
    d[np.isnan(a) & np.isnan(b)] = 0.0
    d[np.isnan(d)] = float("inf")
    i = int(np.argmax(d)) if d.size else -1
    return (float(d[i]) if d.size else 0.0), i


# --------------------------------------------------------------------------------------
# correspondence
# --------------------------------------------------------------------------------------
def corr(ctx: Ctx):
    import importlib
    ut = importlib.import_module("grid.utils")
    angs = angle_set(ctx, ctx.n(20, 60))
    th = np.array([a[0] for a in angs])
    ph = np.array([a[1] for a in angs])

    # -- row order ------------------------------------------------------------------------
    for L in (0, 1, 2, 3, 7, 20):
        ans = driver_batch([f"C08.lmOrder {L}"])[0]
        want = "ok " + " ".join([str((L + 1) ** 2)] + [f"{l} {m}" for l, m in py_lm_order(L)])
        ctx.count(["lmOrder", L], nontrivial=L >= 2, tag="lmOrder")
        if ans != want:
            ctx.fail("corr", "lmOrder", f"row order for l_max={L}: model {ans[:80]}, Horton-2 order {want[:80]}")
        lines = [f"C08.rowIndex {l} {m}" for l, m in py_lm_order(L)]
        for i, ((l, m), a) in enumerate(zip(py_lm_order(L), driver_batch(lines))):
            if a != f"ok {i}" or row_index(l, m) != i:
                ctx.fail("corr", "rowIndex", f"rowIndex({l},{m}) = {a}, position in the Horton-2 order {i}")
    ctx.count(["rowIndex", "out-of-range"], nontrivial=False, tag="rowIndex")
    if driver_batch(["C08.rowIndex 2 3"])[0] != "index-error":
        ctx.fail("corr", "rowIndex", "rowIndex(2,3) not rejected by the driver")

    # -- harmonics: both implementations vs ylmCode and ylmNorm ---------------------------
    for L in lmax_set(ctx):
        ref = np.asarray(ut.generate_real_spherical_harmonics(L, th, ph), dtype=float)
        ref2 = np.asarray(ut.generate_real_spherical_harmonics_scipy(L, th, ph), dtype=float)
        code = driver_batch([f"C08.ylmCode {L} {f2b(t)} {f2b(p)}" for t, p in zip(th, ph)])
        norm = driver_batch([f"C08.ylmNorm {L} {f2b(t)} {f2b(p)}" for t, p in zip(th, ph)])
        for j, (t, p, tag) in enumerate(angs):
            tol = 1e-13 * (L + 1) * (1.0 + abs(t)) + 1e-14
            for name, model in (("ylmCode", code[j]), ("ylmNorm", norm[j])):
                rows = _rows(model)
                for impl_name, impl in (("recursion", ref[:, j]), ("scipy", ref2[:, j])):
                    ctx.count([name, impl_name, L, t, p], nontrivial=L >= 2, tag=f"{name}:{impl_name}:{tag}")
                    if rows is None or len(rows) != (L + 1) ** 2:
                        ctx.fail("corr", f"{name}:shape", f"{name}({L}) answered {model[:60]}")
                        continue
                    d, i = _maxdiff(rows, impl)
                    if d > tol:
                        l, m = py_lm_order(L)[i]
                        fn = "generate_real_spherical_harmonics" + ("_scipy" if impl_name == "scipy" else "")
                        ctx.fail("corr", f"{name}:{impl_name}",
                                 f"{fn}(l_max={L}, theta={t!r}, phi={p!r}) row {i} (l={l}, m={m}): implementation "
                                 f"{impl[i]!r}, model {name} {rows[i]!r}",
                                 witness={"l_max": L, "theta": t, "phi": p, "row": i, "l": l, "m": m,
                                          "impl": float(impl[i]), "model": float(rows[i]), "angle_class": tag})

    # -- high degrees: the recursion is documented to work up to the largest shipped angular degree
    # (325; it runs in extended precision because sqrt((2l)!) overflows a double beyond l = 150).
    # The code-shaped model overflows at Float there, so only the normalised model is compared.
    hi_ls = [151, 160, 230, 325] if ctx.thorough else [151 + ctx.rng.randrange(0, 30), ctx.rng.choice([200, 260, 325])]
    hi_angs = [(0.3, PI / 2, "equator"), (2.1, PI / 2 - 0.2, "near-equator"), (1.0, 1.0, "principal"),
               (4.0, 2.6, "principal"), (-2.5, -1.2, "any"), (7.0, PI + 0.9, "any"), (0.7, 1e-3, "near-pole")]
    hth = np.array([a[0] for a in hi_angs])
    hph = np.array([a[1] for a in hi_angs])
    for L in hi_ls:
        ref = np.asarray(ut.generate_real_spherical_harmonics(L, hth, hph), dtype=float)
        norm = driver_batch([f"C08.ylmNorm {L} {f2b(t)} {f2b(p)}" for t, p in hi_angs_tp(hi_angs)])
        for j, (t, p, tag) in enumerate(hi_angs):
            rows = _rows(norm[j])
            ctx.count(["ylmNorm", "recursion-high-degree", L, t, p], nontrivial=True, tag=f"ylmNorm:recursion:high-degree:{tag}")
            if rows is None or len(rows) != (L + 1) ** 2:
                ctx.fail("corr", "ylmNorm:shape", f"ylmNorm({L}) answered {norm[j][:60]}")
                continue
            d, i = _maxdiff(rows, ref[:, j])
            if not (d <= 2e-11 * (L + 1)):
                l, m = py_lm_order(L)[i]
                ctx.fail("corr", "ylmNorm:recursion:high-degree",
                         f"generate_real_spherical_harmonics(l_max={L}, theta={t!r}, phi={p!r}) row {i} (l={l}, m={m}): implementation "
                         f"{ref[i, j]!r}, model ylmNorm {rows[i]!r}",
                         witness={"l_max": L, "theta": t, "phi": p, "row": i, "l": l, "m": m,
                                  "impl": float(ref[i, j]), "model": float(rows[i]), "angle_class": tag})

    # -- derivative routine -----------------------------------------------------------------
    dangs = angs + [(ctx.rng.uniform(0, 6), x, "cot-threshold") for x in (5e-11, 9.9e-11, 1.01e-10, 2e-10, PI - 5e-11, PI + 2e-10)]
    dth = np.array([a[0] for a in dangs])
    dph = np.array([a[1] for a in dangs])
    for L in ([0, 1, 2, 3, 5, 8] + ([12, 20] if ctx.thorough else [])):
        d = np.asarray(ut.generate_derivative_real_spherical_harmonics(L, dth, dph), dtype=float)
        model = driver_batch([f"C08.dYlm {L} {f2b(t)} {f2b(p)}" for t, p in zip(dth, dph)])
        for j, (t, p, tag) in enumerate(dangs):
            ctx.count(["dYlm", L, t, p], nontrivial=L >= 2, tag=f"dYlm:{tag}")
            if not model[j].startswith("ok "):
                ctx.fail("corr", "dYlm:shape", f"dYlm({L}) answered {model[j][:60]}")
                continue
            T = Tokens(model[j][3:])
            m0, m1 = np.array(T.fvec()), np.array(T.fvec())
            for which, mm, impl in (("theta", m0, d[0, :, j]), ("phi", m1, d[1, :, j])):
                scale = max(1.0, float(np.nanmax(np.abs(impl))) if impl.size else 1.0)
                dd, i = _maxdiff(mm, impl)
                if dd > 1e-12 * (L + 1) * (1 + abs(t)) * scale:
                    l, m = py_lm_order(L)[i] if i >= 0 else (-1, 0)
                    ctx.fail("corr", f"dYlm:{which}",
                             f"generate_derivative_real_spherical_harmonics(l_max={L}, theta={t!r}, phi={p!r})[{which}] "
                             f"row {i} (l={l}, m={m}): implementation {impl[i] if i >= 0 else None!r}, model {mm[i] if i >= 0 else None!r}",
                             witness={"l_max": L, "theta": t, "phi": p, "component": which, "row": i, "angle_class": tag})

    # -- solid harmonics -----------------------------------------------------------------------
    for L in ([0, 1, 2, 3, 6, 10] + ([25] if ctx.thorough else [])):
        rs = [0.0, 1.0, ctx.rng.uniform(0, 3), ctx.rng.uniform(0, 0.1), ctx.rng.uniform(1, 10)]
        pts = [(r, *ctx.rng.choice(angs)[:2]) for r in rs for _ in range(3)]
        impl = np.asarray(ut.solid_harmonics(L, np.array(pts)), dtype=float)
        model = driver_batch([f"C08.solid {L} {f2b(r)} {f2b(t)} {f2b(p)}" for r, t, p in pts])
        for j, (r, t, p) in enumerate(pts):
            ctx.count(["solid", L, r, t, p], nontrivial=L >= 2 and r not in (0.0, 1.0), tag="solid:" + ("r=0" if r == 0 else "r>0"))
            rows = _rows(model[j])
            scale = max(1.0, r ** L)
            d, i = _maxdiff(rows, impl[:, j]) if rows is not None else (float("inf"), -1)
            if d > 1e-12 * (L + 1) * (1 + abs(t)) * scale:
                ctx.fail("corr", "solid", f"solid_harmonics(l_max={L}, (r,theta,phi)=({r!r},{t!r},{p!r})) row {i}: "
                         f"implementation {impl[i, j] if i >= 0 else None!r}, model {rows[i] if rows is not None and i >= 0 else None!r}",
                         witness={"l_max": L, "r": r, "theta": t, "phi": p, "row": i})

    # -- convert_cart_to_sph ----------------------------------------------------------------------
    cases = []
    for _ in range(ctx.n(60, 1500)):
        kind = ctx.rng.choice(["generic", "generic", "centre-itself", "axis", "plane", "no-centre", "far"])
        c = [ctx.rng.uniform(-3, 3) for _ in range(3)]
        p = [ctx.rng.uniform(-5, 5) for _ in range(3)]
        if kind == "centre-itself":
            p = list(c)
        elif kind == "axis":
            p = [c[0], c[1], c[2] + ctx.rng.choice([-1, 1]) * ctx.rng.uniform(0.1, 4)]
        elif kind == "plane":
            p = [p[0], p[1], c[2]]
        elif kind == "no-centre":
            c = None
        elif kind == "far":
            p = [x * 1e6 for x in p]
        cases.append((p, c, kind))
    lines = []
    for p, c, kind in cases:
        cc = c if c is not None else [0.0, 0.0, 0.0]
        lines.append("C08.cartToSph " + " ".join(f2b(x) for x in p + cc))
    model = driver_batch(lines)
    for (p, c, kind), a in zip(cases, model):
        impl = ut.convert_cart_to_sph(np.array([p]), None if c is None else np.array(c))[0]
        ctx.count(["cartToSph", p, c], nontrivial=(c is not None and p != c), tag=f"cartToSph:{kind}")
        T = Tokens(a[3:]) if a.startswith("ok ") else None
        got = [T.flt(), T.flt(), T.flt()] if T else None
        if got is None or not all(close(x, y, rtol=1e-13, atol=1e-15, scale=max(1.0, abs(float(y)))) for x, y in zip(got, impl)):
            ctx.fail("corr", "cartToSph", f"convert_cart_to_sph({p}, center={c}) = {impl.tolist()}, model {got}",
                     witness={"point": p, "center": c, "impl": impl.tolist(), "model": got})
    # rejected shapes (implementation only; the model is typed)
    for bad in (np.zeros(3), np.zeros((2, 2)), np.zeros((2, 3, 1))):
        ctx.count(["cartToSph", "shape", list(bad.shape)], nontrivial=False, tag="cartToSph:malformed")
        try:
            ut.convert_cart_to_sph(bad)
            ctx.fail("corr", "cartToSph:malformed", f"points of shape {bad.shape} not rejected")
        except ValueError:
            pass
    try:
        ut.convert_cart_to_sph(np.zeros((2, 3)), center=[0.0, 1.0])
        ctx.fail("corr", "cartToSph:malformed", "center of length 2 not rejected")
    except ValueError:
        pass
    try:
        ut.generate_real_spherical_harmonics_scipy(-1, np.zeros(1), np.zeros(1))
        ctx.fail("corr", "ylm:malformed", "l_max = -1 not rejected by the SciPy-based routine")
    except ValueError:
        pass

    # -- convert_derivative_from_spherical_to_cartesian ------------------------------------------------
    cases = []
    for _ in range(ctx.n(60, 1500)):
        kind = ctx.rng.choice(["generic", "generic", "r=0", "r-small", "phi=0", "phi-small", "both", "phi<0"])
        r = ctx.rng.uniform(0.1, 5)
        t = ctx.rng.uniform(-7, 7)
        p = ctx.rng.uniform(0.05, 3.0)
        if kind == "r=0":
            r = 0.0
        elif kind == "r-small":
            r = ctx.rng.choice([5e-11, -5e-11, 2e-10])
        elif kind == "phi=0":
            p = 0.0
        elif kind == "phi-small":
            p = ctx.rng.choice([5e-11, -5e-11, 2e-10])
        elif kind == "both":
            r, p = 0.0, 0.0
        elif kind == "phi<0":
            p = -p
        d = [ctx.rng.uniform(-2, 2) for _ in range(3)]
        cases.append((d, r, t, p, kind))
    model = driver_batch(["C08.convDeriv " + " ".join(f2b(x) for x in d + [r, t, p]) for d, r, t, p, _ in cases])
    for (d, r, t, p, kind), a in zip(cases, model):
        impl = np.asarray(ut.convert_derivative_from_spherical_to_cartesian(*d, r, t, p), dtype=float)
        ctx.count(["convDeriv", d, r, t, p], nontrivial=True, tag=f"convDeriv:{kind}")
        got = _rows(a)
        scale = max(1.0, float(np.max(np.abs(impl)))) if np.all(np.isfinite(impl)) else 1.0
        if got is None or len(got) != 3 or not all(close(x, y, rtol=1e-12, scale=scale) for x, y in zip(got, impl)):
            ctx.fail("corr", "convDeriv", f"convert_derivative_from_spherical_to_cartesian({d}, r={r!r}, theta={t!r}, phi={p!r}) = "
                     f"{impl.tolist()}, model {None if got is None else got.tolist()}",
                     witness={"deriv": d, "r": r, "theta": t, "phi": p, "class": kind})


# --------------------------------------------------------------------------------------
# oracle: the property on the implementation against mpmath (50 digits)
# --------------------------------------------------------------------------------------
_COEF = {}


def _legendre_coeffs(l, m):
    """Exact coefficients of d^m/dx^m P_l(x) = 2^-l sum_k (-1)^k C(l,k) C(2l-2k,l) (l-2k)!/(l-2k-m)! x^(l-2k-m)."""
    key = (l, m)
    if key not in _COEF:
        cs = []
        for k in range(0, (l - m) // 2 + 1):
            e = l - 2 * k - m
            c = Fraction((-1) ** k * math.comb(l, k) * math.comb(2 * l - 2 * k, l) * math.factorial(l - 2 * k), math.factorial(e) * 2 ** l)
            cs.append((e, c))
        _COEF[key] = cs
    return _COEF[key]


def mp_ylm(mp, l, m, theta, phi):
    """The documented definition at the point of the sphere addressed by (theta, phi):
    sqrt((2l+1)/(4 pi) (l-|m|)!/(l+|m|)!) * [sqrt2 cos(m az) | 1 | sqrt2 sin(|m| az)] * P_l^|m|(cos pol), no Condon-Shortley phase,
    (az, pol) the principal angles of (cos theta sin phi, sin theta sin phi, cos phi)."""
    t, p = mp.mpf(theta), mp.mpf(phi)
    x, y, z = mp.cos(t) * mp.sin(p), mp.sin(t) * mp.sin(p), mp.cos(p)
    rho = mp.sqrt(x * x + y * y)
    az = mp.atan2(y, x) if rho != 0 else mp.mpf(0)
    a = abs(m)
    s = mp.mpf(0)
    for e, c in _legendre_coeffs(l, a):
        s += mp.mpf(c.numerator) / mp.mpf(c.denominator) * z ** e
    plm = rho ** a * s
    nrm = mp.sqrt(mp.mpf(2 * l + 1) / (4 * mp.pi) * mp.factorial(l - a) / mp.factorial(l + a))
    if m == 0:
        return nrm * plm
    if m > 0:
        return nrm * mp.sqrt(2) * plm * mp.cos(a * az)
    return nrm * mp.sqrt(2) * plm * mp.sin(a * az)


SNIP_DEF = """import warnings; warnings.filterwarnings('ignore')
import numpy as np, mpmath as mp, math
from fractions import Fraction
from grid.utils import generate_real_spherical_harmonics, generate_real_spherical_harmonics_scipy
mp.mp.dps = 50
fn = {fn}
L, theta, phi, l, m = {L}, {theta!r}, {phi!r}, {l}, {m}
t, p = mp.mpf(theta), mp.mpf(phi)
x, y, z = mp.cos(t)*mp.sin(p), mp.sin(t)*mp.sin(p), mp.cos(p)
rho = mp.sqrt(x*x + y*y); az = mp.atan2(y, x) if rho != 0 else mp.mpf(0); a = abs(m)
s = sum(mp.mpf((-1)**k * math.comb(l, k) * math.comb(2*l-2*k, l) * math.factorial(l-2*k)) / (math.factorial(l-2*k-a) * 2**l) * z**(l-2*k-a)
        for k in range((l-a)//2 + 1))
want = mp.sqrt(mp.mpf(2*l+1)/(4*mp.pi) * mp.factorial(l-a)/mp.factorial(l+a)) * rho**a * s
want *= 1 if m == 0 else mp.sqrt(2) * (mp.cos(a*az) if m > 0 else mp.sin(a*az))
row = l*l + (2*m - 1 if m > 0 else 2*abs(m))
got = fn(L, np.array([theta]), np.array([phi]))[row, 0]
assert abs(float(got) - float(want)) <= {tol!r}, f'Y_{{l}},{{m}}(theta={{theta}}, phi={{phi}}): routine {{float(got)!r}}, definition {{float(want)!r}}'
"""

SNIP_ADD = """import warnings; warnings.filterwarnings('ignore')
import numpy as np, mpmath as mp
from grid.utils import generate_real_spherical_harmonics, generate_real_spherical_harmonics_scipy
mp.mp.dps = 50
fn = {fn}
L, l, a, b = {L}, {l}, {a!r}, {b!r}
Y = np.asarray(fn(L, np.array([a[0], b[0]]), np.array([a[1], b[1]])), dtype=float)
u = [mp.cos(mp.mpf(q[0]))*mp.sin(mp.mpf(q[1])) for q in (a, b)], [mp.sin(mp.mpf(q[0]))*mp.sin(mp.mpf(q[1])) for q in (a, b)], [mp.cos(mp.mpf(q[1])) for q in (a, b)]
cosg = u[0][0]*u[0][1] + u[1][0]*u[1][1] + u[2][0]*u[2][1]
want = float((2*l+1)/(4*mp.pi) * mp.legendre(l, cosg))
got = float(np.dot(Y[l*l:(l+1)**2, 0], Y[l*l:(l+1)**2, 1]))
assert abs(got - want) <= {tol!r}, f'addition theorem l={{l}}: sum_m Y_lm(a) Y_lm(b) = {{got!r}}, (2l+1)/(4 pi) P_l(cos gamma) = {{want!r}}'
"""

SNIP_DER = """import warnings; warnings.filterwarnings('ignore')
import numpy as np
from grid.utils import generate_real_spherical_harmonics, generate_derivative_real_spherical_harmonics
L, theta, phi, row, comp = {L}, {theta!r}, {phi!r}, {row}, {comp}
h = 1e-5
ang = [np.array([theta]), np.array([phi])]
def Y(dt, dp):
    return np.asarray(generate_real_spherical_harmonics(L, ang[0] + dt, ang[1] + dp), dtype=np.longdouble)[row, 0]
d = [(1, 0), (0, 1)][comp]
fd = (8*(Y(d[0]*h, d[1]*h) - Y(-d[0]*h, -d[1]*h)) - (Y(2*d[0]*h, 2*d[1]*h) - Y(-2*d[0]*h, -2*d[1]*h))) / (12*h)
got = generate_derivative_real_spherical_harmonics(L, ang[0], ang[1])[comp, row, 0]
assert abs(float(got) - float(fd)) <= 1e-7 * max(1.0, abs(float(fd))), f'd/d{{["theta","phi"][comp]}} of row {{row}} at theta={{theta}}, phi={{phi}}: routine {{float(got)!r}}, finite difference of the routine\\'s own harmonics {{float(fd)!r}}'
"""


def oracle(ctx: Ctx, budget: str):
    import importlib
    import mpmath as mp
    ut = importlib.import_module("grid.utils")
    mp.mp.dps = 50
    large = budget == "large" or ctx.thorough
    fns = {"recursion": ut.generate_real_spherical_harmonics, "scipy": ut.generate_real_spherical_harmonics_scipy}
    fn_src = {"recursion": "generate_real_spherical_harmonics", "scipy": "generate_real_spherical_harmonics_scipy"}
    angs = angle_set(ctx, 5 if not large else 12)
    th = np.array([a[0] for a in angs])
    ph = np.array([a[1] for a in angs])

    # (a) definition, order, normalisation: every row against the 50-digit definition
    Ldef = 16 if not large else 40
    sel = list(range(len(angs))) if large else list(range(0, len(angs), 2))
    vals = {k: np.asarray(f(Ldef, th, ph), dtype=float) for k, f in fns.items()}
    for j in sel:
        t, p, tag = angs[j]
        tol = 1e-13 * (Ldef + 1) * (1 + abs(t)) * 4
        lms = py_lm_order(Ldef)
        if not large:  # all rows up to l=6, then a seeded sample
            lms = [x for x in lms if x[0] <= 6] + ctx.rng.sample([x for x in lms if x[0] > 6], 25)
        for l, m in lms:
            want = float(mp_ylm(mp, l, m, t, p))
            for k in fns:
                got = float(vals[k][row_index(l, m), j])
                if not abs(got - want) <= tol:
                    ctx.fail("oracle", f"utils.{fn_src[k]}:definition:{'principal' if 0 <= p <= PI else 'outside-principal-range'}",
                             f"{fn_src[k]}(l_max={Ldef}, theta={t!r}, phi={p!r}) row (l={l}, m={m}) = {got!r}, definition (50 digits) {want!r}",
                             witness={"l_max": Ldef, "theta": t, "phi": p, "l": l, "m": m, "got": got, "want": want, "angle_class": tag},
                             snippet=SNIP_DEF.format(fn=fn_src[k], L=Ldef, theta=t, phi=p, l=l, m=m, tol=tol))

    # (b) agreement of the two implementations, all rows, higher degree
    for L in ([5, 20, 151 + ctx.rng.randrange(0, 60)] + ([60, 325] if large else [])):
        A = np.asarray(fns["recursion"](L, th, ph), dtype=float)
        B = np.asarray(fns["scipy"](L, th, ph), dtype=float)
        for j, (t, p, tag) in enumerate(angs):
            d, i = _maxdiff(A[:, j], B[:, j])
            if d > 1e-13 * (L + 1) * (1 + abs(t)) * 4:
                l, m = py_lm_order(L)[i]
                ctx.fail("oracle", f"utils.generate_real_spherical_harmonics_scipy:agreement:{'principal' if 0 <= p <= PI else 'outside-principal-range'}",
                         f"the two implementations differ at l_max={L}, theta={t!r}, phi={p!r}, row (l={l}, m={m}): recursion {float(A[i, j])!r}, scipy {float(B[i, j])!r}",
                         witness={"l_max": L, "theta": t, "phi": p, "l": l, "m": m, "angle_class": tag},
                         snippet=("import warnings; warnings.filterwarnings('ignore')\nimport numpy as np\n"
                                  "from grid.utils import generate_real_spherical_harmonics as f, generate_real_spherical_harmonics_scipy as g\n"
                                  f"t, p = np.array([{t!r}]), np.array([{p!r}])\n"
                                  f"a, b = np.asarray(f({L}, t, p), dtype=float)[{i}, 0], g({L}, t, p)[{i}, 0]\n"
                                  f"assert abs(a - b) <= 1e-10, f'row {i} (l={l}, m={m}): recursion {{a!r}}, scipy {{b!r}}'\n"))

    # (c) addition theorem with mpmath.legendre
    Ladd = 30 if not large else 60
    npairs = 10 if not large else 30
    for _ in range(npairs):
        a = ctx.rng.choice(angs)
        b = ctx.rng.choice(angs)
        ua = [mp.cos(mp.mpf(a[0])) * mp.sin(mp.mpf(a[1])), mp.sin(mp.mpf(a[0])) * mp.sin(mp.mpf(a[1])), mp.cos(mp.mpf(a[1]))]
        ub = [mp.cos(mp.mpf(b[0])) * mp.sin(mp.mpf(b[1])), mp.sin(mp.mpf(b[0])) * mp.sin(mp.mpf(b[1])), mp.cos(mp.mpf(b[1]))]
        cosg = ua[0] * ub[0] + ua[1] * ub[1] + ua[2] * ub[2]
        for k, f in fns.items():
            Y = np.asarray(f(Ladd, np.array([a[0], b[0]]), np.array([a[1], b[1]])), dtype=float)
            for l in range(Ladd + 1):
                want = float((2 * l + 1) / (4 * mp.pi) * mp.legendre(l, cosg))
                got = float(np.dot(Y[l * l:(l + 1) ** 2, 0], Y[l * l:(l + 1) ** 2, 1]))
                tol = 1e-13 * (2 * l + 1) * (Ladd + 1) * (1 + max(abs(a[0]), abs(b[0])))
                if not abs(got - want) <= tol:
                    ctx.fail("oracle", f"utils.{fn_src[k]}:addition-theorem",
                             f"{fn_src[k]}: sum_m Y_lm(a) Y_lm(b) = {got!r} but (2l+1)/(4 pi) P_l(cos gamma) = {want!r} at l={l}, "
                             f"a=(theta,phi)={a[:2]}, b={b[:2]}",
                             witness={"l": l, "a": a[:2], "b": b[:2], "got": got, "want": want},
                             snippet=SNIP_ADD.format(fn=fn_src[k], L=Ladd, l=l, a=tuple(a[:2]), b=tuple(b[:2]), tol=tol))
                    break

    # (d) derivatives: 50-digit numerical derivative of the definition vs the routine, away from the poles;
    #     pole convention; d/dtheta identity
    Ld = 5 if not large else 8
    dsel = [a for a in angs if abs(math.sin(a[1])) > 1e-3]
    # angles outside the principal range (sin(phi) < 0, phi > 2 pi, negative) are always in
    dsel = dsel if large else dsel[::3] + [a for a in dsel if a[2] in ("phi<0", "both<0", "phi in (pi,2pi)", "phi>2pi")]
    dsel += [(ctx.rng.uniform(0, 6), ctx.rng.uniform(-3 * PI + 0.2, -2 * PI - 0.2), "phi in (-3pi,-2pi)"),
             (ctx.rng.uniform(-6, 0), ctx.rng.uniform(-PI + 0.2, -0.2), "phi in (-pi,0)")]
    for t, p, tag in dsel:
        d = np.asarray(ut.generate_derivative_real_spherical_harmonics(Ld, np.array([t]), np.array([p])), dtype=float)
        for l, m in py_lm_order(Ld):
            row = row_index(l, m)
            # the definition is evaluated at the point of the sphere, so differentiate along the curves theta+h, phi+h
            wt = float(mp.diff(lambda x: mp_ylm(mp, l, m, mp.mpf(t) + x, p), 0, h=mp.mpf(10) ** -15))
            wp = float(mp.diff(lambda x: mp_ylm(mp, l, m, t, mp.mpf(p) + x), 0, h=mp.mpf(10) ** -15))
            for comp, want in ((0, wt), (1, wp)):
                got = float(d[comp, row, 0])
                if not abs(got - want) <= 1e-10 * max(1.0, abs(want)):
                    cls = "principal" if 0 <= p <= PI else "outside-principal-range"
                    ctx.fail("oracle", f"utils.generate_derivative_real_spherical_harmonics:d{['theta', 'phi'][comp]}:{cls}",
                             f"generate_derivative_real_spherical_harmonics(l_max={Ld}, theta={t!r}, phi={p!r})[{comp}] row (l={l}, m={m}) = {got!r}, "
                             f"derivative of the definition (50 digits) {want!r}",
                             witness={"l_max": Ld, "theta": t, "phi": p, "l": l, "m": m, "component": ["theta", "phi"][comp],
                                      "got": got, "want": want, "angle_class": tag},
                             snippet=SNIP_DER.format(L=Ld, theta=t, phi=p, row=row, comp=comp))
    # pole convention: at phi = 0 the derivative with respect to phi is returned as 0 (documented); the theta derivative
    # is -m Y_{l,-m} everywhere
    for t, p, tag in [a for a in angs if a[2] in ("north-pole", "zero")] + angs[5:9]:
        d = np.asarray(ut.generate_derivative_real_spherical_harmonics(Ld, np.array([t]), np.array([p])), dtype=float)
        Y = np.asarray(ut.generate_real_spherical_harmonics(Ld, np.array([t]), np.array([p])), dtype=float)
        for l, m in py_lm_order(Ld):
            if p == 0.0 and d[1, row_index(l, m), 0] != 0.0:
                ctx.fail("oracle", "utils.generate_derivative_real_spherical_harmonics:pole-convention",
                         f"at phi = 0 the phi-derivative of row (l={l}, m={m}) is {d[1, row_index(l, m), 0]!r}, documented convention 0",
                         witness={"theta": t, "phi": p, "l": l, "m": m})
            if not abs(d[0, row_index(l, m), 0] + m * Y[row_index(l, -m), 0]) <= 1e-12 * (l + 1):
                ctx.fail("oracle", "utils.generate_derivative_real_spherical_harmonics:dtheta-identity",
                         f"d/dtheta Y_({l},{m}) = {d[0, row_index(l, m), 0]!r} but -m Y_({l},{-m}) = {-m * Y[row_index(l, -m), 0]!r} at theta={t!r}, phi={p!r}",
                         witness={"theta": t, "phi": p, "l": l, "m": m})

    # (e) solid harmonics: definition (50 digits) and the Cartesian polynomials of degree <= 2
    Ls = 6 if not large else 15
    for _ in range(4 if not large else 20):
        c = [ctx.rng.uniform(-1, 1) for _ in range(3)]
        q = [ctx.rng.uniform(-2, 2) for _ in range(3)]
        sph = ut.convert_cart_to_sph(np.array([q]), np.array(c))
        R = np.asarray(ut.solid_harmonics(Ls, sph), dtype=float)[:, 0]
        r, t, p = (float(v) for v in sph[0])
        x, y, z = (q[i] - c[i] for i in range(3))
        cart = {(0, 0): 1.0, (1, 0): z, (1, 1): x, (1, -1): y,
                (2, 0): (3 * z * z - (x * x + y * y + z * z)) / 2, (2, 1): math.sqrt(3) * x * z, (2, -1): math.sqrt(3) * y * z,
                (2, 2): math.sqrt(3) / 2 * (x * x - y * y), (2, -2): math.sqrt(3) * x * y}
        for (l, m), want in cart.items():
            got = float(R[row_index(l, m)])
            if not abs(got - want) <= 1e-12 * max(1.0, r ** l):
                ctx.fail("oracle", "utils.solid_harmonics:cartesian", f"solid harmonic (l={l}, m={m}) of the point {q} about {c} is {got!r}, Cartesian form {want!r}",
                         witness={"point": q, "center": c, "l": l, "m": m, "got": got, "want": want})
        for l, m in ctx.rng.sample(py_lm_order(Ls), 12):
            want = float(mp.sqrt(4 * mp.pi / (2 * l + 1)) * mp.mpf(r) ** l * mp_ylm(mp, l, m, t, p))
            got = float(R[row_index(l, m)])
            if not abs(got - want) <= 1e-12 * (Ls + 1) * max(1.0, r ** l):
                ctx.fail("oracle", "utils.solid_harmonics:definition", f"solid harmonic (l={l}, m={m}) at (r,theta,phi)=({r!r},{t!r},{p!r}) is {got!r}, "
                         f"sqrt(4 pi/(2l+1)) r^l Y_lm = {want!r}", witness={"r": r, "theta": t, "phi": p, "l": l, "m": m})
    R0 = np.asarray(ut.solid_harmonics(3, np.array([[0.0, 0.3, 0.4]])), dtype=float)[:, 0]
    if not (abs(R0[0] - 1.0) <= 1e-15 and np.all(R0[1:] == 0.0)):
        ctx.fail("oracle", "utils.solid_harmonics:r=0", f"solid harmonics at r = 0 are {R0.tolist()}, expected [1, 0, 0, ...]")

    # (f) round trip and r = 0
    for _ in range(40 if not large else 1000):
        c = [ctx.rng.uniform(-3, 3) for _ in range(3)] if ctx.rng.random() < 0.8 else None
        q = [ctx.rng.uniform(-5, 5) for _ in range(3)]
        if ctx.rng.random() < 0.15:  # on the polar axis through the centre
            q = [c[0], c[1], q[2]] if c is not None else [0.0, 0.0, q[2]]
        sph = ut.convert_cart_to_sph(np.array([q]), None if c is None else np.array(c))[0]
        r, t, p = (float(v) for v in sph)
        cc = c or [0.0, 0.0, 0.0]
        back = [cc[0] + r * math.cos(t) * math.sin(p), cc[1] + r * math.sin(t) * math.sin(p), cc[2] + r * math.cos(p)]
        if not all(abs(a - b) <= 1e-13 * max(1.0, r) for a, b in zip(back, q)) or not (r >= 0 and -PI <= t <= PI and 0 <= p <= PI):
            ctx.fail("oracle", "utils.convert_cart_to_sph:roundtrip", f"convert_cart_to_sph({q}, center={c}) = {[r, t, p]} maps back to {back}",
                     witness={"point": q, "center": c, "sph": [r, t, p], "back": back},
                     snippet=("import numpy as np, math\nfrom grid.utils import convert_cart_to_sph\n"
                              f"q, c = {q!r}, {cc!r}\nr, t, p = convert_cart_to_sph(np.array([q]), np.array(c))[0]\n"
                              "back = [c[0] + r*math.cos(t)*math.sin(p), c[1] + r*math.sin(t)*math.sin(p), c[2] + r*math.cos(p)]\n"
                              "assert all(abs(a - b) <= 1e-12*max(1, r) for a, b in zip(back, q)), (back, q)\n"))
    for c in ([0.0, 0.0, 0.0], [ctx.rng.uniform(-3, 3) for _ in range(3)]):
        s0 = ut.convert_cart_to_sph(np.array([c]), np.array(c))[0]
        if not (s0[0] == 0.0 and s0[1] == 0.0 and s0[2] == 0.0):
            ctx.fail("oracle", "utils.convert_cart_to_sph:r=0", f"the centre itself maps to {s0.tolist()}, expected (0, 0, 0)", witness={"center": c})

    # (g) derivative conversion: gradient of a polynomial through its spherical derivatives
    for _ in range(10 if not large else 200):
        co = [ctx.rng.uniform(-1, 1) for _ in range(6)]
        r, t, p = ctx.rng.uniform(0.2, 3), ctx.rng.uniform(-7, 7), ctx.rng.uniform(0.1, 3.0)
        x, y, z = r * math.cos(t) * math.sin(p), r * math.sin(t) * math.sin(p), r * math.cos(p)
        # f = a x + b y + c z + d x y + e y z + g z z
        grad = [co[0] + co[3] * y, co[1] + co[3] * x + co[4] * z, co[2] + co[4] * y + 2 * co[5] * z]
        dxr = [math.cos(t) * math.sin(p), math.sin(t) * math.sin(p), math.cos(p)]
        dxt = [-r * math.sin(t) * math.sin(p), r * math.cos(t) * math.sin(p), 0.0]
        dxp = [r * math.cos(t) * math.cos(p), r * math.sin(t) * math.cos(p), -r * math.sin(p)]
        fr, ft, fp = (sum(g * d for g, d in zip(grad, dd)) for dd in (dxr, dxt, dxp))
        got = np.asarray(ut.convert_derivative_from_spherical_to_cartesian(fr, ft, fp, r, t, p), dtype=float)
        if not all(abs(a - b) <= 1e-11 * max(1.0, max(abs(v) for v in grad)) / min(1.0, abs(math.sin(p))) for a, b in zip(got, grad)):
            ctx.fail("oracle", "utils.convert_derivative_from_spherical_to_cartesian:gradient",
                     f"gradient of a quadratic at (r,theta,phi)=({r!r},{t!r},{p!r}): routine {got.tolist()}, exact {grad}",
                     witness={"coeffs": co, "r": r, "theta": t, "phi": p, "got": got.tolist(), "want": grad})
    g0 = np.asarray(ut.convert_derivative_from_spherical_to_cartesian(1.0, 2.0, 3.0, 0.0, 0.3, 0.4), dtype=float)
    w0 = [math.cos(0.3) * math.sin(0.4), math.sin(0.3) * math.sin(0.4), math.cos(0.4)]
    if not all(abs(a - b) <= 1e-15 for a, b in zip(g0, w0)):
        ctx.fail("oracle", "utils.convert_derivative_from_spherical_to_cartesian:r=0", f"r = 0 convention: {g0.tolist()} vs radial part only {w0}")

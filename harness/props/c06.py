"""C06 — atom-in-molecule weights form a partition of unity on every geometry."""
import importlib
import math

import numpy as np

from ..common import Ctx, Tokens, b2f, close, driver_batch, f2b, fmat, fvec, vec

LEVEL = "proof"
LEVEL_TEXT = (
    "Lean theorems over the reals for any number of atoms at distinct positions, any positive radii, any switching "
    "order: the generated switching polynomial maps [-1,1] to itself, is odd and fixes +-1; the generated alpha is "
    "antisymmetric and clipped to the generated cutoff < 1/2; mu in [-1,1] (triangle inequality); s_AB in [0,1], "
    "s_AB + s_BA = 1; the cell sum is positive; hence weights in [0,1], sum one, one at the own nucleus and zero at "
    "the others; invariance under distance-preserving maps (isometries of R^3), equivariance under relabelling; the "
    "generate_weights / compute_weights / compute_atom_weight routes agree; the chunked __call__ equals the unchunked "
    "segment-wise evaluation for every chunk size >= 1 and every non-negative index table (any K, no ring laws needed); "
    "on a monotone table from 0 to N each point receives the weight of the atom owning its segment; Hirshfeld weights "
    "are the pro-atom share and the shares sum to one; every element 1..86 (incl. nan radii) gets a positive radius "
    "(kernel-decided on the regenerated table). Tie to the code: switching polynomial, alpha, cutoff, nu/s formulas of "
    "both routes, chunk size, loop and slice/clip arithmetic and the radius table are regenerated from becke.py on "
    "every run; the hand model of the array code is compared with the implementation on generated molecules."
)
TECHNIQUE = "Lean 4 proof (generated formulas + hand model of the array code) + differential correspondence + oracle on the implementation"
GEN = ["becke"]
LEAN_MODULES = ["GridVerif.Props.C06", "GridVerif.Props.C06.Index", "GridVerif.Props.C06.Radii"]
THEOREMS = [
    "GridVerif.C06.switch_maps_unit",
    "GridVerif.C06.switch_lt_one",
    "GridVerif.C06.cutoff_lt_half",
    "GridVerif.C06.alpha_antisymm_clipped",
    "GridVerif.C06.nu_in_unit",
    "GridVerif.C06.mu_bounds",
    "GridVerif.C06.s_pair",
    "GridVerif.C06.cell_sum_pos",
    "GridVerif.C06.weights_in_unit",
    "GridVerif.C06.weights_sum_one",
    "GridVerif.C06.weight_at_nuclei",
    "GridVerif.C06.rigid_motion_invariant",
    "GridVerif.C06.isometry_invariant",
    "GridVerif.C06.relabel_equivariant",
    "GridVerif.C06.routes_formula_agree",
    "GridVerif.C06.routes_agree",
    "GridVerif.C06.per_atom_route",
    "GridVerif.C06.routes_differ_explicit_select",
    "GridVerif.C06.becke_chunked_eq",
    "GridVerif.C06.call_eq_generate",
    "GridVerif.C06.chunk_size_spec",
    "GridVerif.C06.segmentwise_owner",
    "GridVerif.C06.becke_call_partition",
    "GridVerif.C06.hirshfeld_share",
    "GridVerif.C06.hirshfeld_sum_one",
    "GridVerif.C06.bragg_table_good",
    "GridVerif.C06.bragg_radii_positive",
]
RULE = (
    "correspondence: molecules with 1..13 atoms (1..4 always), atomic numbers 1..86 incl. nan-radius elements "
    "(He, Ne, Ar, Kr, Xe, At, Rn) and user radius dictionaries, points at nuclei / on bond axes / far (1e2..1e6) / random, "
    "orders 0..5, random monotone segmentations (incl. empty segments) and a malformed stream (non-monotone, negative, "
    "over-long tables, permuted select); every route (generate_weights, compute_weights, compute_atom_weight, __call__ with "
    "the recorded chunk trace), Hirshfeld.__call__, and the generated formulas (switch, alpha, chunk size, radii) sent to the "
    "implementation and to the Lean model; non-trivial = >=4 atoms with >=2 chunks, or a clipped heteronuclear pair, or a "
    "nan-radius element, or a point on a nucleus"
)
TRUSTED_BASE = [
    "Lean 4.33 kernel; axioms propext, Classical.choice, Quot.sound only (audited per theorem)",
    "translator harness/translate/becke.py (AST of becke.py -> generic-K defs; self-checked at Float against the methods)",
    "hand model Model/Becke.lean of the NumPy array code (entry-wise reading of slice += / =, nan->1 as 'skip B = A'), tied by correspondence",
    "Elem instance of the reals: sqrt = Real.sqrt; distance = Euclidean distance of R^3 (bridge lemma dist3_eq_dist)",
    "NumPy broadcasting / slicing / np.prod / np.sum / np.linalg.norm semantics as modelled",
]
ASSUMPTIONS = [
    "nuclei at pairwise distinct positions, effective radii positive (proved for the shipped table; a user dictionary must be positive)",
    "exact real arithmetic in the theorems; IEEE rounding only through the tolerance of the correspondence (1e-10 on weights)",
    "points.shape[0] >= 1 for __call__ (np.concatenate of an empty list raises ValueError; modelled and compared)",
    "select is the default (None) in the route-equality theorem: with an explicit permuted select and several sectors "
    "compute_weights ignores the order of select while generate_weights honours it (modelled as the code is; reported as info)",
    "Hirshfeld pro-atom densities (cubic spline of shipped data) are a parameter of the model; promolecule != 0 at the point",
]

NAN_Z = [2, 10, 18, 36, 54, 85, 86]


# ----------------------------------------------------------------------------------------------
# input generation
# ----------------------------------------------------------------------------------------------
def _geometry(rng, m):
    """m distinct positions, nearest-neighbour distance >= 0.6."""
    pos = []
    kind = rng.random()
    while len(pos) < m:
        if kind < 0.15 and pos:      # linear chain piece
            c = pos[-1] + np.array([rng.uniform(0.8, 3.0), 0.0, 0.0])
        elif kind < 0.3:            # lattice-like, exactly representable coordinates
            c = np.array([rng.randrange(-3, 4), rng.randrange(-3, 4), rng.randrange(-3, 4)], dtype=float) * 1.5
        else:
            c = np.array([rng.gauss(0, 1.0 + 0.5 * m ** (1 / 3)) for _ in range(3)]) * 1.8
        if all(np.linalg.norm(c - q) >= 0.6 for q in pos):
            pos.append(c)
    return np.array(pos).reshape(m, 3)


def _points(rng, at, n):
    m = len(at)
    pts = []
    for _ in range(n):
        u = rng.random()
        a = at[rng.randrange(m)]
        if u < 0.18:
            pts.append(a.copy())                                        # on a nucleus
        elif u < 0.30 and m >= 2:
            b = at[rng.randrange(m)]
            t = rng.choice([0.5, -0.7, 1.6, rng.uniform(-1, 2)])
            pts.append(a + t * (b - a))                                 # on a bond axis (mu = +-1 outside the bond)
        elif u < 0.42:
            d = np.array([rng.gauss(0, 1) for _ in range(3)])
            d /= np.linalg.norm(d)
            pts.append(a + d * 10 ** rng.uniform(2, 6))                 # far
        elif u < 0.5:
            d = np.array([rng.gauss(0, 1) for _ in range(3)])
            pts.append(a + d * 10 ** rng.uniform(-9, -2))               # very close to a nucleus
        else:
            pts.append(a + np.array([rng.gauss(0, 2.0) for _ in range(3)]))
    return np.array(pts).reshape(n, 3)


def _table(rng, n, m):
    """monotone index table 0 = t0 <= ... <= tm = n, empty segments allowed."""
    cuts = sorted(rng.randrange(0, n + 1) for _ in range(m - 1))
    return [0] + cuts + [n]


def _molecule(ctx: Ctx, m=None, n=None):
    rng = ctx.rng
    if m is None:
        m = rng.choice([1, 2, 3, 4, 5, 6, 7, 8, 9, 10, 11, 12, 13])
    at = _geometry(rng, m)
    nums = []
    for _ in range(m):
        u = rng.random()
        nums.append(rng.choice(NAN_Z) if u < 0.2 else (rng.choice([1, 6, 7, 8, 3, 55, 19, 9]) if u < 0.5 else rng.randrange(1, 87)))
    order = rng.choice([1, 2, 3, 3, 3, 4, 5, 0])
    over = {}
    if rng.random() < 0.12:
        for z in rng.sample(sorted(set(nums)), k=min(len(set(nums)), rng.choice([1, 2]))):
            over[int(z)] = rng.choice([rng.uniform(0.3, 5.0), 1.0, float("nan") if z >= 3 else 0.7])
    if over and not _radii_positive(nums, over):
        over = {z: v for z, v in over.items() if v == v}      # a nan chain down to radius 0 is outside the assumptions
    if n is None:
        n = rng.choice([0, 1, 2, 3, 5, 8, 13, 21, 34]) if m <= 6 else rng.choice([1, 2, 4, 7, 12, 19, 30])
    pts = _points(rng, at, n)
    return dict(at=at, nums=np.array(nums, dtype=int), order=order, over=over, pts=pts)


def _mol_tokens(mol):
    over = mol["over"]
    ov = " ".join([str(len(over))] + [f"{z} {f2b(v)}" for z, v in over.items()])
    return f"{mol['order']} {vec(mol['nums'])} {ov} {fmat(mol['at'])}"


def _pts_tokens(pts):
    return f"{len(pts)} 3 " + " ".join(f2b(x) for x in np.asarray(pts, dtype=float).reshape(-1)) if len(pts) else "0 3"


def _opt(xs):
    return "-" if xs is None else vec(xs)


def _becke(mod, mol, cls=None):
    cls = cls or mod.BeckeWeights
    return cls(radii=mol["over"] or None, order=mol["order"])


ERR = {ValueError: "value-error", IndexError: "index-error", KeyError: "key-error", ZeroDivisionError: "zero-division-error"}


def _run(fn):
    """-> ('ok', np.array) or (error tag, None)"""
    try:
        return "ok", np.asarray(fn(), dtype=float)
    except tuple(ERR) as e:
        for k, v in ERR.items():
            if isinstance(e, k):
                return v, None
        raise


def _parse(ans):
    if not ans.startswith("ok"):
        return ans, None
    t = Tokens(ans)
    t.tok()
    return "ok", np.array(t.fvec(), dtype=float)


def _parse_mat(ans):
    if not ans.startswith("ok"):
        return ans, None
    t = Tokens(ans)
    t.tok()
    r = t.nat()
    c = t.nat()
    return "ok", np.array([b2f(t.tok()) for _ in range(r * c)], dtype=float).reshape(r, c)


def _same(a, b, tol):
    (ta, xa), (tb, xb) = a, b
    if ta != tb:
        return False
    if xa is None:
        return True
    if xa.size == 0 and xb.size == 0:
        return True
    if xa.shape != xb.shape:
        return False
    both_nan = np.isnan(xa) & np.isnan(xb)
    d = np.abs(xa - xb)
    d[both_nan] = 0.0
    return bool(np.all(d <= tol))


def _tol(mol):
    """1e-10 on weights; far points lose digits in |R_A-p| - |R_B-p| (both sides round alike, but one ulp of
    a libm/summation difference is amplified by distance / bond length)."""
    at, pts = mol["at"], mol["pts"]
    if len(pts) == 0:
        return 1e-10
    far = float(np.max(np.linalg.norm(pts[:, None] - at, axis=-1)))
    return 1e-10 * max(1.0, far * 1e-3)


def _nontrivial(mol, nchunks=1):
    at, nums, pts = mol["at"], mol["nums"], mol["pts"]
    if len(at) >= 4 and nchunks >= 2:
        return True
    if any(int(z) in NAN_Z for z in nums):
        return True
    if len(pts) and len(at) >= 2 and np.any(np.min(np.linalg.norm(pts[:, None] - at, axis=-1), axis=1) == 0.0):
        return True
    return len(set(int(z) for z in nums)) >= 2 and _has_clipped(nums)


_BR = None


def _radii_positive(nums, over):
    """does every atom get a positive radius from the dictionary updated with `over`?"""
    global _BR
    if _BR is None:
        from grid.becke import BeckeWeights

        _BR = BeckeWeights()._radii
    d = dict(_BR)
    d.update(over)
    for z in nums:
        z = int(z)
        r = d.get(z, float("nan"))
        if r != r:
            r = float(np.nan_to_num(d.get(z - 1, float("nan")))) or float(np.nan_to_num(d.get(z - 2, float("nan"))))
        if not r > 0:
            return False
    return True


def _has_clipped(nums):
    global _BR
    if _BR is None:
        from grid.becke import BeckeWeights

        _BR = BeckeWeights()._radii
    rs = []
    for z in nums:
        r = _BR[int(z)]
        if r != r:
            r = _BR[int(z) - 1] if _BR[int(z) - 1] == _BR[int(z) - 1] else _BR[int(z) - 2]
        rs.append(r)
    for a in rs:
        for b in rs:
            u = (a - b) / (a + b)
            if u != 0 and abs(u / (u * u - 1)) > 0.45:
                return True
    return False


# ----------------------------------------------------------------------------------------------
# correspondence
# ----------------------------------------------------------------------------------------------
def _corr_formulas(ctx: Ctx, mod):
    B = mod.BeckeWeights
    rng = ctx.rng
    lines, want, what = [], [], []
    # switching function
    xs = [-1.0, 1.0, 0.0, 0.5, -0.25, 1.0 + 1e-9, -1.0 - 1e-9] + [rng.uniform(-1, 1) for _ in range(ctx.n(40, 400))]
    for x in xs:
        for order in (0, 1, 2, 3, 4, 5, rng.randrange(6, 12)):
            lines.append(f"C06.switch {f2b(x)} {order}")
            want.append(float(B._switch_func(np.float64(x), order=order)))
            what.append(("switch", x, order))
    # alpha incl. clipping, for radii of the table and random ones
    rad = B()._radii
    good = [float(r) for r in rad.values() if r == r]
    for _ in range(ctx.n(150, 2000)):
        ra, rb = (rng.choice(good), rng.choice(good)) if rng.random() < 0.6 else (rng.uniform(0.2, 5), rng.uniform(0.2, 5))
        if rng.random() < 0.1:
            rb = ra
        lines.append(f"C06.alpha {f2b(ra)} {f2b(rb)}")
        want.append(float(B._calculate_alpha(np.array([ra, rb]))[0, 1]))
        what.append(("alpha", ra, rb))
    for _ in range(ctx.n(30, 300)):
        c = rng.choice([0.45, 0.3, 0.5, rng.uniform(0.01, 1.0)])
        # alpha = u/(u^2-1) is inverted to drive `_calculate_alpha(…, cutoff=c)` at a chosen raw alpha
        u = rng.uniform(-0.95, 0.95)
        ra, rb = 1.0 + u, 1.0 - u
        arr = np.array([ra, rb])
        uab = ((arr[:, None] - arr) / (arr[:, None] + arr))[0, 1]
        raw = float(uab / (uab**2 - 1))
        lines.append(f"C06.alphaclip {f2b(raw)} {f2b(c)}")
        want.append(float(B._calculate_alpha(np.array([ra, rb]), cutoff=c)[0, 1]))
        what.append(("alphaclip", ra, rb, c))
    ans = driver_batch(lines)
    for ln, w, wh, a in zip(lines, want, what, ans):
        ctx.count(list(wh), nontrivial=False, tag="gen:" + wh[0])
        ok = a.startswith("ok ") and close(b2f(a.split()[1]), w, rtol=1e-12, scale=max(1.0, abs(w)))
        if not ok:
            ctx.fail("corr", f"gen:{wh[0]}", f"generated {wh[0]}{wh[1:]}: implementation {w!r}, model {a if not a.startswith('ok ') else b2f(a.split()[1])!r}",
                     witness={"op": ln, "impl": w, "model": a})
    # radii of the dictionary
    lines = [f"C06.radius {z} 0" for z in range(0, 89)]
    ans = driver_batch(lines)
    for z, a in zip(range(0, 89), ans):
        ctx.count(["radius", z], nontrivial=z in NAN_Z, tag="gen:radius")
        if z not in rad:
            ok = a == "key-error"
            w = "key-error"
        else:
            r = rad[z]
            if r != r:
                r = np.nan_to_num(rad[z - 1]) or np.nan_to_num(rad[z - 2])
            w = float(r)
            ok = a.startswith("ok ") and b2f(a.split()[1]) == w
        if not ok:
            ctx.fail("corr", "gen:radius", f"radius used for Z={z}: implementation {w}, model {a}", witness={"Z": z})


class _Trace:
    """records the generate_weights calls made by __call__"""

    def __init__(self, mod):
        outer = self

        class Rec(mod.BeckeWeights):
            def generate_weights(self, points, atcoords, atnums, *, select=None, pt_ind=None):
                outer.calls.append((len(points), None if pt_ind is None else [int(v) for v in pt_ind]))
                return super().generate_weights(points, atcoords, atnums, select=select, pt_ind=pt_ind)

        self.cls = Rec
        self.calls = []


def _corr_molecules(ctx: Ctx, mod, hmod):
    rng = ctx.rng
    nmol = ctx.n(400, 6000)
    mols = [_molecule(ctx, m=m) for m in (1, 1, 2, 2, 2, 3, 3, 4, 4, 5)] + [_molecule(ctx) for _ in range(nmol)]
    # many points with >= 4 atoms: several chunks
    mols += [_molecule(ctx, m=rng.choice([4, 5, 7, 9, 13]), n=rng.choice([40, 75, 120])) for _ in range(ctx.n(10, 150))]
    tr = _Trace(mod)
    jobs = []  # (line, impl result, key, description, tolerance, case, nontrivial, tag)
    for mol in mols:
        at, nums, pts, m, n = mol["at"], mol["nums"], mol["pts"], len(mol["at"]), len(mol["pts"])
        mt, pt = _mol_tokens(mol), _pts_tokens(pts)
        tol = _tol(mol)
        try:
            b = _becke(mod, mol)
            bt = _becke(mod, mol, tr.cls)
        except Exception as e:  # constructor rejects the dictionary
            ctx.info(f"constructor raised {type(e).__name__} for radii {mol['over']}")
            continue
        case = {"atnums": nums, "atcoords": at, "order": mol["order"], "radii": mol["over"], "npoints": n}
        # -- all cell values, both copies of the formulas
        for route, fn in (("gw", lambda k: b.generate_weights(pts, at, nums, select=k)),
                          ("caw", lambda k: b.compute_atom_weight(pts, at, nums, k))):
            r = _run(lambda: np.array([fn(k) for k in range(m)]).T.reshape(n, m))
            jobs.append((f"C06.weights {route} {mt} {pt}", r, f"weights:{route}", f"{route} all atoms", tol, case, _nontrivial(mol), f"weights:{route}:M={m}", "mat"))
        # -- segment-wise routes on a random monotone table
        tab = _table(rng, n, m)
        r = _run(lambda: b.generate_weights(pts, at, nums, pt_ind=tab))
        jobs.append((f"C06.generate {mt} {pt} - {vec(tab)}", r, "generate_weights", f"pt_ind={tab}", tol, case, _nontrivial(mol), "generate:table", "vec"))
        r = _run(lambda: b.compute_weights(pts, at, nums, pt_ind=tab))
        jobs.append((f"C06.compute {mt} {pt} - {vec(tab)}", r, "compute_weights", f"pt_ind={tab}", tol, case, _nontrivial(mol), "compute:table", "vec"))
        k = rng.randrange(m)
        r = _run(lambda: b.generate_weights(pts, at, nums, select=k))
        jobs.append((f"C06.generate {mt} {pt} 1 {k} -", r, "generate_weights:select", f"select={k}", tol, case, _nontrivial(mol), "generate:select", "vec"))
        r = _run(lambda: b.compute_weights(pts, at, nums, select=[k]))
        jobs.append((f"C06.compute {mt} {pt} 1 {k} -", r, "compute_weights:select", f"select=[{k}]", tol, case, _nontrivial(mol), "compute:select", "vec"))
        r = _run(lambda: b.compute_atom_weight(pts, at, nums, k))
        jobs.append((f"C06.atom {mt} {pt} {k}", r, "compute_atom_weight", f"select={k}", tol, case, _nontrivial(mol), "atom", "vec"))
        # -- the chunked whole-grid call, with the trace of its chunk calls
        tr.calls = []
        r = _run(lambda: bt(pts, at, nums, np.array(tab)))
        calls = list(tr.calls)
        jobs.append((f"C06.call {mt} {pt} {vec(tab)}", r, "__call__", f"indices={tab}", tol, case, _nontrivial(mol, len(calls)), f"call:chunks={min(len(calls), 9)}", "vec"))
        jobs.append((f"C06.calltrace {n} {m} {vec(tab)}", ("trace", calls), "__call__:trace", f"indices={tab}", 0, case, False, "calltrace", "trace"))
        # -- malformed / unusual stream: both sides must agree, errors included
        if rng.random() < 0.5:
            u = rng.random()
            if u < 0.25:
                t2 = [rng.randrange(0, n + 3) for _ in range(m + 1)]                # not monotone, may exceed n
            elif u < 0.45:
                t2 = [rng.randrange(-n - 2, n + 3) for _ in range(m + 1)]           # negative entries (Python wrap-around)
            elif u < 0.6:
                t2 = _table(rng, n, m)[: rng.randrange(0, m + 1)]                   # too short
            elif u < 0.7:
                t2 = _table(rng, n, m) + [n]                                        # too long
            else:
                t2 = _table(rng, n, m)
                t2[-1] = max(0, n - rng.randrange(0, 3))                            # does not reach n
            sel = None
            if rng.random() < 0.5:
                sel = list(range(m))
                rng.shuffle(sel)
                if rng.random() < 0.3:
                    sel[rng.randrange(m)] = m + rng.randrange(0, 2)
                if rng.random() < 0.2:
                    sel = sel[:-1]
            r = _run(lambda: b.generate_weights(pts, at, nums, select=sel, pt_ind=t2))
            jobs.append((f"C06.generate {mt} {pt} {_opt(sel)} {vec(t2)}", r, "generate_weights:unusual", f"select={sel} pt_ind={t2}", tol, case, False, "generate:unusual:" + r[0], "vec"))
            r = _run(lambda: b.compute_weights(pts, at, nums, select=sel, pt_ind=t2))
            jobs.append((f"C06.compute {mt} {pt} {_opt(sel)} {vec(t2)}", r, "compute_weights:unusual", f"select={sel} pt_ind={t2}", tol, case, False, "compute:unusual:" + r[0], "vec"))
            if all(v >= 0 for v in t2) or rng.random() < 0.5:
                tr.calls = []
                r = _run(lambda: bt(pts, at, nums, np.array(t2, dtype=int)))
                jobs.append((f"C06.call {mt} {pt} {vec(t2)}", r, "__call__:unusual", f"indices={t2}", tol, case, False, "call:unusual:" + r[0], "vec"))
    answers = driver_batch([j[0] for j in jobs])
    maxdev = 0.0
    for (line, impl, key, desc, tol, case, nontriv, tag, kind), ans in zip(jobs, answers):
        case2 = dict(case, op=key, arg=desc)
        ctx.count(case2, nontrivial=nontriv, tag=tag)
        if kind == "trace":
            calls = impl[1]
            ok = ans.startswith("ok ")
            got = None
            if ok:
                t = Tokens(ans)
                t.tok()
                got = []
                for _ in range(t.nat()):
                    bb = t.nat()
                    ln = t.nat()
                    got.append((bb, ln, t.vec(int)))
                starts = np.cumsum([0] + [c[0] for c in calls])[:-1]
                ok = [(g[1], g[2]) for g in got] == [(c[0], c[1]) for c in calls] and [g[0] for g in got] == [int(s) for s in starts]
            ctx.traces += 1
            if not ok:
                ctx.fail("corr", "becke.__call__:trace", f"chunk calls of __call__ ({desc}, {case['npoints']} points, {len(case['atnums'])} atoms): implementation {calls[:4]}…, model {got[:4] if got else ans}…",
                         witness=dict(case2, impl=calls, model=got if got is not None else ans))
            continue
        model = _parse_mat(ans) if kind == "mat" else _parse(ans)
        if impl[1] is not None and model[1] is not None and impl[1].shape == model[1].shape and impl[1].size:
            dd = np.abs(impl[1] - model[1])
            if not np.all(np.isnan(dd)):
                maxdev = max(maxdev, float(np.nanmax(dd)))
        if not _same(impl, model, tol):
            dev = None
            if impl[1] is not None and model[1] is not None and impl[1].shape == model[1].shape and impl[1].size:
                dev = float(np.nanmax(np.abs(impl[1] - model[1])))
            ctx.fail("corr", f"becke.{key}", f"{key} ({desc}; {len(case['atnums'])} atoms, {case['npoints']} points, order {case['order']}): implementation {impl[0]}, model {model[0]}, max deviation {dev}",
                     witness=dict(case2, impl=impl[1], model=model[1], line=line[:3000]))


    return maxdev


def _hirshfeld_case(ctx: Ctx, hmod, m=None):
    rng = ctx.rng
    m = m or rng.randrange(1, 7)
    at = _geometry(rng, m)
    nums = np.array([rng.choice([1, 6, 7, 8]) for _ in range(m)], dtype=int)
    n = rng.choice([1, 2, 5, 9, 17])
    pts = np.array([at[rng.randrange(m)] + np.array([rng.gauss(0, 0.9) for _ in range(3)]) for _ in range(n)])
    return at, nums, pts, _table(rng, n, m)


def _corr_hirshfeld(ctx: Ctx, hmod):
    H = hmod.HirshfeldWeights
    jobs = []
    for i in range(ctx.n(25, 400)):
        at, nums, pts, tab = _hirshfeld_case(ctx, hmod, m=(i % 4) + 1 if i < 8 else None)
        if ctx.rng.random() < 0.2:
            tab = [ctx.rng.randrange(0, len(pts) + 2) for _ in tab]
        rho = np.array([H.generate_proatom(pts, at[i], nums[i]) for i in range(len(at))])
        r = _run(lambda: H()(pts, at, nums, np.array(tab)))
        jobs.append((f"C06.hirshfeld {fmat(rho)} {vec(tab)}", r, dict(atnums=nums, atcoords=at, points=pts, indices=tab)))
    ans = driver_batch([j[0] for j in jobs])
    for (line, impl, case), a in zip(jobs, ans):
        ctx.count(dict(case, op="hirshfeld"), nontrivial=len(case["atnums"]) >= 2, tag=f"hirshfeld:M={len(case['atnums'])}")
        model = _parse(a)
        ok = impl[0] == model[0] and (impl[1] is None or (impl[1].shape == model[1].shape and all(
            close(x, y, rtol=1e-11, scale=max(1.0, abs(x))) for x, y in zip(impl[1], model[1]))))
        if not ok:
            ctx.fail("corr", "hirshfeld.__call__", f"HirshfeldWeights.__call__ indices={case['indices']}: implementation {impl}, model {model}", witness=case)


def corr(ctx: Ctx):
    mod = importlib.import_module("grid.becke")
    hmod = importlib.import_module("grid.hirshfeld")
    _corr_formulas(ctx, mod)
    ctx.extra["max_abs_deviation_model_vs_implementation"] = _corr_molecules(ctx, mod, hmod)
    _corr_hirshfeld(ctx, hmod)


# ----------------------------------------------------------------------------------------------
# oracle: the property itself on the implementation
# ----------------------------------------------------------------------------------------------
SNIP_HEAD = """import warnings; warnings.filterwarnings('ignore')
import numpy as np
from grid.becke import BeckeWeights
from grid.hirshfeld import HirshfeldWeights
nan = float('nan')
at = np.array({at!r}, dtype=float).reshape(-1, 3)
nums = np.array({nums!r}, dtype=int)
pts = np.array({pts!r}, dtype=float).reshape(-1, 3)
tab = np.array({tab!r}, dtype=int)
b = BeckeWeights(radii={over!r} or None, order={order})
M, N = len(at), len(pts)
W = np.array([b.generate_weights(pts, at, nums, select=k) for k in range(M)])   # atoms x points
"""

SNIPPETS = {
    "partition": "assert np.all(np.abs(W.sum(axis=0) - 1) <= 1e-12), ('weights do not sum to one', W.sum(axis=0))\n",
    "bounds": "assert np.all(W >= -1e-13) and np.all(W <= 1 + 1e-13), ('weight outside [0,1]', W.min(), W.max())\n",
    "nuclei": "Wn = np.array([b.generate_weights(at, at, nums, select=k) for k in range(M)])\n"
              "assert np.all(np.abs(Wn - np.eye(M)) <= 1e-13), ('weights at the nuclei are not the identity matrix', Wn)\n",
    "routes": "own = np.repeat(np.arange(M), np.diff(tab))\n"
              "ref = W[own, np.arange(N)]\n"
              "for name, got in (('generate_weights', b.generate_weights(pts, at, nums, pt_ind=list(tab))),\n"
              "                  ('compute_weights', b.compute_weights(pts, at, nums, pt_ind=list(tab))),\n"
              "                  ('per-atom', np.concatenate([b.compute_atom_weight(pts[tab[k]:tab[k+1]], at, nums, k) for k in range(M)])),\n"
              "                  ('__call__', b(pts, at, nums, tab))):\n"
              "    assert got.shape == ref.shape and np.all(np.abs(got - ref) <= 1e-13), (name, 'differs from the per-atom values', got, ref)\n",
}


SNIPPETS["rigid-motion"] = (
    "R = np.array({R!r}).reshape(3, 3); t = np.array({t!r}); near = np.array({near!r})\n"
    "W2 = np.array([b.generate_weights(pts[near] @ R.T + t, at @ R.T + t, nums, select=k) for k in range(M)])\n"
    "assert np.all(np.abs(W2 - W[:, near]) <= 1e-9), ('weights change under a rigid motion', np.max(np.abs(W2 - W[:, near])))\n")
SNIPPETS["relabel"] = (
    "perm = {perm!r}\n"
    "W3 = np.array([b.generate_weights(pts, at[perm], nums[perm], select=k) for k in range(M)])\n"
    "assert np.all(np.abs(W3 - W[perm]) <= 1e-12), ('weights change under relabelling', np.max(np.abs(W3 - W[perm])))\n")

HSNIP = """import warnings; warnings.filterwarnings('ignore')
import numpy as np
from grid.hirshfeld import HirshfeldWeights as H
at = np.array({at!r}, dtype=float).reshape(-1, 3); nums = np.array({nums!r}, dtype=int)
pts = np.array({pts!r}, dtype=float).reshape(-1, 3); tab = np.array({tab!r}, dtype=int)
M, N = len(at), len(pts)
per = np.array([H()(pts, at, nums, np.array([0] * (k + 1) + [N] * (M - k))) for k in range(M)])
mag = np.maximum(1, np.abs(per).sum(axis=0))
assert np.all(np.abs(per.sum(axis=0) - 1) <= 1e-12 * mag), ('Hirshfeld weights do not sum to one', per.sum(axis=0))
own = np.repeat(np.arange(M), np.diff(tab))
assert np.all(np.abs(H()(pts, at, nums, tab) - per[own, np.arange(N)]) <= 1e-13 * mag), 'call differs from the per-atom shares'
rho = np.array([H.generate_proatom(pts, at[k], nums[k]) for k in range(M)])
assert np.all(np.abs(per * rho.sum(axis=0) - rho) <= 1e-12 * np.abs(rho).sum(axis=0)), 'weight * promolecule != proatom'
"""


def _hsnippet(at, nums, pts, tab):
    return HSNIP.format(at=at.reshape(-1).tolist(), nums=[int(z) for z in nums], pts=pts.reshape(-1).tolist(), tab=[int(v) for v in tab])


def _snippet(mol, tab, body):
    return SNIP_HEAD.format(at=mol["at"].reshape(-1).tolist(), nums=[int(z) for z in mol["nums"]], pts=mol["pts"].reshape(-1).tolist(),
                            tab=[int(t) for t in tab], over=mol["over"], order=mol["order"]) + body


def _rotation(rng):
    q = np.array([rng.gauss(0, 1) for _ in range(4)])
    q /= np.linalg.norm(q)
    a, b, c, d = q
    R = np.array([[a * a + b * b - c * c - d * d, 2 * (b * c - a * d), 2 * (b * d + a * c)],
                  [2 * (b * c + a * d), a * a - b * b + c * c - d * d, 2 * (c * d - a * b)],
                  [2 * (b * d - a * c), 2 * (c * d + a * b), a * a - b * b - c * c + d * d]])
    if rng.random() < 0.5:
        R = -R                                                                     # improper: reflections are isometries too
    return R


def oracle(ctx: Ctx, budget: str):
    mod = importlib.import_module("grid.becke")
    hmod = importlib.import_module("grid.hirshfeld")
    rng = ctx.rng
    big = budget == "large" or ctx.thorough
    nmol = 1500 if budget == "large" else ctx.n(150, 1500)
    sizes = [1, 2, 2, 3, 4, 5, 8, 13]
    for i in range(nmol):
        mol = _molecule(ctx, m=sizes[i] if i < len(sizes) else None)
        mol["over"] = {z: v for z, v in mol["over"].items() if v == v}
        if i % 5 == 0 and len(mol["at"]) >= 4:
            mol["pts"] = _points(rng, mol["at"], rng.choice([40, 90]))
        at, nums, pts, m, n = mol["at"], mol["nums"], mol["pts"], len(mol["at"]), len(mol["pts"])
        if n == 0:
            continue
        b = _becke(mod, mol)
        tab = _table(rng, n, m)
        W = np.array([b.generate_weights(pts, at, nums, select=k) for k in range(m)])
        wit = dict(atnums=nums, atcoords=at, points=pts, order=mol["order"], radii=mol["over"])
        # partition of unity, bounds
        s = W.sum(axis=0)
        if not np.all(np.abs(s - 1) <= 1e-12):
            j = int(np.nanargmax(np.abs(s - 1))) if not np.all(np.isnan(s)) else 0
            ctx.fail("oracle", "becke.generate_weights:partition", f"Becke weights of {m} atoms sum to {s[j]!r} at point {pts[j].tolist()} (order {mol['order']})",
                     witness=dict(wit, point=pts[j], sum=s[j]), snippet=_snippet(mol, tab, SNIPPETS["partition"]))
        if not (np.all(W >= -1e-13) and np.all(W <= 1 + 1e-13)):
            ctx.fail("oracle", "becke.generate_weights:bounds", f"Becke weight outside [0,1]: min {np.nanmin(W)!r}, max {np.nanmax(W)!r} ({m} atoms, order {mol['order']})",
                     witness=wit, snippet=_snippet(mol, tab, SNIPPETS["bounds"]))
        # nuclei
        Wn = np.array([b.generate_weights(at, at, nums, select=k) for k in range(m)])
        if not np.all(np.abs(Wn - np.eye(m)) <= 1e-13):
            ctx.fail("oracle", "becke.generate_weights:nuclei", f"weights at the nuclei are not 1 (own) / 0 (others) for atnums {nums.tolist()}, order {mol['order']}",
                     witness=dict(wit, weights_at_nuclei=Wn), snippet=_snippet(mol, tab, SNIPPETS["nuclei"]))
        # routes: reference = per-atom column of the owner of each point
        own = np.repeat(np.arange(m), np.diff(tab))
        ref = W[own, np.arange(n)]
        routes = (
            ("becke.generate_weights:segments", lambda: b.generate_weights(pts, at, nums, pt_ind=tab)),
            ("becke.compute_weights:segments", lambda: b.compute_weights(pts, at, nums, pt_ind=tab)),
            ("becke.compute_atom_weight:per-atom", lambda: np.concatenate([b.compute_atom_weight(pts[tab[k]:tab[k + 1]], at, nums, k) for k in range(m)])),
            ("becke.__call__:chunking", lambda: b(pts, at, nums, np.array(tab))),
        )
        for key, fn in routes:
            try:
                got = np.asarray(fn())
                ok = got.shape == ref.shape and bool(np.all(np.abs(got - ref) <= 1e-13))
                what = "" if ok else f"max deviation {float(np.max(np.abs(got - ref))) if got.shape == ref.shape else 'shape ' + str(got.shape)}"
            except Exception as e:
                ok, what = False, f"raised {type(e).__name__}: {e}"
            if not ok:
                ctx.fail("oracle", key, f"{key.split('.', 1)[1]} differs from the per-atom weights on {m} atoms, {n} points, indices {tab}: {what}",
                         witness=dict(wit, indices=tab), snippet=_snippet(mol, tab, SNIPPETS["routes"]))
        # rigid motion (rotation or rotoreflection + translation), relabelling
        if i % 2 == 0:
            R, t = _rotation(rng), np.array([rng.uniform(-5, 5) for _ in range(3)])
            near = np.max(np.linalg.norm(pts[:, None] - at, axis=-1), axis=1) < 50     # far points: the motion itself loses digits
            if np.any(near):
                W2 = np.array([b.generate_weights(pts[near] @ R.T + t, at @ R.T + t, nums, select=k) for k in range(m)])
                if not np.all(np.abs(W2 - W[:, near]) <= 1e-9):
                    ctx.fail("oracle", "becke.generate_weights:rigid-motion", f"weights change by {float(np.max(np.abs(W2 - W[:, near])))} under a rigid motion ({m} atoms)",
                             witness=dict(wit, rotation=R, translation=t),
                             snippet=_snippet(mol, tab, SNIPPETS["rigid-motion"].format(R=R.reshape(-1).tolist(), t=t.tolist(), near=near.tolist())))
            perm = list(range(m))
            rng.shuffle(perm)
            W3 = np.array([b.generate_weights(pts, at[perm], nums[perm], select=k) for k in range(m)])
            if not np.all(np.abs(W3 - W[perm]) <= 1e-12):
                ctx.fail("oracle", "becke.generate_weights:relabel", f"weights change by {float(np.max(np.abs(W3 - W[perm])))} under relabelling {perm}",
                         witness=dict(wit, permutation=perm), snippet=_snippet(mol, tab, SNIPPETS["relabel"].format(perm=perm)))
    # known difference between the routes for an explicit, permuted `select` (outside the quantifier of C06: info only)
    mol = _molecule(ctx, m=3, n=6)
    b = _becke(mod, mol)
    try:
        g = b.generate_weights(mol["pts"], mol["at"], mol["nums"], select=[2, 0, 1], pt_ind=[0, 2, 4, 6])
        c = b.compute_weights(mol["pts"], mol["at"], mol["nums"], select=[2, 0, 1], pt_ind=[0, 2, 4, 6])
        if not np.allclose(g, c, atol=1e-12):
            ctx.info("compute_weights ignores the order of an explicit select=[2,0,1] (uses atom i on segment i); generate_weights uses atom select[i] on segment i")
    except Exception as e:
        ctx.info(f"explicit select probe raised {type(e).__name__}")
    # Hirshfeld: shares sum to one; the call returns the share of the owner
    H = hmod.HirshfeldWeights
    for i in range(200 if budget == "large" else ctx.n(12, 120)):
        at, nums, pts, tab = _hirshfeld_case(ctx, hmod)
        m, n = len(at), len(pts)
        hw = H()
        total = np.zeros(n)
        per = []
        for k in range(m):
            t = np.array([0] * (k + 1) + [n] * (m - k))           # every point belongs to atom k
            per.append(hw(pts, at, nums, t))
            total += per[-1]
        per = np.array(per)
        mag = np.abs(per).sum(axis=0)
        wit = dict(atnums=nums, atcoords=at, points=pts, indices=tab)
        if not np.all(np.abs(total - 1) <= 1e-12 * np.maximum(1, mag)):
            ctx.fail("oracle", "hirshfeld.__call__:sum-one", f"Hirshfeld weights of {m} atoms sum to {total.tolist()}", witness=wit, snippet=_hsnippet(at, nums, pts, tab))
        got = hw(pts, at, nums, np.array(tab))
        own = np.repeat(np.arange(m), np.diff(tab))
        if not np.all(np.abs(got - per[own, np.arange(n)]) <= 1e-13 * np.maximum(1, mag)):
            ctx.fail("oracle", "hirshfeld.__call__:share", f"Hirshfeld call with indices {tab} differs from the per-atom shares", witness=wit, snippet=_hsnippet(at, nums, pts, tab))
        # share = pro-atom / sum of pro-atoms (independent evaluation through the spline of each atom)
        rho = np.array([H.generate_proatom(pts, at[k], nums[k]) for k in range(m)])
        if not np.all(np.abs(per * rho.sum(axis=0) - rho) <= 1e-12 * np.abs(rho).sum(axis=0)):
            ctx.fail("oracle", "hirshfeld.__call__:share", "Hirshfeld weight times pro-molecule density differs from the pro-atom density", witness=wit, snippet=_hsnippet(at, nums, pts, tab))

"""C06 — atom-in-molecule weights form a partition of unity on every geometry."""
import importlib
import math

import numpy as np

from ..common import Ctx, Tokens, b2f, close, driver_batch, f2b, fmat, fvec, vec

LEVEL = "proof"
LEVEL_TEXT = (
    "Lean theorems over the reals for any number of atoms at distinct positions, any positive radii, any switching "
    "order: the generated switching polynomial maps [-1,1] to itself, is odd and fixes +-1; the generated alpha is "
    "antisymmetric and clipped to the generated cutoff < 1/2; mu in [-1,1] (triangle inequality); s_AB in [0,1], "
    "s_AB + s_BA = 1; the cell sum is positive; hence weights in [0,1], sum one, one at the own nucleus and zero at "
    "the others; invariance under distance-preserving maps (isometries of R^3), equivariance under relabelling; the "
    "generate_weights / compute_weights / compute_atom_weight routes agree; the chunked __call__ equals the unchunked "
    "segment-wise evaluation for every chunk size >= 1 and every non-negative index table (any K, no ring laws needed); "
    "on a monotone table from 0 to N each point receives the weight of the atom owning its segment; Hirshfeld weights "
    "are the pro-atom share and the shares sum to one; every element 1..86 (incl. nan radii) gets a positive radius "
    "(kernel-decided on the regenerated table). Tie to the code (round 2): BeckeWeights.__init__, generate_weights, "
    "compute_atom_weight, compute_weights, __call__ and HirshfeldWeights (_load_npz_proatom, _get_proatom_density, "
    "generate_proatom, __call__) are translated statement by statement from the AST on every run (Gen/BeckeRoutes.lean, "
    "Gen/Hirshfeld.lean) and PROVED equal to the hand model the clauses are stated on (generate_weights_generated, "
    "compute_weights_generated, compute_atom_weight_generated, call_generated, hirshfeld_generated, radius_generated, "
    "init_generated, init_default_dict), so every clause is a theorem about the regenerated text; the arguments of every "
    "call between the routines (order= / cutoff= / select= / pt_ind=) are bound against the callee's signature and are "
    "generated text (routes_formula_agree, routes_pass_order, caw_cutoff_parameter_unused depend on them). For an explicit "
    "select both segment-wise routes have their general formula proved (generate_select_formula: atom select[i] on sector "
    "i; compute_select_formula: atom i on sector i once per occurrence, compute_select_perm: order of select irrelevant). "
    "Only the NumPy array pipeline n_p .. np.prod (text-pinned, read entry by entry), SciPy's CubicSpline and the file "
    "contents (named primitives) are tied by the differential run alone. Round 3: grid.utils.get_cov_radii and the tables _bragg, "
    "_cambridge, _alvarez it selects from are regenerated (Gen/CovRadii.lean): get_cov_radii_generated (zero rejected first, the three "
    "selections, exact spelling, NumPy indexing incl. negative indices), get_cov_radii_bragg_eq + init_reads_generated_table (the call made "
    "by __init__, with the generated default cov_type, returns the dictionary values of the radius theorems), cov_tables_shape and "
    "cov_radii_positive_other (kernel-decided: lengths, nan exactly at He Ne Ar Kr Xe At Rn, every other entry positive); "
    "alpha_raw_closed_form / alpha_clip_window state the clipping window on the regenerated cutoff 9/20."
)
TECHNIQUE = "Lean 4 proof (generated formulas + hand model of the array code) + differential correspondence + oracle on the implementation"
GEN = ["becke", "becke_routes", "hirshfeld", "covradii"]
LEAN_MODULES = ["GridVerif.Props.C06", "GridVerif.Props.C06.Index", "GridVerif.Props.C06.Radii", "GridVerif.Props.C06.Routes",
                "GridVerif.Props.C06.Select", "GridVerif.Props.C06.Init", "GridVerif.Props.C06.CallGen", "GridVerif.Props.C06.Hirshfeld",
                "GridVerif.Props.C06.CovRadii", "GridVerif.Props.C06.Window", "GridVerif.Props.C06.Clauses"]
THEOREMS = [
    "GridVerif.C06.switch_maps_unit",
    "GridVerif.C06.switch_lt_one",
    "GridVerif.C06.cutoff_lt_half",
    "GridVerif.C06.alpha_antisymm_clipped",
    "GridVerif.C06.nu_in_unit",
    "GridVerif.C06.mu_bounds",
    "GridVerif.C06.s_pair",
    "GridVerif.C06.cell_sum_pos",
    "GridVerif.C06.weights_in_unit",
    "GridVerif.C06.weights_sum_one",
    "GridVerif.C06.weight_at_nuclei",
    "GridVerif.C06.rigid_motion_invariant",
    "GridVerif.C06.isometry_invariant",
    "GridVerif.C06.relabel_equivariant",
    "GridVerif.C06.routes_formula_agree",
    "GridVerif.C06.routes_agree",
    "GridVerif.C06.per_atom_route",
    "GridVerif.C06.routes_differ_explicit_select",
    "GridVerif.C06.becke_chunked_eq",
    "GridVerif.C06.call_eq_generate",
    "GridVerif.C06.chunk_size_spec",
    "GridVerif.C06.segmentwise_owner",
    "GridVerif.C06.becke_call_partition",
    "GridVerif.C06.hirshfeld_share",
    "GridVerif.C06.hirshfeld_sum_one",
    "GridVerif.C06.bragg_table_good",
    "GridVerif.C06.bragg_radii_positive",
    # round 2: the generated call arguments, the generated routines, explicit select, __init__, Hirshfeld
    "GridVerif.C06.caw_cutoff_parameter_unused",
    "GridVerif.C06.routes_pass_order",
    "GridVerif.C06.radius_generated",
    "GridVerif.C06.generate_weights_generated",
    "GridVerif.C06.generate_weights_key_error",
    "GridVerif.C06.compute_atom_weight_generated",
    "GridVerif.C06.compute_weights_generated",
    "GridVerif.C06.routes_agree_generated",
    "GridVerif.C06.per_atom_route_generated",
    "GridVerif.C06.generate_select_formula",
    "GridVerif.C06.compute_select_formula",
    "GridVerif.C06.compute_select_perm",
    "GridVerif.C06.generate_select_owner",
    "GridVerif.C06.compute_select_owner",
    "GridVerif.C06.init_generated",
    "GridVerif.C06.cov_radii_table",
    "GridVerif.C06.init_default_dict",
    "GridVerif.C06.init_update_lookup",
    "GridVerif.C06.call_generated",
    "GridVerif.C06.becke_call_partition_generated",
    "GridVerif.C06.proatom_files",
    "GridVerif.C06.hirshfeld_generated",
    "GridVerif.C06.hirshfeld_share_generated",
    "GridVerif.C06.hirshfeld_sum_one_generated",
    "GridVerif.C06.hirshfeld_needs_files",
    # round 3: the generated get_cov_radii and its three tables; the clipping window on the regenerated cutoff
    "GridVerif.C06.get_cov_radii_generated",
    "GridVerif.C06.get_cov_radii_bragg_eq",
    "GridVerif.C06.cov_bragg_table_eq",
    "GridVerif.C06.init_reads_generated_table",
    "GridVerif.C06.cov_tables_shape",
    "GridVerif.C06.cov_radii_positive_other",
    "GridVerif.C06.alpha_raw_closed_form",
    "GridVerif.C06.alpha_clip_window",
    # round 6: clauses that stored seeded changes violated (C06-f early return on all-zero points, C06-i break at an empty sector)
    "GridVerif.C06.compute_atom_weight_pointwise",
    "GridVerif.C06.compute_atom_weight_origin",
    "GridVerif.C06.compute_atom_weight_split",
    "GridVerif.C06.compute_weights_after_empty_segment",
]
RULE = (
    "correspondence: molecules with 1..13 atoms (1..4 always; one with 40, thorough: 100+), atomic numbers 1..86 incl. "
    "nan-radius elements (He, Ne, Ar, Kr, Xe, At, Rn) and user radius dictionaries, nuclei at nearly the same position "
    "(1e-2..1e-7), points at nuclei / on bond axes / far (1e2..1e6) / random, orders 0..5, random monotone segmentations "
    "(incl. empty segments) and a malformed stream (non-monotone, negative, over-long tables, permuted / truncated / "
    "out-of-range explicit select); every route (generate_weights, compute_weights, compute_atom_weight incl. its cutoff "
    "parameter, __call__ with the recorded chunk trace) through the GENERATED routines on the object built by the "
    "generated __init__, part of them also through the hand model; __init__ with int / bool / np.int64 / float / None "
    "orders, dictionaries with int / bool / np.int64 / float / str keys, non-dictionaries; Hirshfeld.__call__ through the "
    "generated call with independently evaluated splines of every shipped file, elements without file, non-int64 "
    "dtypes, bad tables; array kinds (float32, Fortran order, non-contiguous, read-only, int32/uint8/float atnums, "
    "int32 indices, tuple/ndarray pt_ind, np.int64 select; lists as information) against the float64/int64 call; one "
    "BeckeWeights / HirshfeldWeights object reused over several molecules in shuffled order (same sizes, other "
    "elements) against fresh objects and the stateless model; the generated formulas (switch, alpha, chunk size, radii). "
    "Round 3: grid.utils.get_cov_radii (three selections, default, rejected spellings, zero, integer scalars of every kind, lists / "
    "arrays with negative and out-of-range entries) bit for bit against the GENERATED function on the regenerated tables, the "
    "array handed out scribbled on and the call repeated; every route on systems shifted by exactly representable 2^10..2^20 and "
    "by moderate non-representable vectors, on geometries scaled by 1e-12..1e12 / 2^+-40, on user radii scaled by 1e-12..1e12 / "
    "2^+-500, radii 5e-324 / 1e-300 / 1e300 next to ordinary ones, radius ratios with raw alpha = 0.45 f for f on both sides of the "
    "cutoff within 1.01, 1.0001, 1e-12 and 100 (window theorem alpha_clip_window); dictionary values -0.0 / 5e-324 / 1e-300 / 1e300 in "
    "the nan fall-back. Oracle: bit-exact invariance under exact translations (dyadic data) of generate_weights / compute_atom_weight / "
    "__call__ / Hirshfeld, nuclei clause in the shifted frame, rotation + large / moderate shift within 16 eps |shift| 1.5^order / d_min, "
    "scale invariance in geometry and radii, all clauses on the extreme variants, nuclei 1e-6 apart and mid-points for Hirshfeld; "
    "histories: dictionary edited after the constructor / shared by two objects, results edited in place, alternating cutoff, routes in "
    "every order on one object, get_cov_radii result edited, Hirshfeld object and generate_proatom result reused. "
    "Round 4 (corr and oracle run as independent crash-proof parts): every route (generate_weights select / pt_ind / one sector, "
    "compute_atom_weight whole set / one point at a time / per segment, compute_weights select / pt_ind, __call__) on ONE point, on "
    "2..4 identical points and on segments made of such points with empty segments beside them, the points at the Cartesian origin "
    "(0.0 / -0.0 components), on a nucleus, on a nucleus sitting at the origin, at a mid-point, with a zero component; molecules "
    "with an atom exactly at the origin, lattice coordinates with many exact zeros, signed zeros; atoms x points in {1..4}^2 (equal "
    "and unequal) -- against the generated model (correspondence) and, in the oracle, against generate_weights and an independent "
    "scalar Becke reference (plain Python floats, one point at a time); argument forms (positional / keyword / omitted / explicit "
    "None / explicit default, select and pt_ind both given, documented rejections), all arguments as views into one larger caller "
    "array used for several requests (bytes around the views unchanged), points is atcoords, rejected calls of every kind issued "
    "twice followed by accepted ones on the same objects, radii given as int / np.int64 / np.float64 / 0-d / float32, "
    "strided / negative-stride / read-only / Fortran / integer-dtype coordinates. "
    "Round 5: point counts 1025 / 4097 and 20001 / 31234 / 65537 (thorough: all five and 2^19+1, 2^19+1+r) with 2..7 atoms: every route "
    "among themselves, f(all) = concat(f(part1), f(part2)) at cuts off every block boundary, reversed / shuffled / sorted points, "
    "brute-force scalar reference at the first / last elements and around every chunk / 2^k / 10^k boundary, Hirshfeld on the same "
    "points; points / atcoords given as longdouble, float32, float16 (exactly representable data: float64 answer on the same values, "
    "to the narrower precision, result float64, second call equal, arguments unchanged), radii as longdouble / float16, atomic numbers "
    "of every integer width; ONE object per argument edited in place between calls of the same route (points, atcoords, atnums, "
    "indices, the radii dictionary between constructions) against fresh copies; two instances differing in one radius / the order / "
    "dictionary or none / one Hirshfeld element, interleaved, against fresh-process references. "
    "non-trivial = >=4 atoms with >=2 chunks, or a clipped heteronuclear pair, or a nan-radius element, or a point on a nucleus"
)
TRUSTED_BASE = [
    "Lean 4.33 kernel; axioms propext, Classical.choice, Quot.sound only (audited per theorem)",
    "translators harness/translate/becke.py (formulas, call arguments), becke_routes.py (__init__, the four routines, radius "
    "comprehension, statement by statement), hirshfeld.py (all four methods) and covradii.py (get_cov_radii, the three tables as "
    "loaded; primitives Model/CovRadiiPy.lean: NumPy integer indexing); the driver runs the generated definitions, "
    "so a translator error shows as a disagreement with the implementation",
    "primitives Model/BeckePy.lean (pyGetItem, pyRange, npSliceAddInto, npSliceSet, npColDivRowSum, dictionaries, f-string "
    "formatting) and the entry-wise reading `cellTab` of the text-pinned array pipeline (Model/Becke.lean: nan->1 as 'skip B = A'), "
    "tied by correspondence",
    "named, unmodelled primitives: np.load of the pro-atom files, scipy CubicSpline(bc_type='natural', extrapolate=True) (the "
    "Hirshfeld theorems hold for every file content and every spline)",
    "Elem instance of the reals: sqrt = Real.sqrt; distance = Euclidean distance of R^3 (bridge lemma dist3_eq_dist)",
    "NumPy broadcasting / slicing / np.prod / np.sum / np.linalg.norm semantics as modelled",
]
ASSUMPTIONS = [
    "nuclei at pairwise distinct positions, effective radii positive (proved for the shipped table; a user dictionary must be positive)",
    "exact real arithmetic in the theorems; IEEE rounding only through the tolerance of the correspondence (1e-10 on weights, "
    "scaled by distance / smallest inter-nuclear distance for far points and nearly coincident nuclei)",
    "points.shape[0] >= 1 for __call__ (np.concatenate of an empty list raises ValueError; modelled and compared)",
    "select entries and atomic numbers are non-negative integers in the model (Python's negative indexing of select is not modelled); "
    "user dictionaries have no negative keys (hypothesis of radius_generated)",
    "route equality is claimed for the default select; for an explicit select the two routes differ by design of the code "
    "(general formulas proved for both; reported as info)",
    "the cutoff parameter of compute_atom_weight has no effect in the code as it is (caw_cutoff_parameter_unused; outside the wording of C06)",
    "array arguments are ndarrays as documented ((N,3) points, (M,3) atcoords, (M,) atnums, (M+1,) indices); lists are rejected by some "
    "routes and a single point of shape (3,) is broadcast to three equal weights (information only); atcoords given in float32 make the "
    "inter-nuclear distances single precision (recorded deviation ~1e-8, clauses unaffected)",
    "Hirshfeld: promolecule != 0 at the point; atnums of dtype int64 (anything else is rejected by the code with TypeError)",
]

NAN_Z = [2, 10, 18, 36, 54, 85, 86]


# ----------------------------------------------------------------------------------------------
# input generation
# ----------------------------------------------------------------------------------------------
def _geometry(rng, m):
    """m distinct positions, nearest-neighbour distance >= 0.6."""
    pos = []
    kind = rng.random()
    while len(pos) < m:
        if kind < 0.15 and pos:      # linear chain piece
            c = pos[-1] + np.array([rng.uniform(0.8, 3.0), 0.0, 0.0])
        elif kind < 0.3:            # lattice-like, exactly representable coordinates
            c = np.array([rng.randrange(-3, 4), rng.randrange(-3, 4), rng.randrange(-3, 4)], dtype=float) * 1.5
        else:
            c = np.array([rng.gauss(0, 1.0 + 0.5 * m ** (1 / 3)) for _ in range(3)]) * 1.8
        if all(np.linalg.norm(c - q) >= 0.6 for q in pos):
            pos.append(c)
    return np.array(pos).reshape(m, 3)


def _points(rng, at, n):
    m = len(at)
    pts = []
    for _ in range(n):
        u = rng.random()
        a = at[rng.randrange(m)]
        if u < 0.18:
            pts.append(a.copy())                                        # on a nucleus
        elif u < 0.30 and m >= 2:
            b = at[rng.randrange(m)]
            t = rng.choice([0.5, -0.7, 1.6, rng.uniform(-1, 2)])
            pts.append(a + t * (b - a))                                 # on a bond axis (mu = +-1 outside the bond)
        elif u < 0.42:
            d = np.array([rng.gauss(0, 1) for _ in range(3)])
            d /= np.linalg.norm(d)
            pts.append(a + d * 10 ** rng.uniform(2, 6))                 # far
        elif u < 0.5:
            d = np.array([rng.gauss(0, 1) for _ in range(3)])
            pts.append(a + d * 10 ** rng.uniform(-9, -2))               # very close to a nucleus
        else:
            pts.append(a + np.array([rng.gauss(0, 2.0) for _ in range(3)]))
    return np.array(pts).reshape(n, 3)


def _table(rng, n, m):
    """monotone index table 0 = t0 <= ... <= tm = n, empty segments allowed."""
    cuts = sorted(rng.randrange(0, n + 1) for _ in range(m - 1))
    return [0] + cuts + [n]


def _molecule(ctx: Ctx, m=None, n=None, close=None):
    rng = ctx.rng
    if m is None:
        m = rng.choice([1, 2, 3, 4, 5, 6, 7, 8, 9, 10, 11, 12, 13])
    at = _geometry(rng, m)
    if close is not None and m >= 2:
        # two nuclei at nearly the same (but distinct) position
        i, j = rng.sample(range(m), 2)
        d = np.array([rng.gauss(0, 1) for _ in range(3)])
        at[j] = at[i] + d / np.linalg.norm(d) * close
    nums = []
    for _ in range(m):
        u = rng.random()
        nums.append(rng.choice(NAN_Z) if u < 0.2 else (rng.choice([1, 6, 7, 8, 3, 55, 19, 9]) if u < 0.5 else rng.randrange(1, 87)))
    order = rng.choice([1, 2, 3, 3, 3, 4, 5, 0])
    over = {}
    if rng.random() < 0.12:
        for z in rng.sample(sorted(set(nums)), k=min(len(set(nums)), rng.choice([1, 2]))):
            over[int(z)] = rng.choice([rng.uniform(0.3, 5.0), 1.0, float("nan") if z >= 3 else 0.7])
    if over and not _radii_positive(nums, over):
        over = {z: v for z, v in over.items() if v == v}      # a nan chain down to radius 0 is outside the assumptions
    if n is None:
        n = rng.choice([0, 1, 2, 3, 5, 8, 13, 21, 34]) if m <= 6 else rng.choice([1, 2, 4, 7, 12, 19, 30])
    pts = _points(rng, at, n)
    return dict(at=at, nums=np.array(nums, dtype=int), order=order, over=over, pts=pts)


def _mol_tokens(mol):
    over = mol["over"]
    ov = " ".join([str(len(over))] + [f"{z} {f2b(v)}" for z, v in over.items()])
    return f"{mol['order']} {vec(mol['nums'])} {ov} {fmat(mol['at'])}"


def _pts_tokens(pts):
    return f"{len(pts)} 3 " + " ".join(f2b(x) for x in np.asarray(pts, dtype=float).reshape(-1)) if len(pts) else "0 3"


def _opt(xs):
    return "-" if xs is None else vec(xs)


def _becke(mod, mol, cls=None):
    cls = cls or mod.BeckeWeights
    return cls(radii=mol["over"] or None, order=mol["order"])


ERR = {ValueError: "value-error", IndexError: "index-error", KeyError: "key-error", ZeroDivisionError: "zero-division-error"}


def _run(fn):
    """-> ('ok', np.array) or (error tag, None)"""
    try:
        return "ok", np.asarray(fn(), dtype=float)
    except tuple(ERR) as e:
        for k, v in ERR.items():
            if isinstance(e, k):
                return v, None
        raise


def _parse(ans):
    if not ans.startswith("ok"):
        return ans, None
    t = Tokens(ans)
    t.tok()
    return "ok", np.array(t.fvec(), dtype=float)


def _parse_mat(ans):
    if not ans.startswith("ok"):
        return ans, None
    t = Tokens(ans)
    t.tok()
    r = t.nat()
    c = t.nat()
    return "ok", np.array([b2f(t.tok()) for _ in range(r * c)], dtype=float).reshape(r, c)


def _same(a, b, tol):
    (ta, xa), (tb, xb) = a, b
    if ta != tb:
        return False
    if xa is None:
        return True
    if xa.size == 0 and xb.size == 0:
        return True
    if xa.shape != xb.shape:
        return False
    both_nan = np.isnan(xa) & np.isnan(xb)
    d = np.abs(xa - xb)
    d[both_nan] = 0.0
    return bool(np.all(d <= tol))


def _tol(mol):
    """1e-10 on weights; far points lose digits in |R_A-p| - |R_B-p| (both sides round alike, but one ulp of
    a libm/summation difference is amplified by distance / bond length)."""
    at, pts = mol["at"], mol["pts"]
    if len(pts) == 0:
        return 1e-10
    far = float(np.max(np.linalg.norm(pts[:, None] - at, axis=-1)))
    tol = 1e-10 * max(1.0, far * 1e-3)
    if len(at) >= 2:
        d = np.linalg.norm(at[:, None] - at, axis=-1)
        dmin = float(np.min(d[~np.eye(len(at), dtype=bool)]))
        if dmin < 0.5:
            tol = max(tol, 1e-13 * max(far, 1.0) / dmin)
    return tol


def _nontrivial(mol, nchunks=1):
    at, nums, pts = mol["at"], mol["nums"], mol["pts"]
    if len(at) >= 4 and nchunks >= 2:
        return True
    if any(int(z) in NAN_Z for z in nums):
        return True
    if len(pts) and len(at) >= 2 and np.any(np.min(np.linalg.norm(pts[:, None] - at, axis=-1), axis=1) == 0.0):
        return True
    return len(set(int(z) for z in nums)) >= 2 and _has_clipped(nums)


_BR = None


def _radii_positive(nums, over):
    """does every atom get a positive radius from the dictionary updated with `over`?"""
    global _BR
    if _BR is None:
        from grid.becke import BeckeWeights

        _BR = BeckeWeights()._radii
    d = dict(_BR)
    d.update(over)
    for z in nums:
        z = int(z)
        r = d.get(z, float("nan"))
        if r != r:
            r = float(np.nan_to_num(d.get(z - 1, float("nan")))) or float(np.nan_to_num(d.get(z - 2, float("nan"))))
        if not r > 0:
            return False
    return True


def _has_clipped(nums):
    global _BR
    if _BR is None:
        from grid.becke import BeckeWeights

        _BR = BeckeWeights()._radii
    rs = []
    for z in nums:
        r = _BR[int(z)]
        if r != r:
            r = _BR[int(z) - 1] if _BR[int(z) - 1] == _BR[int(z) - 1] else _BR[int(z) - 2]
        rs.append(r)
    for a in rs:
        for b in rs:
            u = (a - b) / (a + b)
            if u != 0 and abs(u / (u * u - 1)) > 0.45:
                return True
    return False


# ----------------------------------------------------------------------------------------------
# correspondence
# ----------------------------------------------------------------------------------------------
def _corr_formulas(ctx: Ctx, mod):
    B = mod.BeckeWeights
    rng = ctx.rng
    lines, want, what = [], [], []
    # switching function
    xs = [-1.0, 1.0, 0.0, 0.5, -0.25, 1.0 + 1e-9, -1.0 - 1e-9] + [rng.uniform(-1, 1) for _ in range(ctx.n(40, 400))]
    for x in xs:
        for order in (0, 1, 2, 3, 4, 5, rng.randrange(6, 12)):
            lines.append(f"C06.switch {f2b(x)} {order}")
            want.append(float(B._switch_func(np.float64(x), order=order)))
            what.append(("switch", x, order))
    # alpha incl. clipping, for radii of the table and random ones
    rad = B()._radii
    good = [float(r) for r in rad.values() if r == r]
    for _ in range(ctx.n(150, 2000)):
        ra, rb = (rng.choice(good), rng.choice(good)) if rng.random() < 0.6 else (rng.uniform(0.2, 5), rng.uniform(0.2, 5))
        if rng.random() < 0.1:
            rb = ra
        lines.append(f"C06.alpha {f2b(ra)} {f2b(rb)}")
        want.append(float(B._calculate_alpha(np.array([ra, rb]))[0, 1]))
        what.append(("alpha", ra, rb))
    for _ in range(ctx.n(30, 300)):
        c = rng.choice([0.45, 0.3, 0.5, rng.uniform(0.01, 1.0)])
        # alpha = u/(u^2-1) is inverted to drive `_calculate_alpha(…, cutoff=c)` at a chosen raw alpha
        u = rng.uniform(-0.95, 0.95)
        ra, rb = 1.0 + u, 1.0 - u
        arr = np.array([ra, rb])
        uab = ((arr[:, None] - arr) / (arr[:, None] + arr))[0, 1]
        raw = float(uab / (uab**2 - 1))
        lines.append(f"C06.alphaclip {f2b(raw)} {f2b(c)}")
        want.append(float(B._calculate_alpha(np.array([ra, rb]), cutoff=c)[0, 1]))
        what.append(("alphaclip", ra, rb, c))
    ans = driver_batch(lines)
    for ln, w, wh, a in zip(lines, want, what, ans):
        ctx.count(list(wh), nontrivial=False, tag="gen:" + wh[0])
        ok = a.startswith("ok ") and close(b2f(a.split()[1]), w, rtol=1e-12, scale=max(1.0, abs(w)))
        if not ok:
            ctx.fail("corr", f"gen:{wh[0]}", f"generated {wh[0]}{wh[1:]}: implementation {w!r}, model {a if not a.startswith('ok ') else b2f(a.split()[1])!r}",
                     witness={"op": ln, "impl": w, "model": a})
    # radii of the dictionary
    lines = [f"C06.radius {z} 0" for z in range(0, 89)]
    ans = driver_batch(lines)
    for z, a in zip(range(0, 89), ans):
        ctx.count(["radius", z], nontrivial=z in NAN_Z, tag="gen:radius")
        if z not in rad:
            ok = a == "key-error"
            w = "key-error"
        else:
            r = rad[z]
            if r != r:
                r = np.nan_to_num(rad[z - 1]) or np.nan_to_num(rad[z - 2])
            w = float(r)
            ok = a.startswith("ok ") and b2f(a.split()[1]) == w
        if not ok:
            ctx.fail("corr", "gen:radius", f"radius used for Z={z}: implementation {w}, model {a}", witness={"Z": z})


class _Trace:
    """records the generate_weights calls made by __call__"""

    def __init__(self, mod):
        outer = self

        class Rec(mod.BeckeWeights):
            def generate_weights(self, points, atcoords, atnums, *, select=None, pt_ind=None):
                outer.calls.append((len(points), None if pt_ind is None else [int(v) for v in pt_ind]))
                return super().generate_weights(points, atcoords, atnums, select=select, pt_ind=pt_ind)

        self.cls = Rec
        self.calls = []


def _corr_molecules(ctx: Ctx, mod, hmod):
    rng = ctx.rng
    nmol = ctx.n(400, 6000)
    mols = [_molecule(ctx, m=m) for m in (1, 1, 2, 2, 2, 3, 3, 4, 4, 5)] + [_molecule(ctx) for _ in range(nmol)]
    # many points with >= 4 atoms: several chunks
    mols += [_molecule(ctx, m=rng.choice([4, 5, 7, 9, 13]), n=rng.choice([40, 75, 120])) for _ in range(ctx.n(10, 150))]
    # two nuclei at nearly the same position (distinct): distances 1e-2 .. 1e-7
    mols += [_molecule(ctx, m=rng.choice([2, 3, 5]), n=rng.choice([3, 8]), close=10.0 ** -rng.choice([2, 4, 6, 7])) for _ in range(ctx.n(8, 80))]
    # many atoms: chunk size 1 for every chunk (10 * npoints // natom**2 == 0)
    mols += [_molecule(ctx, m=40, n=5)]
    if ctx.thorough:
        mols += [_molecule(ctx, m=rng.choice([100, 130]), n=rng.choice([3, 9])) for _ in range(2)]
    tr = _Trace(mod)
    jobs = []  # (line, impl result, key, description, tolerance, case, nontrivial, tag)
    for mol in mols:
        at, nums, pts, m, n = mol["at"], mol["nums"], mol["pts"], len(mol["at"]), len(mol["pts"])
        mt, pt = _mol_tokens(mol), _pts_tokens(pts)
        tol = _tol(mol)
        try:
            b = _becke(mod, mol)
            bt = _becke(mod, mol, tr.cls)
        except Exception as e:  # constructor rejects the dictionary
            ctx.info(f"constructor raised {type(e).__name__} for radii {mol['over']}")
            continue
        case = {"atnums": nums, "atcoords": at, "order": mol["order"], "radii": mol["over"], "npoints": n, "points": pts}
        # -- all cell values, both copies of the formulas
        for route, fn in (("gw", lambda k: b.generate_weights(pts, at, nums, select=k)),
                          ("caw", lambda k: b.compute_atom_weight(pts, at, nums, k))):
            r = _run(lambda: np.array([fn(k) for k in range(m)]).T.reshape(n, m))
            jobs.append((f"C06.weights {route} {mt} {pt}", r, f"weights:{route}", f"{route} all atoms", tol, case, _nontrivial(mol), f"weights:{route}:M={m}", "mat"))
        # -- segment-wise routes on a random monotone table
        tab = _table(rng, n, m)
        r = _run(lambda: b.generate_weights(pts, at, nums, pt_ind=tab))
        jobs.append((f"C06.generate {mt} {pt} - {vec(tab)}", r, "generate_weights", f"pt_ind={tab}", tol, case, _nontrivial(mol), "generate:table", "vec"))
        r = _run(lambda: b.compute_weights(pts, at, nums, pt_ind=tab))
        jobs.append((f"C06.compute {mt} {pt} - {vec(tab)}", r, "compute_weights", f"pt_ind={tab}", tol, case, _nontrivial(mol), "compute:table", "vec"))
        k = rng.randrange(m)
        r = _run(lambda: b.generate_weights(pts, at, nums, select=k))
        jobs.append((f"C06.generate {mt} {pt} i {k} -", r, "generate_weights:select", f"select={k}", tol, case, _nontrivial(mol), "generate:select", "vec"))
        r = _run(lambda: b.generate_weights(pts, at, nums, select=np.int64(k), pt_ind=[0, n]))
        jobs.append((f"C06.generate {mt} {pt} i {k} 2 0 {n}", r, "generate_weights:select", f"select=np.int64({k}), pt_ind=[0, {n}]", tol, case, _nontrivial(mol), "generate:select:one-sector", "vec"))
        r = _run(lambda: b.compute_weights(pts, at, nums, select=[k]))
        jobs.append((f"C06.compute {mt} {pt} 1 {k} -", r, "compute_weights:select", f"select=[{k}]", tol, case, _nontrivial(mol), "compute:select", "vec"))
        r = _run(lambda: b.compute_atom_weight(pts, at, nums, k))
        jobs.append((f"C06.atom {mt} {pt} {k}", r, "compute_atom_weight", f"select={k}", tol, case, _nontrivial(mol), "atom", "vec"))
        # the `cutoff` parameter of compute_atom_weight (positional and keyword): what it is passed on to is generated text
        cut = rng.choice([0.2, 0.3, 0.45, 0.49, rng.uniform(0.05, 0.6)])
        r = _run((lambda: b.compute_atom_weight(pts, at, nums, k, cut)) if rng.random() < 0.5 else (lambda: b.compute_atom_weight(pts, at, nums, k, cutoff=cut)))
        jobs.append((f"C06.atom {mt} {pt} {k} {f2b(cut)}", r, "compute_atom_weight:cutoff", f"select={k} cutoff={cut}", tol, case, _nontrivial(mol), "atom:cutoff", "vec"))
        # the hand model of the same routines (proved equal to the generated ones) on part of the molecules
        if rng.random() < 0.3:
            r = _run(lambda: b.generate_weights(pts, at, nums, pt_ind=tab))
            jobs.append((f"C06.hgenerate {mt} {pt} - {vec(tab)}", r, "generate_weights:hand-model", f"pt_ind={tab}", tol, case, False, "hand:generate", "vec"))
            r = _run(lambda: b.compute_weights(pts, at, nums, pt_ind=tab))
            jobs.append((f"C06.hcompute {mt} {pt} - {vec(tab)}", r, "compute_weights:hand-model", f"pt_ind={tab}", tol, case, False, "hand:compute", "vec"))
            r = _run(lambda: b(pts, at, nums, np.array(tab)))
            jobs.append((f"C06.hcall {mt} {pt} {vec(tab)}", r, "__call__:hand-model", f"indices={tab}", tol, case, False, "hand:call", "vec"))
        # -- the chunked whole-grid call, with the trace of its chunk calls
        tr.calls = []
        r = _run(lambda: bt(pts, at, nums, np.array(tab)))
        calls = list(tr.calls)
        jobs.append((f"C06.call {mt} {pt} {vec(tab)}", r, "__call__", f"indices={tab}", tol, case, _nontrivial(mol, len(calls)), f"call:chunks={min(len(calls), 9)}", "vec"))
        jobs.append((f"C06.calltrace {n} {m} {vec(tab)}", ("trace", calls), "__call__:trace", f"indices={tab}", 0, case, False, "calltrace", "trace"))
        # -- malformed / unusual stream: both sides must agree, errors included
        if rng.random() < 0.5:
            u = rng.random()
            if u < 0.25:
                t2 = [rng.randrange(0, n + 3) for _ in range(m + 1)]                # not monotone, may exceed n
            elif u < 0.45:
                t2 = [rng.randrange(-n - 2, n + 3) for _ in range(m + 1)]           # negative entries (Python wrap-around)
            elif u < 0.6:
                t2 = _table(rng, n, m)[: rng.randrange(0, m + 1)]                   # too short
            elif u < 0.7:
                t2 = _table(rng, n, m) + [n]                                        # too long
            else:
                t2 = _table(rng, n, m)
                t2[-1] = max(0, n - rng.randrange(0, 3))                            # does not reach n
            sel = None
            if rng.random() < 0.5:
                sel = list(range(m))
                rng.shuffle(sel)
                if rng.random() < 0.3:
                    sel[rng.randrange(m)] = m + rng.randrange(0, 2)
                if rng.random() < 0.2:
                    sel = sel[:-1]
            r = _run(lambda: b.generate_weights(pts, at, nums, select=sel, pt_ind=t2))
            jobs.append((f"C06.generate {mt} {pt} {_opt(sel)} {vec(t2)}", r, "generate_weights:unusual", f"select={sel} pt_ind={t2}", tol, case, False, "generate:unusual:" + r[0], "vec"))
            r = _run(lambda: b.compute_weights(pts, at, nums, select=sel, pt_ind=t2))
            jobs.append((f"C06.compute {mt} {pt} {_opt(sel)} {vec(t2)}", r, "compute_weights:unusual", f"select={sel} pt_ind={t2}", tol, case, False, "compute:unusual:" + r[0], "vec"))
            if all(v >= 0 for v in t2) or rng.random() < 0.5:
                tr.calls = []
                r = _run(lambda: bt(pts, at, nums, np.array(t2, dtype=int)))
                jobs.append((f"C06.call {mt} {pt} {vec(t2)}", r, "__call__:unusual", f"indices={t2}", tol, case, False, "call:unusual:" + r[0], "vec"))
    answers = driver_batch([j[0] for j in jobs])
    maxdev = 0.0
    for (line, impl, key, desc, tol, case, nontriv, tag, kind), ans in zip(jobs, answers):
        case2 = dict(case, op=key, arg=desc)
        ctx.count(case2, nontrivial=nontriv, tag=tag)
        if kind == "trace":
            calls = impl[1]
            ok = ans.startswith("ok ")
            got = None
            if ok:
                t = Tokens(ans)
                t.tok()
                got = []
                for _ in range(t.nat()):
                    bb = t.nat()
                    ln = t.nat()
                    got.append((bb, ln, t.vec(int)))
                starts = np.cumsum([0] + [c[0] for c in calls])[:-1]
                ok = [(g[1], g[2]) for g in got] == [(c[0], c[1]) for c in calls] and [g[0] for g in got] == [int(s) for s in starts]
            ctx.traces += 1
            if not ok:
                ctx.fail("corr", "becke.__call__:trace", f"chunk calls of __call__ ({desc}, {case['npoints']} points, {len(case['atnums'])} atoms): implementation {calls[:4]}…, model {got[:4] if got else ans}…",
                         witness=dict(case2, impl=calls, model=got if got is not None else ans))
            continue
        model = _parse_mat(ans) if kind == "mat" else _parse(ans)
        if impl[1] is not None and model[1] is not None and impl[1].shape == model[1].shape and impl[1].size:
            dd = np.abs(impl[1] - model[1])
            if not np.all(np.isnan(dd)):
                maxdev = max(maxdev, float(np.nanmax(dd)))
        if not _same(impl, model, tol):
            dev = None
            if impl[1] is not None and model[1] is not None and impl[1].shape == model[1].shape and impl[1].size:
                dev = float(np.nanmax(np.abs(impl[1] - model[1])))
            ctx.fail("corr", f"becke.{key}", f"{key} ({desc}; {len(case['atnums'])} atoms, {case['npoints']} points, order {case['order']}): implementation {impl[0]}, model {model[0]}, max deviation {dev}",
                     witness=dict(case2, impl=impl[1], model=model[1], line=line[:3000]))


    return maxdev


def _hirshfeld_case(ctx: Ctx, hmod, m=None):
    rng = ctx.rng
    m = m or rng.randrange(1, 7)
    at = _geometry(rng, m)
    nums = np.array([rng.choice([1, 6, 7, 8]) for _ in range(m)], dtype=int)
    n = rng.choice([1, 2, 5, 9, 17])
    pts = []
    for _ in range(n):
        a = at[rng.randrange(m)]
        u = rng.random()
        d = np.array([rng.gauss(0, 1) for _ in range(3)])
        d /= np.linalg.norm(d)
        if u < 0.1:
            pts.append(a.copy())                                    # on a nucleus (first knot of the spline)
        elif u < 0.3:
            pts.append(a + d * 10 ** rng.uniform(-3, -1))           # between the first knots (boundary condition of the spline)
        elif u < 0.4:
            pts.append(a + d * rng.uniform(8, 15))                  # tail
        elif u < 0.5:
            pts.append(a + d * 10 ** rng.uniform(1.6, 3.5))         # far point: 40 .. 3000 bohr, beyond the tabulated range of every pro-atom (90 .. 125 bohr)
        else:
            pts.append(a + np.array([rng.gauss(0, 0.9) for _ in range(3)]))
    pts = np.array(pts).reshape(n, 3)
    return at, nums, pts, _table(rng, n, m)


def _corr_hirshfeld(ctx: Ctx, hmod):
    H = hmod.HirshfeldWeights
    jobs = []
    for i in range(ctx.n(25, 400)):
        at, nums, pts, tab = _hirshfeld_case(ctx, hmod, m=(i % 4) + 1 if i < 8 else None)
        if ctx.rng.random() < 0.2:
            tab = [ctx.rng.randrange(0, len(pts) + 2) for _ in tab]
        rho = np.array([H.generate_proatom(pts, at[i], nums[i]) for i in range(len(at))])
        r = _run(lambda: H()(pts, at, nums, np.array(tab)))
        jobs.append((f"C06.hirshfeld {fmat(rho)} {vec(tab)}", r, dict(atnums=nums, atcoords=at, points=pts, indices=tab)))
    ans = driver_batch([j[0] for j in jobs])
    for (line, impl, case), a in zip(jobs, ans):
        ctx.count(dict(case, op="hirshfeld"), nontrivial=len(case["atnums"]) >= 2, tag=f"hirshfeld:M={len(case['atnums'])}")
        model = _parse(a)
        ok = impl[0] == model[0] and (impl[1] is None or (impl[1].shape == model[1].shape and all(
            close(x, y, rtol=1e-11, scale=max(1.0, abs(x))) for x, y in zip(impl[1], model[1]))))
        if not ok:
            ctx.fail("corr", "hirshfeld.__call__", f"HirshfeldWeights.__call__ indices={case['indices']}: implementation {impl}, model {model}", witness=case)


def corr(ctx: Ctx):
    mod = importlib.import_module("grid.becke")
    hmod = importlib.import_module("grid.hirshfeld")

    def molecules():
        ctx.extra["max_abs_deviation_model_vs_implementation"] = _corr_molecules(ctx, mod, hmod)

    _run_parts(ctx, "corr", [
        ("becke.formulas", lambda: _corr_formulas(ctx, mod)),
        ("becke.__init__", lambda: _corr_init(ctx, mod)),
        ("becke.molecules", molecules),
        ("becke.degenerate", lambda: _corr_degenerate(ctx, mod)),
        ("hirshfeld", lambda: _corr_hirshfeld(ctx, hmod)),
        ("hirshfeld.generated", lambda: _corr_hirshfeld_gen(ctx, hmod)),
        ("becke.kinds", lambda: _corr_kinds(ctx, mod, hmod)),
        ("becke.reuse", lambda: _corr_reuse(ctx, mod, hmod)),
        ("utils.get_cov_radii", lambda: _corr_covradii(ctx)),
        ("becke.extreme", lambda: _corr_extreme(ctx, mod)),
    ])


# ----------------------------------------------------------------------------------------------
# oracle: the property itself on the implementation
# ----------------------------------------------------------------------------------------------
SNIP_HEAD = """import warnings; warnings.filterwarnings('ignore')
import numpy as np
from grid.becke import BeckeWeights
from grid.hirshfeld import HirshfeldWeights
nan = float('nan')
at = np.array({at!r}, dtype=float).reshape(-1, 3)
nums = np.array({nums!r}, dtype=int)
pts = np.array({pts!r}, dtype=float).reshape(-1, 3)
tab = np.array({tab!r}, dtype=int)
b = BeckeWeights(radii={over!r} or None, order={order})
M, N = len(at), len(pts)
W = np.array([b.generate_weights(pts, at, nums, select=k) for k in range(M)])   # atoms x points
"""

SNIPPETS = {
    "partition": "assert np.all(np.abs(W.sum(axis=0) - 1) <= 1e-12), ('weights do not sum to one', W.sum(axis=0))\n",
    "bounds": "assert np.all(W >= -1e-13) and np.all(W <= 1 + 1e-13), ('weight outside [0,1]', W.min(), W.max())\n",
    "nuclei": "Wn = np.array([b.generate_weights(at, at, nums, select=k) for k in range(M)])\n"
              "assert np.all(np.abs(Wn - np.eye(M)) <= 1e-13), ('weights at the nuclei are not the identity matrix', Wn)\n",
    "routes": "own = np.repeat(np.arange(M), np.diff(tab))\n"
              "ref = W[own, np.arange(N)]\n"
              "for name, got in (('generate_weights', b.generate_weights(pts, at, nums, pt_ind=list(tab))),\n"
              "                  ('compute_weights', b.compute_weights(pts, at, nums, pt_ind=list(tab))),\n"
              "                  ('per-atom', np.concatenate([b.compute_atom_weight(pts[tab[k]:tab[k+1]], at, nums, k) for k in range(M)])),\n"
              "                  ('__call__', b(pts, at, nums, tab))):\n"
              "    assert got.shape == ref.shape and np.all(np.abs(got - ref) <= 1e-13), (name, 'differs from the per-atom values', got, ref)\n",
}


SNIPPETS["rigid-motion"] = (
    "R = np.array({R!r}).reshape(3, 3); t = np.array({t!r}); near = np.array({near!r})\n"
    "W2 = np.array([b.generate_weights(pts[near] @ R.T + t, at @ R.T + t, nums, select=k) for k in range(M)])\n"
    "assert np.all(np.abs(W2 - W[:, near]) <= 1e-9), ('weights change under a rigid motion', np.max(np.abs(W2 - W[:, near])))\n")
SNIPPETS["relabel"] = (
    "perm = {perm!r}\n"
    "W3 = np.array([b.generate_weights(pts, at[perm], nums[perm], select=k) for k in range(M)])\n"
    "assert np.all(np.abs(W3 - W[perm]) <= 1e-12), ('weights change under relabelling', np.max(np.abs(W3 - W[perm])))\n")

HSNIP = """import warnings; warnings.filterwarnings('ignore')
import numpy as np
from grid.hirshfeld import HirshfeldWeights as H
at = np.array({at!r}, dtype=float).reshape(-1, 3); nums = np.array({nums!r}, dtype=int)
pts = np.array({pts!r}, dtype=float).reshape(-1, 3); tab = np.array({tab!r}, dtype=int)
M, N = len(at), len(pts)
per = np.array([H()(pts, at, nums, np.array([0] * (k + 1) + [N] * (M - k))) for k in range(M)])
mag = np.maximum(1, np.abs(per).sum(axis=0))
assert np.all(np.abs(per.sum(axis=0) - 1) <= 1e-12 * mag), ('Hirshfeld weights do not sum to one', per.sum(axis=0))
own = np.repeat(np.arange(M), np.diff(tab))
assert np.all(np.abs(H()(pts, at, nums, tab) - per[own, np.arange(N)]) <= 1e-13 * mag), 'call differs from the per-atom shares'
rho = np.array([H.generate_proatom(pts, at[k], nums[k]) for k in range(M)])
assert np.all(np.abs(per * rho.sum(axis=0) - rho) <= 1e-12 * np.abs(rho).sum(axis=0)), 'weight * promolecule != proatom'
"""


def _hsnippet(at, nums, pts, tab):
    return HSNIP.format(at=at.reshape(-1).tolist(), nums=[int(z) for z in nums], pts=pts.reshape(-1).tolist(), tab=[int(v) for v in tab])


def _snippet(mol, tab, body):
    return SNIP_HEAD.format(at=mol["at"].reshape(-1).tolist(), nums=[int(z) for z in mol["nums"]], pts=mol["pts"].reshape(-1).tolist(),
                            tab=[int(t) for t in tab], over=mol["over"], order=mol["order"]) + body


def _rotation(rng):
    q = np.array([rng.gauss(0, 1) for _ in range(4)])
    q /= np.linalg.norm(q)
    a, b, c, d = q
    R = np.array([[a * a + b * b - c * c - d * d, 2 * (b * c - a * d), 2 * (b * d + a * c)],
                  [2 * (b * c + a * d), a * a - b * b + c * c - d * d, 2 * (c * d - a * b)],
                  [2 * (b * d - a * c), 2 * (c * d + a * b), a * a - b * b - c * c + d * d]])
    if rng.random() < 0.5:
        R = -R                                                                     # improper: reflections are isometries too
    return R


def _oracle_molecule(ctx: Ctx, mod, mol, tab, motions=True, kinds=False):
    """the clauses of C06 on one molecule / point set / segmentation, on the implementation"""
    rng = ctx.rng
    at, nums, pts, m, n = mol["at"], mol["nums"], mol["pts"], len(mol["at"]), len(mol["pts"])
    b = _becke(mod, mol)
    W = np.array([b.generate_weights(pts, at, nums, select=k) for k in range(m)])
    wit = dict(atnums=nums, atcoords=at, points=pts, order=mol["order"], radii=mol["over"])
    # partition of unity, bounds
    s = W.sum(axis=0)
    if not np.all(np.abs(s - 1) <= 1e-12):
        j = int(np.nanargmax(np.abs(s - 1))) if not np.all(np.isnan(s)) else 0
        ctx.fail("oracle", "becke.generate_weights:partition", f"Becke weights of {m} atoms sum to {s[j]!r} at point {pts[j].tolist()} (order {mol['order']})",
                 witness=dict(wit, point=pts[j], sum=s[j]), snippet=_snippet(mol, tab, SNIPPETS["partition"]))
    if not (np.all(W >= -1e-13) and np.all(W <= 1 + 1e-13)):
        ctx.fail("oracle", "becke.generate_weights:bounds", f"Becke weight outside [0,1]: min {np.nanmin(W)!r}, max {np.nanmax(W)!r} ({m} atoms, order {mol['order']})",
                 witness=wit, snippet=_snippet(mol, tab, SNIPPETS["bounds"]))
    # nuclei
    Wn = np.array([b.generate_weights(at, at, nums, select=k) for k in range(m)])
    if not np.all(np.abs(Wn - np.eye(m)) <= 1e-13):
        ctx.fail("oracle", "becke.generate_weights:nuclei", f"weights at the nuclei are not 1 (own) / 0 (others) for atnums {nums.tolist()}, order {mol['order']}",
                 witness=dict(wit, weights_at_nuclei=Wn), snippet=_snippet(mol, tab, SNIPPETS["nuclei"]))
    # routes: reference = per-atom column of the owner of each point
    own = np.repeat(np.arange(m), np.diff(tab))
    ref = W[own, np.arange(n)]
    routes = [
        ("becke.generate_weights:segments", lambda: b.generate_weights(pts, at, nums, pt_ind=tab)),
        ("becke.compute_weights:segments", lambda: b.compute_weights(pts, at, nums, pt_ind=tab)),
        ("becke.compute_atom_weight:per-atom", lambda: np.concatenate([b.compute_atom_weight(pts[tab[k]:tab[k + 1]], at, nums, k) for k in range(m)])),
        ("becke.__call__:chunking", lambda: b(pts, at, nums, np.array(tab))),
        # a second call on the same object, after the others (no state may be carried)
        ("becke.__call__:repeated", lambda: b(pts, at, nums, np.array(tab))),
    ]
    if kinds:
        pts32 = pts.astype(np.float32)
        if np.all(pts32.astype(float) == pts):
            routes.append(("becke.__call__:float32-points", lambda: b(pts32, at, nums, np.array(tab, dtype=np.int32))))
        routes.append(("becke.__call__:float-atnums", lambda: b(np.asfortranarray(pts), at, nums.astype(float), np.array(tab))))
    for key, fn in routes:
        try:
            got = np.asarray(fn())
            ok = got.shape == ref.shape and bool(np.all(np.abs(got - ref) <= 1e-13))
            what = "" if ok else f"max deviation {float(np.max(np.abs(got - ref))) if got.shape == ref.shape else 'shape ' + str(got.shape)}"
        except Exception as e:
            ok, what = False, f"raised {type(e).__name__}: {e}"
        if not ok:
            ctx.fail("oracle", key, f"{key.split('.', 1)[1]} differs from the per-atom weights on {m} atoms, {n} points, indices {tab}, order {mol['order']}: {what}",
                     witness=dict(wit, indices=tab), snippet=_snippet(mol, tab, SNIPPETS["routes"]))
    if not motions:
        return
    # rigid motion (rotation or rotoreflection + translation), relabelling
    R, t = _rotation(rng), np.array([rng.uniform(-5, 5) for _ in range(3)])
    near = np.max(np.linalg.norm(pts[:, None] - at, axis=-1), axis=1) < 50     # far points: the motion itself loses digits
    dmin = 1.0
    if m >= 2:
        d = np.linalg.norm(at[:, None] - at, axis=-1)
        dmin = min(1.0, float(np.min(d[~np.eye(m, dtype=bool)])))
    if np.any(near):
        W2 = np.array([b.generate_weights(pts[near] @ R.T + t, at @ R.T + t, nums, select=k) for k in range(m)])
        if not np.all(np.abs(W2 - W[:, near]) <= 1e-9 / dmin):
            ctx.fail("oracle", "becke.generate_weights:rigid-motion", f"weights change by {float(np.max(np.abs(W2 - W[:, near])))} under a rigid motion ({m} atoms)",
                     witness=dict(wit, rotation=R, translation=t),
                     snippet=_snippet(mol, tab, SNIPPETS["rigid-motion"].format(R=R.reshape(-1).tolist(), t=t.tolist(), near=near.tolist())))
    perm = list(range(m))
    rng.shuffle(perm)
    W3 = np.array([b.generate_weights(pts, at[perm], nums[perm], select=k) for k in range(m)])
    if not np.all(np.abs(W3 - W[perm]) <= 1e-12 / dmin):
        ctx.fail("oracle", "becke.generate_weights:relabel", f"weights change by {float(np.max(np.abs(W3 - W[perm])))} under relabelling {perm}",
                 witness=dict(wit, permutation=perm), snippet=_snippet(mol, tab, SNIPPETS["relabel"].format(perm=perm)))


def oracle_at(ctx: Ctx, failure):
    """a correspondence disagreement on a molecule -> the property itself evaluated on that molecule (all orders 0..5 as
    well: a route that lost `order` shows only for order != 3)."""
    w = failure.witness or {}
    if not (isinstance(w, dict) and {"atnums", "atcoords", "points"} <= set(w)):
        return
    mod = importlib.import_module("grid.becke")
    at = np.asarray(w["atcoords"], dtype=float).reshape(-1, 3)
    nums = np.asarray(w["atnums"]).astype(int)
    pts = np.asarray(w["points"], dtype=float).reshape(-1, 3)
    if len(pts) == 0 or len(at) == 0 or len(nums) != len(at):
        return
    over = w.get("radii") or {}
    over = {int(z): float(v) for z, v in over.items()} if isinstance(over, dict) else {}
    over = {z: v for z, v in over.items() if v == v}
    if not _radii_positive(nums, over):
        return
    orders = [int(w.get("order", 3))] + [o for o in (0, 1, 2, 4, 5) if o != w.get("order")]
    for order in orders:
        mol = dict(at=at, nums=nums, pts=pts, order=order, over=over)
        tab = w.get("indices")
        if not (isinstance(tab, (list, tuple, np.ndarray)) and len(tab) == len(at) + 1 and list(tab) == sorted(tab) and tab[0] == 0 and tab[-1] == len(pts)):
            tab = _table(ctx.rng, len(pts), len(at))
        _oracle_molecule(ctx, mod, mol, [int(v) for v in tab], motions=False, kinds=True)


def _oracle_molecules(ctx: Ctx, mod, budget):
    rng = ctx.rng
    big = budget == "large" or ctx.thorough
    nmol = 1500 if budget == "large" else ctx.n(150, 1500)
    sizes = [1, 2, 2, 3, 4, 5, 8, 13]
    for i in range(nmol):
        close = 10.0 ** -rng.choice([2, 4, 6, 8]) if i % 9 == 8 else None       # nearly coincident (distinct) nuclei
        mol = _molecule(ctx, m=sizes[i] if i < len(sizes) else None, close=close)
        mol["over"] = {z: v for z, v in mol["over"].items() if v == v}
        if i % 5 == 0 and len(mol["at"]) >= 4:
            mol["pts"] = _points(rng, mol["at"], rng.choice([40, 90]))
        if i % 7 == 3:
            # coordinates representable in float32, points on nuclei included
            mol["at"] = np.round(mol["at"] * 8) / 8
            mol["pts"] = np.round(mol["pts"] * 8) / 8
            if len(set(map(tuple, mol["at"]))) < len(mol["at"]):
                continue
        if len(mol["pts"]) == 0:
            continue
        big_order = i % 11 == 5
        if big_order:
            mol["order"] = rng.choice([6, 7, 8])         # legitimate, large: the weights approach step functions
        tab = _table(rng, len(mol["pts"]), len(mol["at"]))
        _oracle_molecule(ctx, mod, mol, tab, motions=(i % 2 == 0 and not big_order), kinds=(i % 7 == 3))

def _oracle_high_orders(ctx: Ctx, mod, budget):
    rng = ctx.rng
    big = budget == "large" or ctx.thorough
    # orders >= 9: in double precision 1 - f^[order](nu) underflows to exactly 0 for nu >~ 0.4, so at points where every atom
    # loses against some partner (heteronuclear molecules, >= 3 atoms) all cell products are 0 and the weights are 0/0 = nan.
    # Over the reals the clause holds for every order (cell_sum_pos); rounding is outside the model -> recorded with a witness.
    nan_pts, nan_wit = 0, None
    for order in (9, 12, 20, 60):
        for _ in range(6 if big else 2):
            mol = _molecule(ctx, m=rng.choice([3, 4, 5]), n=120)
            mol["order"], mol["over"] = order, {}
            mol["nums"][:] = [rng.choice([1, 55, 8, 19, 3, 9, 37]) for _ in mol["nums"]]      # very different radii: clipped alpha
            b = _becke(mod, mol)
            W = np.array([b.generate_weights(mol["pts"], mol["at"], mol["nums"], select=k) for k in range(len(mol["at"]))])
            bad = np.isnan(W).any(axis=0)
            if bad.any():
                nan_pts += int(bad.sum())
                if nan_wit is None or order < nan_wit["order"]:
                    nan_wit = dict(order=order, atnums=mol["nums"].tolist(), atcoords=mol["at"].tolist(), point=mol["pts"][int(np.argmax(bad))].tolist())
            ok = ~bad
            if ok.any() and not (np.all(np.abs(W[:, ok].sum(axis=0) - 1) <= 1e-12) and np.all(W[:, ok] >= -1e-13) and np.all(W[:, ok] <= 1 + 1e-13)):
                ctx.fail("oracle", "becke.generate_weights:partition", f"Becke weights at order {order}: finite weights do not form a partition of unity",
                         witness=dict(atnums=mol["nums"], atcoords=mol["at"], order=order))
    ctx.extra["nan_weight_points_at_orders_ge_9"] = nan_pts
    if nan_wit is not None:
        ctx.info(f"order >= 9: weights are nan (0/0, every cell product underflows to 0) at {nan_pts} sampled points; smallest witness of this run: {nan_wit}")

def _oracle_many_atoms(ctx: Ctx, mod, budget):
    rng = ctx.rng
    big = budget == "large" or ctx.thorough
    if big:
        # more than 100 atoms: every chunk of __call__ has one point
        mol = _molecule(ctx, m=rng.choice([101, 128]), n=6)
        mol["over"] = {}
        _oracle_molecule(ctx, mod, mol, _table(rng, 6, len(mol["at"])), motions=False)

def _oracle_select_probe(ctx: Ctx, mod, budget):
    rng = ctx.rng
    big = budget == "large" or ctx.thorough
    # known difference between the routes for an explicit, permuted `select` (outside the quantifier of C06: info only)
    mol = _molecule(ctx, m=3, n=6)
    b = _becke(mod, mol)
    try:
        g = b.generate_weights(mol["pts"], mol["at"], mol["nums"], select=[2, 0, 1], pt_ind=[0, 2, 4, 6])
        c = b.compute_weights(mol["pts"], mol["at"], mol["nums"], select=[2, 0, 1], pt_ind=[0, 2, 4, 6])
        if not np.allclose(g, c, atol=1e-12):
            ctx.info("compute_weights ignores the order of an explicit select=[2,0,1] (uses atom i on segment i); generate_weights uses atom select[i] on segment i")
    except Exception as e:
        ctx.info(f"explicit select probe raised {type(e).__name__}")

def _oracle_hirshfeld(ctx: Ctx, mod, hmod, budget):
    rng = ctx.rng
    big = budget == "large" or ctx.thorough
    H = hmod.HirshfeldWeights
    # Hirshfeld: shares sum to one; the call returns the share of the owner
    shared = H()                       # one object for the whole loop: a remembered pro-atom must not change later values
    have = sorted(int(p.name[1:4]) for p in importlib.import_module("importlib.resources").files("grid.data.proatoms").iterdir() if p.name.endswith(".npz"))
    for z in [2, 3, 9, 10, 16, 17, 26, 79, 86] + [rng.randrange(1, 119) for _ in range(6)]:
        if z in have:
            continue
        at, nums, pts, tab = _hirshfeld_case(ctx, hmod, m=2)
        nums = nums.copy()
        nums[rng.randrange(2)] = z
        try:
            got = shared(pts, at, nums, np.array(tab))
            ctx.fail("oracle", "hirshfeld.__call__:unsupported-element", f"HirshfeldWeights.__call__ accepts atomic number {z}, for which no pro-atom density is shipped, and returns {np.asarray(got)[:3].tolist()}…",
                     witness=dict(atnums=nums, atcoords=at, points=pts, indices=tab))
        except Exception:
            pass
    for i in range(200 if budget == "large" else ctx.n(12, 120)):
        at, nums, pts, tab = _hirshfeld_case(ctx, hmod)
        m, n = len(at), len(pts)
        hw = shared if i % 2 == 0 else H()
        total = np.zeros(n)
        per = []
        for k in range(m):
            t = np.array([0] * (k + 1) + [n] * (m - k))           # every point belongs to atom k
            per.append(hw(pts, at, nums, t))
            total += per[-1]
        per = np.array(per)
        mag = np.abs(per).sum(axis=0)
        wit = dict(atnums=nums, atcoords=at, points=pts, indices=tab)
        if not np.all(np.abs(total - 1) <= 1e-12 * np.maximum(1, mag)):
            ctx.fail("oracle", "hirshfeld.__call__:sum-one", f"Hirshfeld weights of {m} atoms sum to {total.tolist()}", witness=wit, snippet=_hsnippet(at, nums, pts, tab))
        got = hw(pts, at, nums, np.array(tab))
        own = np.repeat(np.arange(m), np.diff(tab))
        if not np.all(np.abs(got - per[own, np.arange(n)]) <= 1e-13 * np.maximum(1, mag)):
            ctx.fail("oracle", "hirshfeld.__call__:share", f"Hirshfeld call with indices {tab} differs from the per-atom shares", witness=wit, snippet=_hsnippet(at, nums, pts, tab))
        # share = pro-atom / sum of pro-atoms (independent evaluation through the spline of each atom)
        rho = np.array([H.generate_proatom(pts, at[k], nums[k]) for k in range(m)])
        if not np.all(np.abs(per * rho.sum(axis=0) - rho) <= 1e-12 * np.abs(rho).sum(axis=0)):
            ctx.fail("oracle", "hirshfeld.__call__:share", "Hirshfeld weight times pro-molecule density differs from the pro-atom density", witness=wit, snippet=_hsnippet(at, nums, pts, tab))

def oracle(ctx: Ctx, budget: str):
    """independent parts (implementation only: no driver, no translator); one part failing or raising never hides the others"""
    mod = importlib.import_module("grid.becke")
    hmod = importlib.import_module("grid.hirshfeld")
    _run_parts(ctx, "oracle", [
        ("becke.degenerate", lambda: _oracle_degenerate(ctx, mod, budget)),
        ("becke.molecules", lambda: _oracle_molecules(ctx, mod, budget)),
        ("becke.alpha-window", lambda: _oracle_alpha_window(ctx, mod)),
        ("becke.extreme", lambda: _oracle_extreme(ctx, mod, hmod, budget)),
        ("becke.histories", lambda: _oracle_histories(ctx, mod, hmod, budget)),
        ("becke.arguments", lambda: _oracle_arguments(ctx, mod, hmod, budget)),
        ("becke.sizes", lambda: _oracle_sizes(ctx, mod, hmod, budget)),
        ("becke.round5", lambda: _oracle_round5(ctx, mod, hmod, budget)),
        ("becke.high-orders", lambda: _oracle_high_orders(ctx, mod, budget)),
        ("becke.many-atoms", lambda: _oracle_many_atoms(ctx, mod, budget)),
        ("becke.select-probe", lambda: _oracle_select_probe(ctx, mod, budget)),
        ("hirshfeld", lambda: _oracle_hirshfeld(ctx, mod, hmod, budget)),
    ])


# ----------------------------------------------------------------------------------------------
# round 2: __init__, Hirshfeld through the generated call, argument kinds, object reuse
# ----------------------------------------------------------------------------------------------
def _corr_init(ctx: Ctx, mod):
    """`BeckeWeights.__init__` against the generated `init` (+ the generated radius comprehension of both copies)."""
    B = mod.BeckeWeights
    rng = ctx.rng
    orders = [("i 3", 3), ("i 0", 0), ("i 1", 1), ("i -2", -2), ("i 60", 60), ("i 1", True), ("i 0", False),
              ("o", np.int64(3)), ("o", 3.0), ("o", None), ("o", "3"), ("o", np.int32(2)), ("o", [3])]
    zs = list(range(-2, 90))
    cases = []
    for _ in range(ctx.n(60, 800)):
        otok, oval = rng.choice(orders) if rng.random() < 0.6 else (lambda n: (f"i {n}", n))(rng.randrange(0, 9))
        u = rng.random()
        if u < 0.3:
            rtok, rval = "-", None
        elif u < 0.4:
            rval = rng.choice([[(1, 0.5)], "H", 1.0, ((1, 0.5),), np.array([1.0])])
            rtok = "x"
        else:
            k = rng.choice([0, 1, 1, 2, 3])
            rval, toks = {}, []
            for _i in range(k):
                z = rng.choice([1, 2, 3, 6, 10, 17, 18, 36, 85, 86, 87, 100, 0, -1, rng.randrange(1, 87)])
                v = rng.choice([0.5, 1.0, 2.25, float("nan"), rng.uniform(0.2, 5.0), 0.0,
                                -0.0, 5e-324, 1e-300, 1e300])    # np.nan_to_num(x) or …: zero of either sign is falsy, every positive number truthy
                kind = rng.random()
                if kind < 0.72:
                    key, kt = int(z), f"i {int(z)}"
                elif kind < 0.8 and z in (0, 1):
                    key, kt = bool(z), f"i {int(z)}"          # a bool is an int
                else:
                    key, kt = rng.choice([np.int64(z), float(z), str(z), np.int32(z)]), "o"
                if key in rval:
                    continue
                rval[key] = v
                toks.append(f"{kt} {f2b(v)}")
            rtok = " ".join(["d", str(len(toks))] + toks)
        cases.append((f"C06.ginit {otok} {rtok} {vec(zs)}", oval, rval))
    ans = driver_batch([c[0] for c in cases])
    for (line, oval, rval), a in zip(cases, ans):
        try:
            obj = B(radii=rval, order=oval)
            impl = "ok"
        except ValueError:
            impl, obj = "value-error", None
        except TypeError:
            impl, obj = "type-error", None
        ctx.count(["init", repr(oval), repr(rval)], nontrivial=rval is not None or not isinstance(oval, int), tag=f"init:{impl}")
        if impl != "ok":
            if a != impl:
                ctx.fail("corr", "becke.__init__", f"BeckeWeights(radii={rval!r}, order={oval!r}): implementation {impl}, generated model {a}",
                         witness={"radii": repr(rval), "order": repr(oval)})
            continue
        toks = a.split()
        ok = toks[:1] == ["ok"] and len(toks) >= 2 and int(toks[1]) == int(obj._order) and type(obj._order) in (int, bool)
        look, i = [], 2
        while ok and i < len(toks):
            if toks[i] == "v":
                look.append(b2f(toks[i + 1])); i += 2
            else:
                look.append(toks[i]); i += 1
        if ok and len(look) == len(zs):
            for z, got in zip(zs, look):
                try:
                    r = obj._radii[z]
                    want = float(r) if not np.isnan(r) else float(np.nan_to_num(obj._radii[z - 1]) or np.nan_to_num(obj._radii[z - 2]))
                except KeyError:
                    want = "key-error"
                if want != got:
                    ok = False
                    ctx.fail("corr", "becke.__init__:radii", f"BeckeWeights(radii={rval!r}): radius used for Z={z}: implementation {want}, generated model {got}",
                             witness={"radii": repr(rval), "order": repr(oval), "Z": z})
                    break
        elif ok or not toks[:1] == ["ok"]:
            ctx.fail("corr", "becke.__init__", f"BeckeWeights(radii={rval!r}, order={oval!r}): implementation ok (order {obj._order!r}), generated model {a[:80]}",
                     witness={"radii": repr(rval), "order": repr(oval)})


_PRO = {}


def _spline_tables(hmod, at, nums, pts):
    """independent evaluation of every shipped pro-atom spline at every |point - nucleus| (own np.load + CubicSpline,
    not through the hirshfeld module): {index in the sorted listing: [(x, y), …]}"""
    from importlib.resources import files as _files
    from scipy.interpolate import CubicSpline

    root = _files("grid.data.proatoms")
    names = sorted(p.name for p in root.iterdir() if p.name.endswith(".npz"))
    dist = np.linalg.norm(pts[:, None] - at, axis=-1).reshape(-1) if len(pts) and len(at) else np.zeros(0)
    out = []
    for i, name in enumerate(names):
        if name not in _PRO:
            d = np.load(root.joinpath(name))
            _PRO[name] = CubicSpline(d["r"], d["dn"], bc_type="natural", extrapolate=True)
        y = _PRO[name](dist)
        out.append((i, dist, y))
    return names, out


def _corr_hirshfeld_gen(ctx: Ctx, hmod):
    """`HirshfeldWeights.__call__` against the generated call: the model chooses the file from the atomic number by the
    generated name, the harness supplies every shipped file's spline values; rejected inputs included."""
    H = hmod.HirshfeldWeights
    rng = ctx.rng
    jobs = []
    for i in range(ctx.n(40, 500)):
        at, nums, pts, tab = _hirshfeld_case(ctx, hmod, m=(i % 4) + 1 if i < 8 else None)
        dt = 1
        u = rng.random()
        if u < 0.12:
            nums = nums.copy()
            nums[rng.randrange(len(nums))] = rng.choice([2, 3, 5, 9, 16, 17, 26, 86, 0, 118, 1000])   # no pro-atom file
        elif u < 0.2:
            nums = nums.astype(rng.choice([np.int32, np.float64, np.int16, np.uint8]))
            dt = 0
        if rng.random() < 0.2:
            tab = [rng.randrange(0, len(pts) + 2) for _ in tab]
        if rng.random() < 0.08:
            tab = tab[:-1]
        hw = H()
        try:
            impl = ("ok", np.asarray(hw(pts, at, nums, np.array(tab, dtype=int)), dtype=float))
        except FileNotFoundError:
            impl = ("file-not-found-error", None)
        except TypeError:
            impl = ("type-error", None)
        except IndexError:
            impl = ("index-error", None)
        names, tabs = _spline_tables(hmod, at, np.asarray(nums), pts)
        ft = " ".join(f"{fi} {2 * len(x)} " + " ".join(f"{f2b(a)} {f2b(b)}" for a, b in zip(x, y)) if len(x) else f"{fi} 0" for fi, x, y in tabs)
        line = f"C06.ghirsh {dt} {vec([int(z) for z in nums])} {fmat(at)} {_pts_tokens(pts)} {vec(tab)} {len(tabs)} {ft}"
        jobs.append((line, impl, dict(atnums=np.asarray(nums), dtype=str(np.asarray(nums).dtype), atcoords=at, points=pts, indices=tab)))
    ans = driver_batch([j[0] for j in jobs])
    for (line, impl, case), a in zip(jobs, ans):
        ctx.count(dict(case, op="hirshfeld-generated"), nontrivial=len(case["atnums"]) >= 2, tag=f"hirshfeld-gen:{impl[0]}")
        model = _parse(a)
        ok = impl[0] == model[0] and (impl[1] is None or (impl[1].shape == model[1].shape and all(
            (x != x and y != y) or close(x, y, rtol=1e-10, scale=max(1.0, abs(x))) for x, y in zip(impl[1], model[1]))))
        if not ok:
            ctx.fail("corr", "hirshfeld.__call__:generated", f"HirshfeldWeights.__call__ atnums={case['atnums'].tolist()} ({case['dtype']}) indices={case['indices']}: "
                     f"implementation {impl[0]} {None if impl[1] is None else impl[1][:4]}, generated model {model[0]} {None if model[1] is None else model[1][:4]}", witness=case)


def _bytes(*arrs):
    return [np.asarray(a).tobytes() for a in arrs]


def _corr_kinds(ctx: Ctx, mod, hmod):
    """dtype / container kind / memory layout of the array arguments, scalar kinds of `select` and `order`:
    every accepted variant must give the float64 / int64 / C-contiguous answer; inputs stay untouched."""
    rng = ctx.rng
    for it in range(ctx.n(14, 160)):
        mol = _molecule(ctx, m=rng.choice([1, 2, 3, 4, 6]), n=rng.choice([1, 2, 5, 9]))
        mol["over"] = {}
        if it % 3 == 0:                       # coordinates exactly representable in float32, some points on nuclei
            mol["at"] = np.round(mol["at"] * 4) / 4
            mol["pts"] = np.round(mol["pts"] * 4) / 4
            if len(set(map(tuple, mol["at"]))) < len(mol["at"]):
                continue
            for j in range(len(mol["pts"])):
                if rng.random() < 0.4:
                    mol["pts"][j] = mol["at"][rng.randrange(len(mol["at"]))]
        at, nums, pts, m, n = mol["at"], mol["nums"], mol["pts"], len(mol["at"]), len(mol["pts"])
        tab = _table(rng, n, m)
        ind = np.array(tab)
        b = _becke(mod, mol)
        k = rng.randrange(m)
        ref = dict(call=b(pts, at, nums, ind), gen=b.generate_weights(pts, at, nums, pt_ind=tab), cmp=b.compute_weights(pts, at, nums, pt_ind=tab),
                   atom=b.compute_atom_weight(pts, at, nums, k))
        pts32 = pts.astype(np.float32)
        exact32 = bool(np.all(pts32.astype(float) == pts))
        junk = np.hstack([pts, pts + 1.0])
        ro = pts.copy(); ro.setflags(write=False)
        atro = at.copy(); atro.setflags(write=False)
        variants = [
            ("points:float32", exact32, dict(pts=pts32)),
            ("points:fortran-order", True, dict(pts=np.asfortranarray(pts))),
            ("points:non-contiguous", True, dict(pts=junk[:, :3])),
            ("points:read-only", True, dict(pts=ro)),
            ("atcoords:fortran-order", True, dict(at=np.asfortranarray(at))),
            ("atcoords:read-only", True, dict(at=atro)),
            ("atnums:float64", True, dict(nums=nums.astype(float))),
            ("atnums:int32", True, dict(nums=nums.astype(np.int32))),
            ("atnums:uint8", True, dict(nums=nums.astype(np.uint8))),
            ("atnums:non-contiguous", True, dict(nums=np.repeat(nums, 2)[::2])),
            ("indices:int32", True, dict(ind=ind.astype(np.int32))),
            ("indices:non-contiguous", True, dict(ind=np.repeat(ind, 2)[::2])),
            ("pt_ind:tuple", True, dict(tab=tuple(tab))),
            ("pt_ind:ndarray", True, dict(tab=ind)),
            ("pt_ind:int32", True, dict(tab=ind.astype(np.int32))),
        ]
        for name, applicable, kw in variants:
            if not applicable:
                continue
            P, A, Z, I, T = kw.get("pts", pts), kw.get("at", at), kw.get("nums", nums), kw.get("ind", ind), kw.get("tab", tab)
            before = _bytes(P, A, Z, I)
            calls = dict(call=lambda: b(P, A, Z, I), gen=lambda: b.generate_weights(P, A, Z, pt_ind=T), cmp=lambda: b.compute_weights(P, A, Z, pt_ind=T),
                         atom=lambda: b.compute_atom_weight(P, A, Z, k))
            for route, fn in calls.items():
                if (route == "call") == ("tab" in kw) or (route == "atom" and ("ind" in kw or "tab" in kw)):
                    continue
                ctx.count(["kinds", name, route, m, n], nontrivial=m >= 2, tag=f"kinds:{name}")
                try:
                    with np.errstate(all="ignore"):
                        got = np.asarray(fn())
                    ok = got.shape == ref[route].shape and got.dtype == np.float64 and bool(np.all(np.abs(got - ref[route]) <= 1e-15))
                    what = f"max deviation {float(np.max(np.abs(got - ref[route]))) if got.shape == ref[route].shape else got.shape}, dtype {got.dtype}"
                except Exception as e:
                    ok, what = False, f"raised {type(e).__name__}: {e}"
                if not ok:
                    ctx.fail("corr", f"becke.kinds:{name}", f"{route} with {name} differs from the float64 / int64 / contiguous call on the same values: {what}",
                             witness=dict(atnums=nums, atcoords=at, points=pts, indices=tab, variant=name, route=route, order=mol["order"]))
            if before != _bytes(P, A, Z, I):
                ctx.fail("corr", f"becke.kinds:{name}:mutated", f"an argument array was modified by a call with {name}", witness=dict(variant=name))
        # atcoords in single precision (same values): the inter-nuclear distances `np.linalg.norm(atcoords[:, None] - atcoords)`
        # are then computed in float32; the partition clauses still hold, the values lose digits -> recorded, not a failure
        if bool(np.all(at.astype(np.float32).astype(float) == at)) and m >= 2:
            got = b(pts, at.astype(np.float32), nums, ind)
            dev = float(np.max(np.abs(got - ref["call"]))) if n else 0.0
            ctx.count(["kinds", "atcoords:float32", m, n], nontrivial=True, tag="kinds:atcoords:float32")
            ctx.extra["max_deviation_float32_atcoords_vs_float64"] = max(ctx.extra.get("max_deviation_float32_atcoords_vs_float64", 0.0), dev)
            if dev > 1e-6:
                ctx.fail("corr", "becke.kinds:atcoords:float32", f"__call__ with float32 atcoords (same values) deviates by {dev} from the float64 call",
                         witness=dict(atnums=nums, atcoords=at, points=pts, indices=tab, order=mol["order"]))
        # scalar kinds of select
        for sel in (np.int64(k), np.int32(k), int(k)):
            got = b.generate_weights(pts, at, nums, select=sel)
            got2 = b.compute_weights(pts, at, nums, select=sel)
            ctx.count(["kinds", "select", type(sel).__name__], nontrivial=False, tag="kinds:select")
            if not (np.array_equal(got, ref["atom"]) and np.array_equal(got2, ref["atom"])):
                ctx.fail("corr", "becke.kinds:select", f"select={sel!r} ({type(sel).__name__}) differs from compute_atom_weight(…, {k})",
                         witness=dict(atnums=nums, atcoords=at, points=pts, select=int(k)))
        # containers outside the documented ndarray API: accepted => must agree; rejected => information only
        for name, fn, route in (("atnums:list", lambda: b(pts, at, [int(z) for z in nums], ind), "call"),
                                ("indices:list", lambda: b(pts, at, nums, list(tab)), "call"),
                                ("points:list", lambda: b.generate_weights(pts.tolist(), at, nums, pt_ind=tab), "gen"),
                                ("atcoords:list", lambda: b.compute_atom_weight(pts, at.tolist(), nums, k), "atom")):
            ctx.count(["kinds", name], nontrivial=False, tag=f"kinds:{name}")
            try:
                with warnings_off():
                    got = np.asarray(fn())
            except (TypeError, AttributeError) as e:
                ctx.tagc(f"kinds:{name}:rejected:{type(e).__name__}")
                continue
            if got.shape != ref[route].shape or not np.all(np.abs(got - ref[route]) <= 1e-15):
                ctx.fail("corr", f"becke.kinds:{name}", f"{route} accepts {name} but returns different numbers", witness=dict(atnums=nums, atcoords=at, points=pts, indices=tab))
    # a single point given as shape (3,) instead of (1, 3): outside the documented (N, 3); recorded
    mol = _molecule(ctx, m=3, n=1)
    b = _becke(mod, mol)
    try:
        with warnings_off():
            one = np.asarray(b.generate_weights(mol["pts"][0], mol["at"], mol["nums"], select=0))
            ref1 = b.generate_weights(mol["pts"], mol["at"], mol["nums"], select=0)
        ctx.count(["kinds", "points:shape(3,)"], nontrivial=False, tag="kinds:points:shape(3,)")
        if one.shape != ref1.shape:
            ctx.info(f"generate_weights with a single point of shape (3,) returns shape {one.shape} (the weight repeated: {bool(np.all(one == ref1[0]))}); "
                     "the documented shape is (N, 3)")
    except Exception as e:
        ctx.info(f"generate_weights with a single point of shape (3,) raises {type(e).__name__}")
    # Hirshfeld
    H = hmod.HirshfeldWeights
    for it in range(ctx.n(4, 40)):
        at, nums, pts, tab = _hirshfeld_case(ctx, hmod)
        ind = np.array(tab)
        ref = H()(pts, at, nums, ind)
        ro = pts.copy(); ro.setflags(write=False)
        for name, kw in (("points:float32", dict(pts=pts.astype(np.float32))), ("points:read-only", dict(pts=ro)), ("points:fortran-order", dict(pts=np.asfortranarray(pts))),
                         ("atcoords:fortran-order", dict(at=np.asfortranarray(at))), ("indices:int32", dict(ind=ind.astype(np.int32))), ("indices:list", dict(ind=list(tab))),
                         ("atnums:non-contiguous", dict(nums=np.repeat(nums, 2)[::2]))):
            P, A, Z, I = kw.get("pts", pts), kw.get("at", at), kw.get("nums", nums), kw.get("ind", ind)
            want = ref if name != "points:float32" else H()(np.asarray(P, dtype=float), at, nums, ind)
            ctx.count(["kinds", "hirshfeld", name], nontrivial=len(at) >= 2, tag=f"kinds:hirshfeld:{name}")
            try:
                got = np.asarray(H()(P, A, Z, I))
                ok = got.shape == want.shape and bool(np.all(np.abs(got - want) <= 1e-15 * np.maximum(1, np.abs(want))))
                what = "" if ok else f"max deviation {float(np.max(np.abs(got - want)))}"
            except Exception as e:
                ok, what = False, f"raised {type(e).__name__}: {e}"
            if not ok:
                ctx.fail("corr", f"hirshfeld.kinds:{name}", f"HirshfeldWeights.__call__ with {name} differs from the plain call: {what}",
                         witness=dict(atnums=nums, atcoords=at, points=pts, indices=tab))


class warnings_off:
    def __enter__(self):
        import warnings

        self.c = warnings.catch_warnings()
        self.c.__enter__()
        warnings.simplefilter("ignore")
        self.e = np.errstate(all="ignore")
        self.e.__enter__()

    def __exit__(self, *a):
        self.e.__exit__(*a)
        self.c.__exit__(*a)


def _corr_reuse(ctx: Ctx, mod, hmod):
    """state carried between calls: ONE BeckeWeights object (and one HirshfeldWeights object) is used for several
    molecules in turn, overlapping and in different orders, through every route; every answer is compared with the
    stateless Lean model and with a freshly built object; the object's dictionary and order must not change."""
    rng = ctx.rng
    for rep in range(ctx.n(3, 30)):
        order = rng.choice([1, 2, 3, 4])
        over = rng.choice([{}, {}, {6: 1.3}, {2: float("nan"), 1: 0.9}])
        mols = [_molecule(ctx, m=rng.choice([1, 2, 3, 4, 5, 7]), n=rng.choice([2, 5, 9, 14])) for _ in range(4)]
        for mo in mols:
            mo["order"], mo["over"] = order, dict(over)
        # nan-radius elements and ordinary ones, the same element in several molecules
        mols[1]["nums"][:] = [rng.choice(NAN_Z + [1, 6]) for _ in mols[1]["nums"]]
        mols[2]["nums"][:] = [rng.choice([1, 6, 8]) for _ in mols[2]["nums"]]
        # same number of atoms and points as molecule 0, other elements and positions (a memo keyed by sizes would mix them up)
        mols[3] = _molecule(ctx, m=len(mols[0]["at"]), n=len(mols[0]["pts"]))
        mols[3]["order"], mols[3]["over"] = order, dict(over)
        mols[3]["nums"][:] = [rng.choice([3, 9, 17, 55, 26]) for _ in mols[3]["nums"]]
        shared = mod.BeckeWeights(radii=dict(over) or None, order=order)
        radii0 = {k: (None if v != v else float(v)) for k, v in shared._radii.items()}
        seq = [0, 1, 0, 2, 1, 3, 0, 2, 2]
        rng.shuffle(seq)
        jobs = []
        for step, mi in enumerate(seq):
            mo = mols[mi]
            at, nums, pts, m, n = mo["at"], mo["nums"], mo["pts"], len(mo["at"]), len(mo["pts"])
            tab = _table(rng, n, m)
            k = rng.randrange(m)
            route = rng.choice(["call", "generate", "compute", "atom"])
            fresh = _becke(mod, mo)
            fns = {"call": lambda o: o(pts, at, nums, np.array(tab)), "generate": lambda o: o.generate_weights(pts, at, nums, pt_ind=tab),
                   "compute": lambda o: o.compute_weights(pts, at, nums, pt_ind=tab), "atom": lambda o: o.compute_atom_weight(pts, at, nums, k)}
            with warnings_off():
                got, want = fns[route](shared), fns[route](fresh)
            ctx.count(["reuse", rep, step, route, mi], nontrivial=step > 0, tag=f"reuse:{route}")
            ctx.traces += 1
            if not np.array_equal(got, want):
                ctx.fail("corr", "becke.reuse", f"{route} on a BeckeWeights object used before for other molecules differs from a fresh object (step {step} of {seq})",
                         witness=dict(atnums=nums, atcoords=at, points=pts, indices=tab, order=order, radii=over, history=seq, step=step))
            line = {"call": f"C06.call {_mol_tokens(mo)} {_pts_tokens(pts)} {vec(tab)}", "generate": f"C06.generate {_mol_tokens(mo)} {_pts_tokens(pts)} - {vec(tab)}",
                    "compute": f"C06.compute {_mol_tokens(mo)} {_pts_tokens(pts)} - {vec(tab)}", "atom": f"C06.atom {_mol_tokens(mo)} {_pts_tokens(pts)} {k}"}[route]
            jobs.append((line, got, _tol(mo), route, mo, tab))
            now = {k_: (None if v != v else float(v)) for k_, v in shared._radii.items()}
            if now != radii0 or shared._order != order:
                ctx.fail("corr", "becke.reuse:state", f"BeckeWeights object changed by a {route} call (radii or order)", witness=dict(order=order, radii=over, step=step))
        for (line, got, tol, route, mo, tab), a in zip(jobs, driver_batch([j[0] for j in jobs])):
            if not _same(("ok", np.asarray(got, dtype=float)), _parse(a), tol):
                ctx.fail("corr", "becke.reuse", f"{route} on a reused BeckeWeights object differs from the stateless model",
                         witness=dict(atnums=mo["nums"], atcoords=mo["at"], points=mo["pts"], indices=tab, order=order, radii=over))
    # Hirshfeld: one object, several molecules, repeated
    H = hmod.HirshfeldWeights
    hw = H()
    cases = [_hirshfeld_case(ctx, hmod) for _ in range(3)]
    first = {}
    for step, ci in enumerate([0, 1, 0, 2, 1, 0, 2]):
        at, nums, pts, tab = cases[ci]
        got = hw(pts, at, nums, np.array(tab))
        want = H()(pts, at, nums, np.array(tab))
        ctx.count(["reuse", "hirshfeld", step, ci], nontrivial=step > 0, tag="reuse:hirshfeld")
        ctx.traces += 1
        if not np.array_equal(got, want) or (ci in first and not np.array_equal(got, first[ci])):
            ctx.fail("corr", "hirshfeld.reuse", "HirshfeldWeights.__call__ repeated on the same object / same arguments returns different values",
                     witness=dict(atnums=nums, atcoords=at, points=pts, indices=tab, step=step))
        first.setdefault(ci, got.copy())
        got[:] = -1.0           # the caller's edit of a result must not leak into later calls


# ----------------------------------------------------------------------------------------------
# round 3: get_cov_radii through the generated function; inputs next to the hard-coded constants; data of extreme
# magnitude; large exactly representable shifts; objects / dictionaries / results reused by the caller
# ----------------------------------------------------------------------------------------------
EPS = 2.0 ** -52


def _dmin(at):
    m = len(at)
    if m < 2:
        return 1.0
    d = np.linalg.norm(at[:, None] - at, axis=-1)
    return float(np.min(d[~np.eye(m, dtype=bool)]))


def _corr_covradii(ctx: Ctx):
    """`grid.utils.get_cov_radii` (all three selections, rejected spellings, zero, scalars of every integer kind, lists and
    arrays incl. negative / out-of-range indices) against the GENERATED function on the regenerated tables, bit for bit;
    the array it hands out is scribbled on and the call repeated (class 9)."""
    U = importlib.import_module("grid.utils")
    rng = ctx.rng
    snap = [U._bragg.tobytes(), U._cambridge.tobytes(), U._alvarez.tobytes()]
    types = ["bragg", "cambridge", "alvarez", "default"] * 5 + ["Bragg", "", "bragg ", "alvarez2", "BRAGG", "cam", None]
    jobs = []
    for it in range(ctx.n(160, 1600)):
        ty = rng.choice(types) if it >= len(types) else types[it]
        if rng.random() < 0.3:
            z = rng.choice([1, 2, 6, 86, 87, 96, 97, -1, -87, -88, -97, -98, 0, rng.randrange(-100, 101)])
            arg = rng.choice([int, np.int64, np.int32, np.int16, np.int8])(z)
            if 0 <= z < 256 and rng.random() < 0.15:
                arg = np.uint8(z)
            tok = f"i {z}"
        else:
            k = rng.choice([0, 1, 2, 3, 5, 9])
            zs = [rng.choice([rng.randrange(1, 87), rng.randrange(1, 97), rng.randrange(-97, 100), 0 if rng.random() < 0.25 else 1]) for _ in range(k)]
            if rng.random() < 0.08:
                zs = list(range(1, 87))                      # the call of BeckeWeights.__init__
            kind = rng.choice(["list", "int64", "int32", "non-contiguous", "read-only"])
            if kind == "list":
                arg = [int(z) for z in zs]
            elif kind == "non-contiguous":
                arg = np.repeat(np.array(zs, dtype=int), 2)[::2]
            else:
                arg = np.array(zs, dtype=np.int32 if kind == "int32" else np.int64)
                if kind == "read-only":
                    arg.setflags(write=False)
            tok = "s " + vec(zs)
        call = (lambda: U.get_cov_radii(arg)) if ty == "default" else (lambda: U.get_cov_radii(arg, ty))
        impl = _run(call)
        if impl[0] == "ok":
            # the caller owns what it got: scribble, ask again
            first = call()
            keep = first.copy()
            first[...] = -7.0
            again = call()
            if not np.array_equal(again, keep, equal_nan=True) or any(np.shares_memory(again, t) for t in (U._bragg, U._cambridge, U._alvarez)):
                ctx.fail("corr", "utils.get_cov_radii:fresh", f"get_cov_radii({arg!r}, {ty!r}): the array handed out is not the caller's own (a later call sees the caller's edit)",
                         witness={"atnums": repr(arg), "cov_type": ty})
        tt = "d" if ty == "default" else vec([ord(ch) for ch in ("<None>" if ty is None else ty)])
        jobs.append((f"C06.covradii {tt} {tok}", impl, repr(arg), ty))
    for (line, impl, arg, ty), a in zip(jobs, driver_batch([j[0] for j in jobs])):
        ctx.count(["covradii", arg, ty], nontrivial=ty in ("cambridge", "alvarez", "default") or impl[0] != "ok", tag=f"covradii:{ty if ty in ('bragg', 'cambridge', 'alvarez', 'default') else 'other'}:{impl[0]}")
        model = _parse(a)
        ok = impl[0] == model[0] and (impl[1] is None or (impl[1].shape == model[1].shape and all(
            (x != x and y != y) or x == y for x, y in zip(impl[1], model[1]))))
        if not ok:
            ctx.fail("corr", "utils.get_cov_radii", f"get_cov_radii({arg}, {ty!r}): implementation {impl[0]} {None if impl[1] is None else impl[1][:4]}, generated model {model[0]} {None if model[1] is None else model[1][:4]}",
                     witness={"atnums": arg, "cov_type": ty, "line": line})
    if snap != [U._bragg.tobytes(), U._cambridge.tobytes(), U._alvarez.tobytes()]:
        ctx.fail("corr", "utils.get_cov_radii:tables", "a module-level radius table of grid.utils was modified by get_cov_radii / by an edit of its result")
        for arr, raw in zip((U._bragg, U._cambridge, U._alvarez), snap):       # do not poison the rest of the run
            arr[...] = np.frombuffer(raw, dtype=float)
    # a BeckeWeights built after all this still has the table
    b = importlib.import_module("grid.becke").BeckeWeights()
    if not np.array_equal(np.array([b._radii[z] for z in range(1, 87)]), U._bragg[1:87], equal_nan=True):
        ctx.fail("corr", "becke.__init__:table", "BeckeWeights()._radii differs from grid.utils._bragg[1:87]")


def _window_ratio(a):
    """radius ratio x = r_B / r_A with raw alpha (r_B^2 - r_A^2) / (4 r_A r_B) = a"""
    return 2 * a + math.sqrt(4 * a * a + 1)


def _extreme_variants(ctx: Ctx, mol):
    """class 7 / 8 variants of one molecule -> list of (kind, molecule, tolerance factor)"""
    rng = ctx.rng
    out = []
    at, pts, nums = mol["at"], mol["pts"], mol["nums"]
    m = len(at)
    zs = sorted(set(int(z) for z in nums))
    # large exactly representable shifts, and moderate ones
    k = rng.choice([10, 12, 14, 17, 20])
    sh = np.array([rng.choice([-1, 1]) * 2.0 ** k, rng.choice([0, 1, -1]) * 2.0 ** rng.choice([10, k]), rng.choice([-1, 1]) * 2.0 ** (k - 1)])
    out.append((f"shift:2^{k}", dict(mol, at=at + sh, pts=pts + sh), float(np.max(np.abs(sh)))))
    t = np.array([rng.uniform(-50, 50) for _ in range(3)])
    out.append(("shift:moderate", dict(mol, at=at + t, pts=pts + t), float(np.max(np.abs(t)))))
    # the whole geometry scaled
    lam = rng.choice([2.0 ** -40, 2.0 ** 40, 1e-12, 1e12, 1e-6, 1e6, 10.0 ** rng.uniform(-12, 12)])
    out.append((f"geometry-scale:1e{round(math.log10(lam))}", dict(mol, at=at * lam, pts=pts * lam), 0.0))
    # radii: every element present gets a user radius; common scale factor 1e-12 .. 1e12 (and 2^+-500)
    base = {z: rng.uniform(0.4, 4.0) for z in zs}
    lam = rng.choice([1.0, 2.0 ** -500, 2.0 ** 500, 1e-12, 1e12, 10.0 ** rng.uniform(-12, 12)])
    out.append((f"radii-scale:1e{round(math.log10(lam))}", dict(mol, over={z: r * lam for z, r in base.items()}), 0.0))
    # next to the cutoff 0.45 of alpha: raw alpha = 0.45 * f on both sides within 1.01 and 100, and at the edge
    if len(zs) >= 2:
        f = rng.choice([1 / 1.01, 1.01, 1 / 100, 100.0, 1 - 1e-12, 1 + 1e-12, 1.0, 1 / 1.0001, 1.0001])
        x = _window_ratio(0.45 * f)
        r0 = rng.uniform(0.5, 3.0)
        over = {z: r0 * (x ** i) for i, z in enumerate(zs[:3])}      # consecutive elements: ratio x (third one x^2: clipped)
        out.append((f"window:{f:.6g}", dict(mol, over=over), 0.0))
        # one radius far below / above everything representable next to an ordinary one
        tiny = rng.choice([1e-300, 5e-324, 1e300, 1e-50])
        out.append((f"radius:{tiny:g}", dict(mol, over={zs[0]: tiny, zs[1]: rng.uniform(0.5, 3.0)}), 0.0))
    return out


def _corr_extreme(ctx: Ctx, mod):
    """classes 7 and 8 through the generated routines: the model must follow the implementation on shifted / scaled
    systems, scaled and extreme radii, and radii on both sides of the clipping window."""
    rng = ctx.rng
    jobs = []
    for it in range(ctx.n(14, 200)):
        mol = _molecule(ctx, m=rng.choice([2, 2, 3, 4, 5, 7]), n=rng.choice([3, 6, 11]))
        mol["over"] = {}
        base_tol = _tol(mol)
        d0 = min(1.0, _dmin(mol["at"]))
        for kind, mv, shift in _extreme_variants(ctx, mol):
            at, nums, pts, m, n = mv["at"], mv["nums"], mv["pts"], len(mv["at"]), len(mv["pts"])
            try:
                b = _becke(mod, mv)
            except Exception as e:
                ctx.info(f"constructor raised {type(e).__name__} for radii {mv['over']}")
                continue
            # the coordinates are the inputs of both sides; only the order of the floating-point operations differs
            tol = base_tol + 64 * EPS * shift / d0
            mt, pt = _mol_tokens(mv), _pts_tokens(pts)
            case = {"atnums": nums, "atcoords": at, "order": mv["order"], "radii": mv["over"], "npoints": n, "points": pts}
            tab = _table(rng, n, m)
            k = rng.randrange(m)
            with warnings_off():
                r = _run(lambda: np.array([b.generate_weights(pts, at, nums, select=j) for j in range(m)]).T.reshape(n, m))
                jobs.append((f"C06.weights gw {mt} {pt}", r, "weights:gw", kind, tol, case, "mat"))
                r = _run(lambda: b(pts, at, nums, np.array(tab)))
                jobs.append((f"C06.call {mt} {pt} {vec(tab)}", r, "__call__", kind, tol, dict(case, indices=tab), "vec"))
                r = _run(lambda: b.compute_atom_weight(pts, at, nums, k))
                jobs.append((f"C06.atom {mt} {pt} {k}", r, "compute_atom_weight", kind, tol, case, "vec"))
    for (line, impl, key, kind, tol, case, shape), ans in zip(jobs, driver_batch([j[0] for j in jobs])):
        ctx.count(dict(case, op=key, variant=kind), nontrivial=True, tag="extreme:" + kind.split(":")[0])
        model = _parse_mat(ans) if shape == "mat" else _parse(ans)
        if not _same(impl, model, tol):
            dev = None
            if impl[1] is not None and model[1] is not None and impl[1].shape == model[1].shape and impl[1].size:
                dev = float(np.nanmax(np.abs(impl[1] - model[1])))
            ctx.fail("corr", f"becke.{key}:{kind.split(':')[0]}", f"{key} on a {kind} variant ({len(case['atnums'])} atoms, order {case['order']}, radii {case['radii']}): "
                     f"implementation {impl[0]}, model {model[0]}, max deviation {dev}", witness=dict(case, impl=impl[1], model=model[1]))


def _oracle_alpha_window(ctx: Ctx, mod):
    """class 7 on the implementation: the documented contract of the cutoff of `_calculate_alpha` (|alpha| <= cutoff < 1/2, the
    unclipped value inside the window) on both sides of the window within factors 1.0001, 1.01 and 100, against the closed form
    alpha_raw = (r_B^2 - r_A^2) / (4 r_A r_B) (theorem alpha_raw_closed_form; not the code's u / (u^2 - 1))."""
    rng = ctx.rng
    B = mod.BeckeWeights
    for it in range(ctx.n(60, 600)):
        c = rng.choice([None, None, 0.45, 0.3, 0.49, rng.uniform(0.05, 0.499)])
        cut = 0.45 if c is None else c
        f = rng.choice([1 / 1.01, 1.01, 1 / 100, 100.0, 1 / 1.0001, 1.0001, 1 - 1e-9, 1 + 1e-9, rng.uniform(0.2, 3.0)])
        x = _window_ratio(cut * f)
        ra = rng.uniform(0.3, 4.0) * rng.choice([1.0, 1e-9, 1e9])
        rb = ra * x
        if rng.random() < 0.5:
            ra, rb = rb, ra
        raw = (rb * rb - ra * ra) / (4 * ra * rb)
        want = min(max(raw, -cut), cut)
        arr = np.array([ra, rb, ra])
        got = B._calculate_alpha(arr) if c is None else B._calculate_alpha(arr, cutoff=c)
        ctx.count(["alpha-window", it, c, f], nontrivial=True, tag="oracle:alpha-window:" + ("inside" if abs(raw) <= cut else "outside"))
        ok = (abs(got[0, 1] - want) <= 1e-12 and abs(got[1, 0] + want) <= 1e-12 and abs(got[2, 1] - want) <= 1e-12 and got[0, 2] == 0 and got[0, 0] == 0
              and np.all(np.abs(got) <= cut))
        if not ok:
            ctx.fail("oracle", "becke._calculate_alpha:window", f"_calculate_alpha(radii=[{ra!r}, {rb!r}], cutoff={cut}) = {got[0, 1]!r}; the shift u/(u^2-1) = {raw!r} clipped to "
                     f"[-cutoff, cutoff] is {want!r} (|alpha| must stay <= cutoff < 1/2)", witness=dict(radii=[ra, rb], cutoff=cut, alpha=got[0, 1], raw=raw),
                     snippet="import numpy as np\nfrom grid.becke import BeckeWeights\n"
                             f"ra, rb, cut = {ra!r}, {rb!r}, {cut!r}\n"
                             + ("a = BeckeWeights._calculate_alpha(np.array([ra, rb]))\n" if c is None else "a = BeckeWeights._calculate_alpha(np.array([ra, rb]), cutoff=cut)\n")
                             + "raw = (rb * rb - ra * ra) / (4 * ra * rb)\n"
                             "assert abs(a[0, 1] - min(max(raw, -cut), cut)) <= 1e-12 and abs(a[1, 0] + a[0, 1]) <= 1e-12 and np.all(np.abs(a) <= cut), (a, raw)\n")


XSNIP = """import warnings; warnings.filterwarnings('ignore')
import numpy as np
from grid.becke import BeckeWeights
from grid.hirshfeld import HirshfeldWeights
nan = float('nan')
at = np.array({at!r}, dtype=float).reshape(-1, 3)
nums = np.array({nums!r}, dtype=int)
pts = np.array({pts!r}, dtype=float).reshape(-1, 3)
over = {over!r}; order = {order}
M, N = len(at), len(pts)
def weights(b, pts, at):
    return np.array([b.generate_weights(pts, at, nums, select=k) for k in range(M)])
b = BeckeWeights(radii=over or None, order=order)
W = weights(b, pts, at)
"""


def _xsnippet(mol, body):
    return XSNIP.format(at=mol["at"].reshape(-1).tolist(), nums=[int(z) for z in mol["nums"]], pts=mol["pts"].reshape(-1).tolist(),
                        over=mol["over"], order=mol["order"]) + body


def _oracle_extreme(ctx: Ctx, mod, hmod, budget):
    """classes 8 and 12 on the implementation: invariance under large exactly representable shifts (bit-exact data),
    under rotations combined with large and moderate shifts (tolerance eps * |shift| / smallest distance), scaling of the
    geometry and of the radii; nuclei / mid-points in the shifted frame; all clauses on the extreme variants."""
    rng = ctx.rng
    nmol = 120 if budget == "large" else ctx.n(16, 160)
    worst = ctx.extra.setdefault("invariance_max_deviation", {})

    def rec(k, v):
        worst[k] = max(worst.get(k, 0.0), float(v))

    for it in range(nmol):
        mol = _molecule(ctx, m=rng.choice([1, 2, 2, 3, 4, 5, 8]), n=rng.choice([4, 9, 15]))
        mol["over"] = {z: v for z, v in mol["over"].items() if v == v}
        q = 2.0 ** -12
        at = np.round(mol["at"] / q) * q
        if len(set(map(tuple, at))) < len(at) or _dmin(at) < 0.5:
            continue
        pts = np.round(mol["pts"] / q) * q
        m = len(at)
        pts[0] = at[rng.randrange(m)]                                   # a nucleus
        if m >= 2:
            pts[1] = 0.5 * (at[0] + at[1])                              # a mid-point (exact: dyadic data)
        mq = dict(mol, at=at, pts=pts)
        nums, order = mq["nums"], mq["order"]
        amp = 1.5 ** max(order, 1)                                      # slope of the iterated switching polynomial
        b = _becke(mod, mq)
        with warnings_off():
            W = np.array([b.generate_weights(pts, at, nums, select=k) for k in range(m)])
            # (a) exact translations: every difference R_A - p is the same floating-point number -> the same weights
            for k in rng.sample([10, 11, 13, 16, 18, 20, 30], 3):
                sh = np.array([rng.choice([-1, 1]) * 2.0 ** k, rng.choice([0, 1, -1]) * 2.0 ** rng.choice([10, k]), rng.choice([-1, 1]) * 2.0 ** (k - 1)])
                assert np.all((at + sh) - sh == at) and np.all((pts + sh) - sh == pts)
                tab = _table(rng, len(pts), m)
                own = np.repeat(np.arange(m), np.diff(tab))
                ctx.count(["oracle", "translation-exact", it, k], nontrivial=True, tag="oracle:translation-exact")
                for name, got, ref in (("generate_weights", np.array([b.generate_weights(pts + sh, at + sh, nums, select=j) for j in range(m)]), W),
                                       ("compute_atom_weight", np.array([b.compute_atom_weight(pts + sh, at + sh, nums, j) for j in range(m)]), W),
                                       ("__call__", b(pts + sh, at + sh, nums, np.array(tab)), W[own, np.arange(len(pts))])):
                    dev = float(np.max(np.abs(got - ref))) if not np.isnan(got).any() else float("inf")
                    rec("translation-exact", dev)
                    if not dev <= 1e-15:
                        ctx.fail("oracle", f"becke.{name}:translation-exact", f"{name}: weights change by {dev} when the whole system ({m} atoms, dyadic coordinates) is translated by the exactly "
                                 f"representable vector {sh.tolist()} (every inter-particle difference is unchanged)", witness=dict(atnums=nums, atcoords=at, points=pts, shift=sh, order=order, radii=mq["over"]),
                                 snippet=_xsnippet(mq, f"sh = np.array({sh.tolist()!r}); tab = np.array({[int(v) for v in tab]!r}); own = np.repeat(np.arange(M), np.diff(tab))\n"
                                                   "assert np.all((at + sh) - sh == at) and np.all((pts + sh) - sh == pts)\n"
                                                   "for got, ref in ((weights(b, pts + sh, at + sh), W), (np.array([b.compute_atom_weight(pts + sh, at + sh, nums, k) for k in range(M)]), W),\n"
                                                   "                 (b(pts + sh, at + sh, nums, tab), W[own, np.arange(N)])):\n"
                                                   "    assert np.max(np.abs(got - ref)) <= 1e-15, ('weights change under an exact translation', np.max(np.abs(got - ref)))\n"))
                # the nuclei clause in the shifted frame
                Wn = np.array([b.generate_weights(at + sh, at + sh, nums, select=j) for j in range(m)])
                if not np.all(np.abs(Wn - np.eye(m)) <= 1e-13):
                    ctx.fail("oracle", "becke.generate_weights:nuclei-shifted", f"weights at the nuclei of a system translated by {sh.tolist()} are not 1 (own) / 0 (others)",
                             witness=dict(atnums=nums, atcoords=at + sh, order=order),
                             snippet=_xsnippet(dict(mq, at=at + sh, pts=at + sh), "assert np.all(np.abs(W - np.eye(M)) <= 1e-13), W\n"))
            # (b) rotation + shift (large and moderate), general data: tolerance eps * |shift| / smallest distance
            gat, gpts = mol["at"], mol["pts"]
            d0 = min(1.0, _dmin(gat))
            far = float(np.max(np.linalg.norm(gpts[:, None] - gat, axis=-1)))
            G = np.array([b.generate_weights(gpts, gat, nums, select=j) for j in range(m)])
            for k in (rng.choice([10, 12, 15, 17, 20]), None):
                R = _rotation(rng)
                t = np.array([rng.choice([-1, 1]) * 2.0 ** k, 2.0 ** k, -(2.0 ** (k - 1))]) if k is not None else np.array([rng.uniform(-100, 100) for _ in range(3)])
                G2 = np.array([b.generate_weights(gpts @ R.T + t, gat @ R.T + t, nums, select=j) for j in range(m)])
                size = max(1.0, float(np.max(np.abs(t))), far)
                tol = 16 * EPS * size * amp / d0
                dev = float(np.max(np.abs(G2 - G))) if not np.isnan(G2).any() else float("inf")
                rec("rigid-motion:large" if k is not None else "rigid-motion:moderate", dev / tol)
                ctx.count(["oracle", "rigid-motion", it, k], nontrivial=True, tag="oracle:rigid-motion:" + ("large" if k is not None else "moderate"))
                if not dev <= tol:
                    ctx.fail("oracle", "becke.generate_weights:rigid-motion-shift", f"weights change by {dev} (allowed {tol:.3g} = 16 eps |shift| 1.5^order / d_min) under a rotation and a shift of {t.tolist()} ({m} atoms)",
                             witness=dict(atnums=nums, atcoords=gat, points=gpts, rotation=R, translation=t, order=order, radii=mq["over"]),
                             snippet=_xsnippet(dict(mq, at=gat, pts=gpts), f"R = np.array({R.reshape(-1).tolist()!r}).reshape(3, 3); t = np.array({t.tolist()!r})\n"
                                               f"assert np.max(np.abs(weights(b, pts @ R.T + t, at @ R.T + t) - W)) <= {tol!r}\n"))
            # (c) scaling the geometry (degree-0 homogeneity of mu) and the radii (alpha depends on ratios only)
            for lam in (2.0 ** rng.choice([-40, -20, 20, 40]), 10.0 ** rng.choice([-12, -7, -3, 3, 7, 12])):
                G2 = np.array([b.generate_weights(gpts * lam, gat * lam, nums, select=j) for j in range(m)])
                tol = 1e-15 if lam in (2.0 ** -40, 2.0 ** -20, 2.0 ** 20, 2.0 ** 40) else 200 * EPS * amp * max(1.0, far) / d0
                dev = float(np.max(np.abs(G2 - G))) if not np.isnan(G2).any() else float("inf")
                rec("geometry-scale", dev)
                ctx.count(["oracle", "geometry-scale", it, lam], nontrivial=True, tag="oracle:geometry-scale")
                if not dev <= tol:
                    ctx.fail("oracle", "becke.generate_weights:geometry-scale", f"weights change by {dev} when all coordinates are multiplied by {lam!r}",
                             witness=dict(atnums=nums, atcoords=gat, points=gpts, factor=lam, order=order, radii=mq["over"]),
                             snippet=_xsnippet(dict(mq, at=gat, pts=gpts), f"assert np.max(np.abs(weights(b, pts * {lam!r}, at * {lam!r}) - W)) <= {tol!r}\n"))
            zs = sorted(set(int(z) for z in nums))
            base = {z: rng.uniform(0.4, 4.0) for z in zs}
            b0 = mod.BeckeWeights(radii=dict(base), order=order)
            G0 = np.array([b0.generate_weights(gpts, gat, nums, select=j) for j in range(m)])
            for lam in (2.0 ** rng.choice([-500, -60, 60, 500]), 10.0 ** rng.choice([-12, -5, 5, 12])):
                b1 = mod.BeckeWeights(radii={z: r * lam for z, r in base.items()}, order=order)
                G2 = np.array([b1.generate_weights(gpts, gat, nums, select=j) for j in range(m)])
                dev = float(np.max(np.abs(G2 - G0))) if not np.isnan(G2).any() else float("inf")
                rec("radii-scale", dev)
                ctx.count(["oracle", "radii-scale", it, lam], nontrivial=True, tag="oracle:radii-scale")
                if not dev <= 1e-13 * amp:
                    ctx.fail("oracle", "becke.generate_weights:radii-scale", f"weights change by {dev} when all radii are multiplied by {lam!r} (alpha depends on radius ratios only)",
                             witness=dict(atnums=nums, atcoords=gat, points=gpts, radii=base, factor=lam, order=order),
                             snippet=_xsnippet(dict(mq, at=gat, pts=gpts, over=base), f"b1 = BeckeWeights(radii={{z: r * {lam!r} for z, r in over.items()}}, order=order)\n"
                                               f"assert np.max(np.abs(weights(b1, pts, at) - W)) <= {1e-13 * amp!r}\n"))
        # (d) every clause on the extreme variants (partition, bounds, nuclei, all routes)
        if it % 2 == 0:
            for kind, mv, _shift in _extreme_variants(ctx, dict(mol, over={})):
                if kind.startswith("shift:2^"):
                    # far from the origin the coordinates themselves carry ~ eps * |shift|: use the dyadic copy
                    mv = dict(mv, at=at + (mv["at"][0] - mol["at"][0]), pts=pts + (mv["at"][0] - mol["at"][0]))
                ctx.count(["oracle", "extreme", it, kind], nontrivial=True, tag="oracle:extreme:" + kind.split(":")[0])
                with warnings_off():
                    _oracle_molecule(ctx, mod, mv, _table(rng, len(mv["pts"]), len(mv["at"])), motions=False)
    # Hirshfeld: exact translations, nearly coincident nuclei, mid-points (class 12)
    H = hmod.HirshfeldWeights
    for it in range(40 if budget == "large" else ctx.n(5, 50)):
        at, nums, pts, tab = _hirshfeld_case(ctx, hmod)
        q = 2.0 ** -12
        at, pts = np.round(at / q) * q, np.round(pts / q) * q
        m, n = len(at), len(pts)
        if m >= 2:
            pts[0] = 0.5 * (at[0] + at[1])
        ref = H()(pts, at, nums, np.array(tab))
        k = rng.choice([10, 14, 17, 20])
        sh = np.array([2.0 ** k, -(2.0 ** k), 2.0 ** (k - 1)])
        got = H()(pts + sh, at + sh, nums, np.array(tab))
        ctx.count(["oracle", "hirshfeld-translation", it, k], nontrivial=True, tag="oracle:hirshfeld:translation-exact")
        if not np.array_equal(got, ref, equal_nan=True):
            ctx.fail("oracle", "hirshfeld.__call__:translation-exact", f"Hirshfeld weights change by {float(np.nanmax(np.abs(got - ref)))} when the system (dyadic coordinates) is translated by {sh.tolist()}",
                     witness=dict(atnums=nums, atcoords=at, points=pts, indices=tab, shift=sh), snippet=_hsnippet(at + sh, nums, pts + sh, tab))
        if m >= 2:
            # two nuclei 1e-6 apart: the shares must still sum to one and be the pro-atom ratios
            at2 = at.copy()
            d = np.array([rng.gauss(0, 1) for _ in range(3)])
            at2[1] = at2[0] + d / np.linalg.norm(d) * 1e-6
            per = np.array([H()(pts, at2, nums, np.array([0] * (j + 1) + [n] * (m - j))) for j in range(m)])
            ctx.count(["oracle", "hirshfeld-close", it], nontrivial=True, tag="oracle:hirshfeld:close-nuclei")
            if not np.all(np.abs(per.sum(axis=0) - 1) <= 1e-12 * np.maximum(1, np.abs(per).sum(axis=0))):
                ctx.fail("oracle", "hirshfeld.__call__:sum-one", f"Hirshfeld weights of {m} atoms (two of them 1e-6 apart) sum to {per.sum(axis=0).tolist()}",
                         witness=dict(atnums=nums, atcoords=at2, points=pts, indices=tab), snippet=_hsnippet(at2, nums, pts, tab))


HIST = """import warnings; warnings.filterwarnings('ignore')
import numpy as np
from grid.becke import BeckeWeights
from grid.hirshfeld import HirshfeldWeights
from grid.utils import get_cov_radii
nan = float('nan')
at = np.array({at!r}, dtype=float).reshape(-1, 3); nums = np.array({nums!r}, dtype=int)
pts = np.array({pts!r}, dtype=float).reshape(-1, 3); tab = np.array({tab!r}, dtype=int)
radii = {over!r}; order = {order}; k = {k}; scenario = {scenario!r}
def routes(b):
    return [b(pts, at, nums, tab), b.generate_weights(pts, at, nums, pt_ind=list(tab)), b.compute_weights(pts, at, nums, pt_ind=list(tab)),
            b.compute_atom_weight(pts, at, nums, k), b.generate_weights(pts, at, nums, select=k)]
ref = routes(BeckeWeights(radii=dict(radii) or None, order=order))
def same(x, y):
    return all(np.array_equal(a, b, equal_nan=True) for a, b in zip(x, y))
if scenario == 'dict-modified-afterwards':
    d = dict(radii); b = BeckeWeights(radii=d, order=order); keep = dict(d)
    first = routes(b)
    for z in list(d): d[z] = 7.5
    d[1] = 0.123; d[55] = nan
    assert same(routes(b), ref) and same(first, ref), 'the weights follow an edit of the dictionary made after the constructor'
elif scenario == 'dict-shared':
    d = dict(radii); keep = repr(d); b1 = BeckeWeights(radii=d, order=order); b2 = BeckeWeights(radii=d, order=order)
    assert repr(d) == keep, 'the constructor modified the dictionary it was given'
    assert same(routes(b1), ref) and same(routes(b2), ref) and same(routes(b1), ref)
elif scenario == 'results-edited':
    b = BeckeWeights(radii=dict(radii) or None, order=order)
    for rep in range(2):
        got = routes(b)
        assert same(got, ref), 'a result changed after the caller edited an earlier result in place'
        for g in got: g[...] = -3.0
elif scenario == 'cutoff-alternating':
    b = BeckeWeights(radii=dict(radii) or None, order=order)
    for cut in (0.2, 0.45, 0.49, 0.3, 0.45):
        assert np.array_equal(b.compute_atom_weight(pts, at, nums, k, cutoff=cut) if cut != 0.3 else b.compute_atom_weight(pts, at, nums, k, cut), ref[3], equal_nan=True)
        assert same(routes(b), ref)
elif scenario == 'order-of-methods':
    b = BeckeWeights(radii=dict(radii) or None, order=order)
    for perm in ({perm!r}):
        got = [None] * 5
        fns = [lambda: b(pts, at, nums, tab), lambda: b.generate_weights(pts, at, nums, pt_ind=list(tab)),
               lambda: b.compute_weights(pts, at, nums, pt_ind=list(tab)), lambda: b.compute_atom_weight(pts, at, nums, k),
               lambda: b.generate_weights(pts, at, nums, select=k)]
        for i in perm:
            got[i] = fns[i]()
        assert same(got, ref), 'the answer of a route depends on which other routes were called before on the same object'
elif scenario == 'cov-radii-edited':
    r = get_cov_radii(np.arange(1, 87, 1), 'bragg'); r[...] = 1.0
    r2 = get_cov_radii(6); r2[...] = 9.0
    assert same(routes(BeckeWeights(radii=dict(radii) or None, order=order)), ref), 'an edit of the array get_cov_radii handed out changes later BeckeWeights objects'
elif scenario == 'hirshfeld-reuse':
    hn = np.array({hnums!r}, dtype=int)
    href = HirshfeldWeights()(pts, at, hn, tab)
    h = HirshfeldWeights()
    for rep in range(3):
        got = h(pts, at, hn, tab)
        assert np.array_equal(got, href, equal_nan=True), 'HirshfeldWeights: a repeated call on one object differs'
        got[...] = -1.0
        p = HirshfeldWeights.generate_proatom(pts, at[0], hn[0]); p[...] = 0.0
"""


def _oracle_histories(ctx: Ctx, mod, hmod, budget):
    """classes 9 / 10 / 11 on the implementation: dictionaries, objects and results that the caller keeps using.  Every
    scenario is a self-contained script (it is its own replay); the reference is always a freshly built object."""
    rng = ctx.rng
    scenarios = ["dict-modified-afterwards", "dict-shared", "results-edited", "cutoff-alternating", "order-of-methods", "cov-radii-edited", "hirshfeld-reuse"]
    for it in range(35 if budget == "large" else ctx.n(14, 70)):
        sc = scenarios[it % len(scenarios)]
        mol = _molecule(ctx, m=rng.choice([2, 3, 4, 5]), n=rng.choice([4, 7, 12]))
        zs = sorted(set(int(z) for z in mol["nums"]))
        over = {z: rng.uniform(0.4, 4.0) for z in rng.sample(zs, k=rng.randrange(1, len(zs) + 1))} if sc.startswith("dict") or rng.random() < 0.5 else {}
        tab = _table(rng, len(mol["pts"]), len(mol["at"]))
        perms = []
        for _ in range(3):
            p = list(range(5))
            rng.shuffle(p)
            perms.append(p)
        src = HIST.format(at=mol["at"].reshape(-1).tolist(), nums=[int(z) for z in mol["nums"]], pts=mol["pts"].reshape(-1).tolist(), tab=[int(v) for v in tab],
                          over=over, order=mol["order"], k=rng.randrange(len(mol["at"])), scenario=sc, perm=perms,
                          hnums=[rng.choice([1, 6, 7, 8]) for _ in mol["nums"]])
        ctx.count(["history", sc, it], nontrivial=True, tag="history:" + sc)
        ctx.traces += 1
        U = importlib.import_module("grid.utils")
        keep = {n: getattr(U, n).copy() for n in ("_bragg", "_cambridge", "_alvarez")}
        try:
            exec(compile(src, f"<C06 history {sc}>", "exec"), {"__name__": "__c06_history__"})
        except AssertionError as e:
            ctx.fail("oracle", f"becke.history:{sc}", f"scenario `{sc}`: {e}", witness=dict(scenario=sc, atnums=mol["nums"], atcoords=mol["at"], points=mol["pts"], indices=tab, radii=over, order=mol["order"]),
                     snippet=src)
        except Exception as e:
            ctx.fail("oracle", f"becke.history:{sc}", f"scenario `{sc}` raised {type(e).__name__}: {e}", witness=dict(scenario=sc, atnums=mol["nums"], atcoords=mol["at"], radii=over), snippet=src)
        finally:
            for n, arr in keep.items():          # a scenario that managed to edit a module table must not poison the rest of the run
                if not np.array_equal(getattr(U, n), arr, equal_nan=True):
                    getattr(U, n)[...] = arr


# ----------------------------------------------------------------------------------------------
# round 4: crash-proof parts; degenerate point sets (one point, identical points, special positions, atoms at the origin,
# signed zeros) through every route against generate_weights and an independent scalar Becke reference; argument
# combinations, shared argument objects / views, no trace after an exception, radii of other kinds, unequal small shapes
# ----------------------------------------------------------------------------------------------
def _run_parts(ctx: Ctx, kind, parts):
    """run the parts independently.  An exception raised by the *library* (a frame of the grid package below the last harness
    frame) on an input inside the envelope is a failure of that part with its own key; any other exception (harness, driver,
    translator) is kept and the first one is re-raised after all parts have run, so that it never hides what the others find."""
    import traceback

    first = None
    for name, fn in parts:
        try:
            fn()
        except Exception as e:  # noqa: BLE001
            frames = traceback.extract_tb(e.__traceback__)
            last_h = max([i for i, f in enumerate(frames) if "/harness/" in f.filename.replace("\\", "/")], default=-1)
            lib = [f for f in frames[last_h + 1:] if "/grid/" in f.filename.replace("\\", "/") and "/harness/" not in f.filename]
            if lib and type(e).__name__ != "DriverError":
                f = lib[-1]
                ctx.fail(kind, f"{name}:raises", f"part `{name}` of the {kind}: the library raised {type(e).__name__}: {str(e)[:200]} at {f.filename.split('/grid/')[-1]}:{f.lineno} "
                         f"(`{(f.line or '').strip()[:120]}`) on an input the part expects to be accepted", witness=dict(part=name, exception=type(e).__name__, message=str(e)[:400]))
            elif first is None:
                first = e
    if first is not None:
        raise first


def _eff_radius(d, z):
    """the radius the documentation describes for element z (nan -> the element before, then the one before that)"""
    r = float(d[int(z)])
    if r != r:
        r = float(np.nan_to_num(d[int(z) - 1])) or float(np.nan_to_num(d[int(z) - 2]))
    return r


def _becke_scalar(at, radii, order, p, cutoff=0.45):
    """Becke's scheme (J. Chem. Phys. 88, 2547) for ONE point in plain Python floats: chi = R_A / R_B, u = (chi - 1) / (chi + 1),
    a = u / (u^2 - 1) clipped to +-cutoff, nu = mu + a (1 - mu^2), f iterated `order` times, s = (1 - f) / 2, cell products,
    normalisation.  No NumPy arrays, no broadcasting: independent of the array code under test."""
    m = len(at)
    pos = [[float(x) for x in a] for a in at]
    q = [float(x) for x in p]
    dist = [math.sqrt(sum((a[c] - q[c]) ** 2 for c in range(3))) for a in pos]
    cells = []
    for A in range(m):
        prod = 1.0
        for B in range(m):
            if B == A:
                continue
            dab = math.sqrt(sum((pos[A][c] - pos[B][c]) ** 2 for c in range(3)))
            mu = (dist[A] - dist[B]) / dab
            chi = radii[A] / radii[B] if radii[B] != 0 and math.isfinite(radii[A] / radii[B]) else None
            if chi is None:
                u = (radii[A] - radii[B]) / (radii[A] + radii[B])
            else:
                u = (chi - 1.0) / (chi + 1.0)
            a = u / (u * u - 1.0) if abs(u) != 1.0 else math.copysign(math.inf, -u)
            a = min(max(a, -cutoff), cutoff)
            f = mu + a * (1.0 - mu * mu)
            for _ in range(max(order, 0)):
                f = 1.5 * f - 0.5 * f ** 3
            prod *= 0.5 * (1.0 - f)
        cells.append(prod)
    tot = sum(cells)
    return [c / tot for c in cells]


def _becke_reference(b, mol):
    """atoms x points matrix of the scalar reference"""
    radii = [_eff_radius(b._radii, z) for z in mol["nums"]]
    return np.array([_becke_scalar(mol["at"], radii, mol["order"], p) for p in mol["pts"]]).T.reshape(len(mol["at"]), len(mol["pts"]))


def _special_case(ctx: Ctx, m=None, n_hint=None):
    """a molecule with special coordinates (an atom exactly at the origin, components exactly 0.0 / -0.0) and a point set made
    of blocks of identical points at special positions, block i being the segment of atom i (blocks of length 0 included)."""
    rng = ctx.rng
    for _attempt in range(50):
        m_ = m or rng.choice([1, 2, 2, 3, 3, 4, 5, 7])
        mol = _molecule(ctx, m=m_, n=1)
        mol["over"] = {z: v for z, v in mol["over"].items() if v == v}
        at = mol["at"].copy()
        u = rng.random()
        if u < 0.5:
            at = at - at[rng.randrange(m_)]                                # one nucleus exactly at the Cartesian origin
        elif u < 0.7:
            at = np.array([[rng.randrange(-2, 3) * 1.5 for _ in range(3)] for _ in range(m_)])     # many exact zeros
            if rng.random() < 0.6:
                at[rng.randrange(m_)] = 0.0
        if rng.random() < 0.5:
            at[rng.randrange(m_), rng.randrange(3)] = rng.choice([0.0, -0.0])
        if rng.random() < 0.3:
            j = rng.randrange(m_)
            at[j] = np.where(at[j] == 0, rng.choice([0.0, -0.0]), at[j])      # the sign of the zeros of one nucleus
        if len(set(tuple(float(x) + 0.0 for x in a) for a in at)) == m_ and _dmin(at) >= 0.5:
            break
    else:
        at = mol["at"]
    mol["at"] = at
    origin_atoms = [j for j in range(m_) if not np.any(at[j])]

    def position():
        kinds = ["origin", "origin", "neg-zero-origin", "nucleus", "nucleus", "generic", "zero-component"]
        if origin_atoms:
            kinds += ["nucleus-at-origin"] * 3
        if m_ >= 2:
            kinds += ["mid-point", "mid-point"]
        k = rng.choice(kinds)
        if k == "origin":
            return k, np.zeros(3)
        if k == "neg-zero-origin":
            return k, np.array([rng.choice([0.0, -0.0]) for _ in range(3)]) * 1.0 - 0.0
        if k == "nucleus":
            return k, at[rng.randrange(m_)].copy()
        if k == "nucleus-at-origin":
            return k, at[rng.choice(origin_atoms)].copy()
        if k == "mid-point":
            i, j = rng.sample(range(m_), 2)
            return k, 0.5 * (at[i] + at[j])
        p = at[rng.randrange(m_)] + np.array([rng.gauss(0, 1.5) for _ in range(3)])
        if k == "zero-component":
            p[rng.randrange(3)] = rng.choice([0.0, -0.0])
        return k, p

    blocks, kinds = [], []
    style = rng.choice(["one-point", "identical", "blocks", "blocks", "blocks"]) if n_hint is None else "blocks"
    if style == "one-point":
        k, p = position()
        owner = rng.randrange(m_)
        blocks = [(p, 1 if i == owner else 0) for i in range(m_)]
        kinds = [k]
    elif style == "identical":
        k, p = position()
        owner = rng.randrange(m_)
        cnt = rng.choice([2, 3, 4])
        blocks = [(p, cnt if i == owner else 0) for i in range(m_)]
        kinds = [k]
    else:
        for i in range(m_):
            k, p = position()
            blocks.append((p, rng.choice([0, 1, 1, 2, 3])))
            kinds.append(k)
        if all(c == 0 for _, c in blocks):
            blocks[rng.randrange(m_)] = (blocks[0][0], 1)
    pts = np.array([p for p, c in blocks for _ in range(c)], dtype=float).reshape(-1, 3)
    tab = [0]
    for _, c in blocks:
        tab.append(tab[-1] + c)
    mol["pts"] = pts
    return mol, tab, style + ":" + "+".join(sorted(set(kinds)))


DEG_SNIP = """import warnings; warnings.filterwarnings('ignore')
import math
import numpy as np
from grid.becke import BeckeWeights
nan = float('nan')
at = np.array({at!r}, dtype=float).reshape(-1, 3)
nums = np.array({nums!r}, dtype=int)
pts = np.array({pts!r}, dtype=float).reshape(-1, 3)
tab = {tab!r}; over = {over!r}; order = {order}; tol = {tol!r}
M, N = len(at), len(pts)
b = BeckeWeights(radii=over or None, order=order)
def eff(z):
    r = float(b._radii[int(z)])
    return r if r == r else (float(np.nan_to_num(b._radii[int(z) - 1])) or float(np.nan_to_num(b._radii[int(z) - 2])))
rad = [eff(z) for z in nums]
def scalar(p):
    dist = [math.sqrt(sum((float(a[c]) - float(p[c])) ** 2 for c in range(3))) for a in at]
    cells = []
    for A in range(M):
        prod = 1.0
        for B in range(M):
            if B == A: continue
            dab = math.sqrt(sum((float(at[A][c]) - float(at[B][c])) ** 2 for c in range(3)))
            mu = (dist[A] - dist[B]) / dab
            u = (rad[A] - rad[B]) / (rad[A] + rad[B])
            a = u / (u * u - 1.0) if abs(u) != 1.0 else math.copysign(math.inf, -u)
            a = min(max(a, -0.45), 0.45)
            f = mu + a * (1.0 - mu * mu)
            for _ in range(max(order, 0)): f = 1.5 * f - 0.5 * f ** 3
            prod *= 0.5 * (1.0 - f)
        cells.append(prod)
    return [c / sum(cells) for c in cells]
R = np.array([scalar(p) for p in pts]).T.reshape(M, N)
W = np.array([b.generate_weights(pts, at, nums, select=k) for k in range(M)]).reshape(M, N)
own = np.repeat(np.arange(M), np.diff(tab))
seg = R[own, np.arange(N)]
checks = [('generate_weights(select=k)', W, R),
          ('compute_atom_weight(k)', np.array([b.compute_atom_weight(pts, at, nums, k) for k in range(M)]).reshape(M, N), R),
          ('compute_weights(select=k)', np.array([b.compute_weights(pts, at, nums, select=k) for k in range(M)]).reshape(M, N), R),
          ('compute_atom_weight(one point at a time)', np.array([[b.compute_atom_weight(pts[j:j + 1], at, nums, k)[0] for j in range(N)] for k in range(M)]).reshape(M, N), R),
          ('compute_atom_weight(segment k)', np.concatenate([b.compute_atom_weight(pts[tab[k]:tab[k + 1]], at, nums, k) for k in range(M)]), seg),
          ('generate_weights(pt_ind)', b.generate_weights(pts, at, nums, pt_ind=list(tab)) if M > 1 or True else None, seg),
          ('compute_weights(pt_ind)', b.compute_weights(pts, at, nums, pt_ind=list(tab)), seg),
          ('__call__', b(pts, at, nums, np.array(tab)), seg)]
for name, got, want in checks:
    got = np.asarray(got, dtype=float)
    assert got.shape == want.shape and np.all(np.abs(got - want) <= tol), (name, 'differs from the scalar Becke reference', got, want)
"""


def _deg_snippet(mol, tab, tol):
    return DEG_SNIP.format(at=mol["at"].reshape(-1).tolist(), nums=[int(z) for z in mol["nums"]], pts=mol["pts"].reshape(-1).tolist(),
                           tab=[int(v) for v in tab], over=mol["over"], order=mol["order"], tol=tol)


def _all_routes(b, mol, tab):
    """every public route -> list of (key, description, callable, which reference: 'matrix' (atoms x points) or 'segments')"""
    at, nums, pts, m, n = mol["at"], mol["nums"], mol["pts"], len(mol["at"]), len(mol["pts"])
    T = list(tab)
    return [
        ("becke.generate_weights:select", "generate_weights(select=k) for every k", lambda: np.array([b.generate_weights(pts, at, nums, select=k) for k in range(m)]).reshape(m, n), "matrix"),
        ("becke.compute_atom_weight:per-atom", "compute_atom_weight(…, k) for every k", lambda: np.array([b.compute_atom_weight(pts, at, nums, k) for k in range(m)]).reshape(m, n), "matrix"),
        ("becke.compute_weights:select", "compute_weights(select=k) for every k", lambda: np.array([b.compute_weights(pts, at, nums, select=k) for k in range(m)]).reshape(m, n), "matrix"),
        ("becke.compute_atom_weight:single-points", "compute_atom_weight on one point at a time", lambda: np.array([[b.compute_atom_weight(pts[j:j + 1], at, nums, k)[0] for j in range(n)] for k in range(m)]).reshape(m, n), "matrix"),
        ("becke.generate_weights:one-sector", "generate_weights(select=np.int64(k), pt_ind=[0, N])", lambda: np.array([b.generate_weights(pts, at, nums, select=np.int64(k), pt_ind=[0, n]) for k in range(m)]).reshape(m, n), "matrix"),
        ("becke.compute_atom_weight:segments", "compute_atom_weight on the segment of every atom", lambda: np.concatenate([b.compute_atom_weight(pts[T[k]:T[k + 1]], at, nums, k) for k in range(m)]), "segments"),
        ("becke.generate_weights:segments", f"generate_weights(pt_ind={T})", lambda: b.generate_weights(pts, at, nums, pt_ind=T), "segments"),
        ("becke.compute_weights:segments", f"compute_weights(pt_ind={T})", lambda: b.compute_weights(pts, at, nums, pt_ind=T), "segments"),
        ("becke.__call__:chunking", f"__call__(indices={T})", lambda: b(pts, at, nums, np.array(T)), "segments"),
    ]


def _ref_tol(mol):
    """the scalar reference and the array code order their operations differently: 1e-12, amplified by 1.5^order (slope of the
    iterated polynomial) and by distance / smallest inter-nuclear distance"""
    at, pts = mol["at"], mol["pts"]
    far = float(np.max(np.linalg.norm(pts[:, None] - at, axis=-1))) if len(pts) else 1.0
    return 1e-12 * 1.5 ** max(mol["order"], 1) * max(1.0, far) / min(1.0, _dmin(at))


def _oracle_degenerate(ctx: Ctx, mod, budget):
    """classes 12 / 20: every route on ONE point, on several identical points, on segments consisting of such points with empty
    segments beside them; points at the Cartesian origin (all components 0.0 / -0.0), on a nucleus, on a nucleus that sits at
    the origin, at a mid-point; molecules with an atom at the origin and signed-zero coordinates; atoms x points with both
    sizes in 1..4 (equal and unequal).  Every route against generate_weights AND against the scalar reference."""
    rng = ctx.rng
    ncase = 600 if budget == "large" else ctx.n(90, 900)
    shapes = [(m, n) for m in (1, 2, 3, 4) for n in (1, 2, 3, 4)]
    for it in range(ncase):
        if it < len(shapes) * 2 and it % 2 == 1:
            # small unequal / equal shapes with generic points (a transposed intermediate shows against the scalar reference)
            m, n = shapes[it // 2]
            mol = _molecule(ctx, m=m, n=n)
            mol["over"] = {z: v for z, v in mol["over"].items() if v == v}
            tab, label = _table(rng, n, m), f"shape:{m}x{n}"
        else:
            mol, tab, label = _special_case(ctx)
        at, nums, pts, m, n = mol["at"], mol["nums"], mol["pts"], len(mol["at"]), len(mol["pts"])
        if n == 0:
            continue
        ctx.count(["degenerate", label, it, m, n], nontrivial=True, tag="oracle:degenerate:" + label.split(":")[0])
        for kd in label.split(":")[1].split("+") if ":" in label and not label.startswith("shape") else []:
            ctx.tagc("oracle:degenerate:position:" + kd)
        with warnings_off():
            b = _becke(mod, mol)
            R = _becke_reference(b, mol)
            if not np.all(np.isfinite(R)):
                continue                                           # (orders at which every cell underflows: recorded elsewhere)
            own = np.repeat(np.arange(m), np.diff(tab))
            refs = {"matrix": R, "segments": R[own, np.arange(n)]}
            tol = _ref_tol(mol)
            wit = dict(atnums=nums, atcoords=at, points=pts, indices=tab, order=mol["order"], radii=mol["over"], kind=label)
            W = None
            for key, desc, fn, which in _all_routes(b, mol, tab):
                try:
                    got = np.asarray(fn(), dtype=float)
                except Exception as e:  # noqa: BLE001
                    ctx.fail("oracle", key + ":raises", f"{desc} raised {type(e).__name__}: {e} on {m} atoms, {n} points ({label})", witness=wit, snippet=_deg_snippet(mol, tab, tol))
                    continue
                if key == "becke.generate_weights:select":
                    W = got
                want = refs[which]
                ok = got.shape == want.shape and bool(np.all(np.abs(got - want) <= tol))
                if ok and W is not None and which == "matrix":
                    ok = bool(np.all(np.abs(got - W) <= 1e-13))    # and the routes among themselves, tighter
                if not ok:
                    dev = float(np.nanmax(np.abs(got - want))) if got.shape == want.shape and got.size else str(got.shape)
                    ctx.fail("oracle", key + ":degenerate", f"{desc} differs from the scalar Becke reference by {dev} on {m} atoms at {at.tolist()} and {n} point(s) {pts.tolist()[:4]} "
                             f"({label}, indices {tab}, order {mol['order']}): got {got.reshape(-1)[:6].tolist()}, reference {want.reshape(-1)[:6].tolist()}", witness=wit, snippet=_deg_snippet(mol, tab, tol))
            # the clauses themselves on the reference-free side: partition of unity, own nucleus
            if W is not None and W.shape == (m, n) and not np.all(np.abs(W.sum(axis=0) - 1) <= 1e-12):
                ctx.fail("oracle", "becke.generate_weights:partition", f"Becke weights sum to {W.sum(axis=0).tolist()} on {label}", witness=wit, snippet=_deg_snippet(mol, tab, tol))


def _corr_degenerate(ctx: Ctx, mod):
    """the same degenerate cases through the generated routines (model vs implementation)"""
    rng = ctx.rng
    jobs = []
    for it in range(ctx.n(40, 500)):
        mol, tab, label = _special_case(ctx)
        at, nums, pts, m, n = mol["at"], mol["nums"], mol["pts"], len(mol["at"]), len(mol["pts"])
        try:
            b = _becke(mod, mol)
        except Exception:
            continue
        mt, pt, tol = _mol_tokens(mol), _pts_tokens(pts), _tol(mol)
        case = {"atnums": nums, "atcoords": at, "order": mol["order"], "radii": mol["over"], "npoints": n, "points": pts, "indices": tab, "kind": label}
        k = rng.randrange(m)
        with warnings_off():
            for route, fn in (("gw", lambda j: b.generate_weights(pts, at, nums, select=j)), ("caw", lambda j: b.compute_atom_weight(pts, at, nums, j))):
                r = _run(lambda: np.array([fn(j) for j in range(m)]).T.reshape(n, m))
                jobs.append((f"C06.weights {route} {mt} {pt}", r, f"weights:{route}", tol, case, "mat"))
            jobs.append((f"C06.compute {mt} {pt} - {vec(tab)}", _run(lambda: b.compute_weights(pts, at, nums, pt_ind=tab)), "compute_weights", tol, case, "vec"))
            jobs.append((f"C06.generate {mt} {pt} - {vec(tab)}", _run(lambda: b.generate_weights(pts, at, nums, pt_ind=tab)), "generate_weights", tol, case, "vec"))
            jobs.append((f"C06.call {mt} {pt} {vec(tab)}", _run(lambda: b(pts, at, nums, np.array(tab))), "__call__", tol, case, "vec"))
            jobs.append((f"C06.atom {mt} {pt} {k}", _run(lambda: b.compute_atom_weight(pts, at, nums, k)), "compute_atom_weight", tol, case, "vec"))
            jobs.append((f"C06.compute {mt} {pt} 1 {k} -", _run(lambda: b.compute_weights(pts, at, nums, select=[k])), "compute_weights:select", tol, case, "vec"))
            # every segment on its own through the per-atom routine
            for j in range(m):
                seg = pts[tab[j]:tab[j + 1]]
                jobs.append((f"C06.atom {mt} {_pts_tokens(seg)} {j}", _run(lambda: b.compute_atom_weight(seg, at, nums, j)), "compute_atom_weight:segment", tol, dict(case, points=seg, npoints=len(seg)), "vec"))
    for (line, impl, key, tol, case, shape), ans in zip(jobs, driver_batch([j[0] for j in jobs])):
        ctx.count(dict(case, op=key), nontrivial=True, tag="degenerate:" + case["kind"].split(":")[0])
        model = _parse_mat(ans) if shape == "mat" else _parse(ans)
        if not _same(impl, model, tol):
            dev = None
            if impl[1] is not None and model[1] is not None and impl[1].shape == model[1].shape and impl[1].size:
                dev = float(np.nanmax(np.abs(impl[1] - model[1])))
            ctx.fail("corr", f"becke.{key}:degenerate", f"{key} on {case['kind']} ({len(case['atnums'])} atoms, {case['npoints']} points {np.asarray(case['points']).tolist()[:3]}, order {case['order']}): "
                     f"implementation {impl[0]} {None if impl[1] is None else impl[1].reshape(-1)[:4]}, model {model[0]} {None if model[1] is None else model[1].reshape(-1)[:4]}, max deviation {dev}",
                     witness=dict(case, impl=impl[1], model=model[1]))


ARG = """import warnings; warnings.filterwarnings('ignore')
import numpy as np
from grid.becke import BeckeWeights
from grid.hirshfeld import HirshfeldWeights
from grid.utils import get_cov_radii
nan = float('nan')
at = np.array({at!r}, dtype=float).reshape(-1, 3); nums = np.array({nums!r}, dtype=int)
pts = np.array({pts!r}, dtype=float).reshape(-1, 3); tab = np.array({tab!r}, dtype=int)
radii = {over!r}; order = {order}; k = {k}; scenario = {scenario!r}; hn = np.array({hnums!r}, dtype=int)
M, N = len(at), len(pts)
def routes(b, pts=pts, at=at, nums=nums, tab=tab):
    return [b(pts, at, nums, tab), b.generate_weights(pts, at, nums, pt_ind=list(tab)), b.compute_weights(pts, at, nums, pt_ind=list(tab)),
            b.compute_atom_weight(pts, at, nums, k), b.generate_weights(pts, at, nums, select=k), b.compute_weights(pts, at, nums, select=k)]
def same(x, y, tol=0.0):
    return all(np.shape(a) == np.shape(b) and np.all((np.abs(np.asarray(a) - np.asarray(b)) <= tol) | (np.isnan(a) & np.isnan(b))) for a, b in zip(x, y))
ref = routes(BeckeWeights(radii=dict(radii) or None, order=order))
href = HirshfeldWeights()(pts, at, hn, tab)
if scenario == 'argument-forms':
    r0 = dict(radii) or None
    objs = [BeckeWeights(r0, order), BeckeWeights(order=order, radii=r0), BeckeWeights(radii=r0, order=order)]
    if order == 3: objs += [BeckeWeights(r0), BeckeWeights(radii=r0)]
    if not radii: objs += [BeckeWeights(order=order), BeckeWeights(None, order), BeckeWeights(radii=None, order=order)]
    for b in objs:
        assert same(routes(b), ref), 'the constructor arguments given positionally / by keyword / omitted / as explicit defaults give different weights'
    b = objs[0]
    forms = [b(points=pts, atcoords=at, atnums=nums, indices=tab), b.__call__(pts, at, atnums=nums, indices=tab),
             b.generate_weights(pts, at, nums, select=None, pt_ind=list(tab)), b.generate_weights(points=pts, atcoords=at, atnums=nums, pt_ind=list(tab)),
             b.generate_weights(pts, at, nums, select=list(range(M)), pt_ind=list(tab)), b.generate_weights(pts, at, nums, select=np.arange(M), pt_ind=tuple(tab)),
             b.compute_weights(pts, at, nums, select=None, pt_ind=list(tab)), b.compute_weights(points=pts, atcoords=at, atnums=nums, pt_ind=list(tab), select=list(range(M)))]
    for f, r in zip(forms, (0, 0, 1, 1, 1, 1, 2, 2)):
        assert np.array_equal(f, ref[r], equal_nan=True), 'an argument form of the segment-wise call differs from the plain one'
    one = [b.compute_atom_weight(pts, at, nums, k, 0.45), b.compute_atom_weight(pts, at, nums, select=k), b.compute_atom_weight(points=pts, atcoords=at, atnums=nums, select=k, cutoff=0.45),
           b.generate_weights(pts, at, nums, select=k, pt_ind=None), b.generate_weights(pts, at, nums, select=k, pt_ind=[0, N]), b.generate_weights(pts, at, nums, select=[k], pt_ind=[0, N]),
           b.compute_weights(pts, at, nums, select=k, pt_ind=None), b.compute_weights(pts, at, nums, select=[k]), b.compute_weights(pts, at, nums, select=np.int64(k), pt_ind=[0, N])]
    for f in one:
        assert np.array_equal(f, ref[3], equal_nan=True), 'an argument form of the one-atom call differs from the plain one'
    # both alternatives at once: `select` says which atoms, `pt_ind` where; the number of sectors must match (documented ValueError)
    for bad in (dict(select=k, pt_ind=list(tab)), dict(select=list(range(M)) + [0], pt_ind=list(tab)), dict(select=None, pt_ind=[0])):
        if M == 1 and bad.get('select') == k and len(tab) == 2: continue
        for meth in (b.generate_weights, b.compute_weights):
            try:
                meth(pts, at, nums, **bad); raise AssertionError(f'{{meth.__name__}}({{bad}}) was accepted')
            except ValueError: pass
    assert np.array_equal(HirshfeldWeights()(points=pts, atcoords=at, atnums=hn, indices=tab), href, equal_nan=True)
    assert np.array_equal(get_cov_radii(atnums=nums, cov_type='bragg'), get_cov_radii(nums), equal_nan=True) and np.array_equal(get_cov_radii(nums, 'bragg'), get_cov_radii(nums), equal_nan=True)
elif scenario == 'shared-arguments':
    # every argument is a view into ONE larger caller array; the same objects are used for several requests and entry points
    big = np.full(7 + 3 * N + 5 + 3 * M + 4, 12345.678)
    P = big[7:7 + 3 * N].reshape(N, 3); P[...] = pts
    A = big[7 + 3 * N + 5:7 + 3 * N + 5 + 3 * M].reshape(M, 3); A[...] = at
    ibig = np.full(3 + M + 2 + (M + 1) + 3, -77, dtype=int)
    Z = ibig[3:3 + M]; Z[...] = nums
    T = ibig[3 + M + 2:3 + M + 2 + M + 1]; T[...] = tab
    snap = (big.tobytes(), ibig.tobytes())
    b = BeckeWeights(radii=dict(radii) or None, order=order)
    for rep in range(3):
        assert same(routes(b, P, A, Z, T), ref), 'views into a larger array give different weights than pristine copies'
        assert (big.tobytes(), ibig.tobytes()) == snap, 'an argument (or the memory around the view) was modified'
    # the same array object for two parameters: the weights at the nuclei
    Wn = np.array([b.generate_weights(A, A, Z, select=j) for j in range(M)]); Cn = np.array([b.compute_atom_weight(A, A, Z, j) for j in range(M)])
    assert np.all(np.abs(Wn - np.eye(M)) <= 1e-13) and np.all(np.abs(Cn - np.eye(M)) <= 1e-13), 'points is atcoords: weights at the nuclei are not the identity'
    hz = ibig[3:3 + M].copy(); hz[...] = hn
    for rep in range(2):
        assert np.array_equal(HirshfeldWeights()(P, A, hz, T), href, equal_nan=True)
    assert (big.tobytes(), ibig.tobytes()) == snap, 'an argument (or the memory around the view) was modified'
elif scenario == 'after-exception':
    b = BeckeWeights(radii=dict(radii) or None, order=order)
    h = HirshfeldWeights()
    bad_calls = [lambda: b.generate_weights(pts, at, nums, pt_ind=[0]), lambda: b.compute_weights(pts, at, nums, pt_ind=[0]),
                 lambda: b.generate_weights(pts, at, nums, select=list(range(M)) + [0], pt_ind=list(tab)), lambda: b.generate_weights(pts, at, nums, select=M + 3),
                 lambda: b.compute_atom_weight(pts, at, nums, M + 3), lambda: b.compute_weights(pts, at, nums, select=M + 3),
                 lambda: b.generate_weights(pts, at, np.array([0] * M), select=0), lambda: b.compute_atom_weight(pts, at, np.array([200] * M), 0), lambda: b.generate_weights(pts, at, np.array([87] * M), select=0), lambda: b(pts, at, np.array([88] + [1] * (M - 1)), tab),
                 lambda: b(pts[:0], at, nums, tab * 0), lambda: b(pts, at, np.array([-5] * M), tab), lambda: b.generate_weights(pts, at[:, :2], nums, select=0),
                 lambda: BeckeWeights(radii=[1.0], order=order), lambda: BeckeWeights(radii={{1.0: 2.0}}), lambda: BeckeWeights(order=3.0),
                 lambda: h(pts, at, hn.astype(float), tab), lambda: h(pts, at, np.array([1000] * M), tab), lambda: h(pts, at, hn, tab[:1]),
                 lambda: get_cov_radii(0), lambda: get_cov_radii(nums, 'Bragg'), lambda: get_cov_radii([500])]
    for i in {perm!r}:
        for attempt in (1, 2):                    # a rejected call is rejected again (the first rejection left nothing behind)
            try:
                bad_calls[i % len(bad_calls)]()
                raised = False
            except Exception:
                raised = True
            assert raised, f'rejected call number {{i % len(bad_calls)}} was accepted (attempt {{attempt}})'
        assert same(routes(b), ref), 'after a call that raised, the same object answers differently'
        assert np.array_equal(h(pts, at, hn, tab), href, equal_nan=True), 'after a call that raised, the HirshfeldWeights object answers differently'
    assert same(routes(BeckeWeights(radii=dict(radii) or None, order=order)), ref), 'after calls that raised, a new object answers differently'
elif scenario == 'radii-kinds':
    # the dictionary values held by the object: Python int, np.float64, np.int64, 0-d arrays -> the float64 answer;
    # np.float32 values (same numbers) are computed in single precision by NumPy (recorded, <= 5e-6)
    vals = {{z: v for z, v in zip(sorted(set(int(z) for z in nums)), {vals!r})}}
    fref = routes(BeckeWeights(radii={{z: float(v) for z, v in vals.items()}}, order=order))
    for conv in (lambda v: int(v) if float(v).is_integer() else float(v), np.float64, lambda v: np.array(float(v)), lambda v: np.int64(v) if float(v).is_integer() else np.float64(v)):       # (bool values are not radii: an all-bool dictionary makes NumPy build a boolean array, TypeError)
        assert same(routes(BeckeWeights(radii={{z: conv(v) for z, v in vals.items()}}, order=order)), fref), 'radii given as another numeric kind (same values) give different weights'
    assert same(routes(BeckeWeights(radii={{z: np.float32(v) for z, v in vals.items()}}, order=order)), fref, 5e-6), 'float32 radii (same values) deviate by more than single precision'
    # array arguments that are what a grid object would hand over: read-only, negative strides, Fortran order, integer-valued coordinates
    b = BeckeWeights(radii={{z: float(v) for z, v in vals.items()}}, order=order)
    q = 0.25
    pq, aq = np.round(pts / q) * q, np.round(at / q) * q
    if len(set(map(tuple, aq))) == M:
        r2 = routes(b, pq, aq)
        ro = pq.copy(); ro.setflags(write=False)
        for P, A in ((pq[::-1].copy()[::-1], aq[::-1].copy()[::-1]), (np.asfortranarray(pq), np.asfortranarray(aq)), (ro, aq), (np.hstack([pq, pq])[:, 3:], np.hstack([aq, aq])[:, :3])):
            assert same(routes(b, P, A), r2), 'strided / read-only / Fortran-ordered coordinates give different weights'
        pi, ai = np.round(pts).astype(np.int64), np.round(at * 2).astype(np.int64)
        if len(set(map(tuple, ai))) == M:
            assert same(routes(b, pi, ai), routes(b, pi.astype(float), ai.astype(float))), 'integer-dtype coordinates give different weights than the same values in float64'
            assert same(routes(b, pi.astype(np.int32), ai.astype(np.int16)), routes(b, pi.astype(float), ai.astype(float))), 'int32 / int16 coordinates give different weights'
"""


def _oracle_arguments(ctx: Ctx, mod, hmod, budget):
    """classes 14, 15, 16, 18: self-contained scripts (each is its own replay), reference = fresh objects on pristine copies"""
    rng = ctx.rng
    scenarios = ["argument-forms", "shared-arguments", "after-exception", "radii-kinds"]
    U = importlib.import_module("grid.utils")
    for it in range(32 if budget == "large" else ctx.n(12, 80)):
        sc = scenarios[it % len(scenarios)]
        mol = _molecule(ctx, m=rng.choice([1, 2, 3, 4, 5]) if it >= 8 else [1, 2, 3, 2][it % 4], n=rng.choice([1, 2, 3, 5, 8]))
        if len(mol["pts"]) == 0:
            continue
        zs = sorted(set(int(z) for z in mol["nums"]))
        over = {z: rng.uniform(0.4, 4.0) for z in rng.sample(zs, k=rng.randrange(1, len(zs) + 1))} if rng.random() < 0.5 else {}
        tab = _table(rng, len(mol["pts"]), len(mol["at"]))
        perm = [rng.randrange(0, 1000) for _ in range(8)]
        vals = [rng.choice([1, 2, 3, 0.75, 1.5, 2.25, 0.5, 4]) for _ in zs]
        src = ARG.format(at=mol["at"].reshape(-1).tolist(), nums=[int(z) for z in mol["nums"]], pts=mol["pts"].reshape(-1).tolist(), tab=[int(v) for v in tab],
                         over=over, order=mol["order"], k=rng.randrange(len(mol["at"])), scenario=sc, perm=perm, vals=vals,
                         hnums=[rng.choice([1, 6, 7, 8]) for _ in mol["nums"]])
        ctx.count(["arguments", sc, it], nontrivial=True, tag="arguments:" + sc)
        ctx.traces += 1
        keep = {n: getattr(U, n).copy() for n in ("_bragg", "_cambridge", "_alvarez")}
        try:
            exec(compile(src, f"<C06 arguments {sc}>", "exec"), {"__name__": "__c06_arguments__"})
        except AssertionError as e:
            ctx.fail("oracle", f"becke.arguments:{sc}", f"scenario `{sc}`: {str(e)[:300]}", witness=dict(scenario=sc, atnums=mol["nums"], atcoords=mol["at"], points=mol["pts"], indices=tab, radii=over, order=mol["order"]), snippet=src)
        except Exception as e:  # noqa: BLE001
            ctx.fail("oracle", f"becke.arguments:{sc}", f"scenario `{sc}` raised {type(e).__name__}: {str(e)[:300]}", witness=dict(scenario=sc, atnums=mol["nums"], atcoords=mol["at"], radii=over, order=mol["order"]), snippet=src)
        finally:
            for n, arr in keep.items():
                if not np.array_equal(getattr(U, n), arr, equal_nan=True):
                    getattr(U, n)[...] = arr


# ----------------------------------------------------------------------------------------------
# round 5: sizes past block / chunk boundaries and point order (21, 22); narrow / extended precision inputs (23); the same
# array object edited in place between calls (25); two instances differing in one hidden dependency vs isolation (26)
# ----------------------------------------------------------------------------------------------
BIG_SNIP = """import warnings; warnings.filterwarnings('ignore')
import math
import numpy as np
from grid.becke import BeckeWeights
from grid.hirshfeld import HirshfeldWeights
seed, N, M, order = {seed}, {N}, {M}, {order}
rs = np.random.RandomState(seed)
at = rs.normal(0, 2.5, (M, 3))
while M > 1 and min(np.linalg.norm(at[i] - at[j]) for i in range(M) for j in range(i)) < 0.7:
    at = rs.normal(0, 2.5, (M, 3))
nums = np.array({nums!r}, dtype=int)
pts = at[rs.randint(0, M, N)] + rs.normal(0, 2.0, (N, 3))
pts[-1] = at[0]; pts[N // 2] = at[M - 1]
tab = np.array({tab!r}, dtype=int)
b = BeckeWeights(order=order)
W = np.array([b.generate_weights(pts, at, nums, select=k) for k in range(M)])
own = np.repeat(np.arange(M), np.diff(tab))
seg = W[own, np.arange(N)]
assert np.all(np.abs(W.sum(axis=0) - 1) <= 1e-12), 'weights do not sum to one'
assert W[0, -1] == 1.0 and W[M - 1, N // 2] == 1.0, 'own-nucleus weight is not one'
# every route against the per-atom columns
C = np.array([b.compute_atom_weight(pts, at, nums, k) for k in range(M)])
assert np.array_equal(C, W), ('compute_atom_weight differs from generate_weights', np.argwhere(C != W)[:3].tolist())
for name, got in (('__call__', b(pts, at, nums, tab)), ('generate_weights(pt_ind)', b.generate_weights(pts, at, nums, pt_ind=list(tab))),
                  ('compute_weights(pt_ind)', b.compute_weights(pts, at, nums, pt_ind=list(tab)))):
    assert got.shape == seg.shape and np.all(np.abs(got - seg) <= 1e-13), (name, 'differs from the per-atom weights at', np.argwhere(~(np.abs(got - seg) <= 1e-13))[:3].tolist())
# element-wise: the answer on all points is the concatenation of the answers on the parts (cuts off every block boundary)
for cut in {cuts!r}:
    for k in (0, M - 1):
        for fn in (lambda P: b.generate_weights(P, at, nums, select=k), lambda P: b.compute_atom_weight(P, at, nums, k), lambda P: b.compute_weights(P, at, nums, select=k)):
            parts = np.concatenate([fn(pts[:cut]), fn(pts[cut:])])
            assert np.array_equal(parts, W[k]), ('f(all) != concat(f(part1), f(part2)) at cut', cut, np.argwhere(parts != W[k])[:3].tolist())
# the order of the points cannot matter (each point on its own)
for perm in (np.arange(N)[::-1], rs.permutation(N), np.argsort(pts[:, 0]), np.argsort(-np.linalg.norm(pts - at[0], axis=1))):
    for k in (0, M - 1):
        assert np.array_equal(b.generate_weights(pts[perm], at, nums, select=k), W[k][perm]) and np.array_equal(b.compute_atom_weight(pts[perm], at, nums, k), W[k][perm]), 'weights depend on the order of the points'
# brute force at sampled elements: plain-float Becke scheme, one point at a time
def eff(z):
    r = float(b._radii[int(z)])
    return r if r == r else (float(np.nan_to_num(b._radii[int(z) - 1])) or float(np.nan_to_num(b._radii[int(z) - 2])))
rad = [eff(z) for z in nums]
def scalar(p):
    dist = [math.sqrt(sum((float(a[c]) - float(p[c])) ** 2 for c in range(3))) for a in at]
    cells = []
    for A in range(M):
        prod = 1.0
        for B in range(M):
            if B == A: continue
            dab = math.sqrt(sum((float(at[A][c]) - float(at[B][c])) ** 2 for c in range(3)))
            mu = (dist[A] - dist[B]) / dab
            u = (rad[A] - rad[B]) / (rad[A] + rad[B])
            a = min(max(u / (u * u - 1.0), -0.45), 0.45)
            f = mu + a * (1.0 - mu * mu)
            for _ in range(order): f = 1.5 * f - 0.5 * f ** 3
            prod *= 0.5 * (1.0 - f)
        cells.append(prod)
    return [c / sum(cells) for c in cells]
for j in {sample!r}:
    assert np.all(np.abs(W[:, j] - np.array(scalar(pts[j]))) <= {tol!r}), ('element', j, 'differs from the scalar reference', W[:, j], scalar(pts[j]))
# Hirshfeld on the same points
hn = np.array({hnums!r}, dtype=int)
H = HirshfeldWeights
rho = np.array([H.generate_proatom(pts, at[k], hn[k]) for k in range(M)])
want = (rho / rho.sum(axis=0))[own, np.arange(N)]
got = H()(pts, at, hn, tab)
assert got.shape == want.shape and np.all(np.abs(got - want) <= 1e-12 * np.maximum(1, np.abs(want))), ('Hirshfeld call differs from pro-atom shares at', np.argwhere(~(np.abs(got - want) <= 1e-12 * np.maximum(1, np.abs(want))))[:3].tolist())
cut = {cuts!r}[0]
for k in (0, M - 1):
    assert np.array_equal(np.concatenate([H.generate_proatom(pts[:cut], at[k], hn[k]), H.generate_proatom(pts[cut:], at[k], hn[k])]), rho[k]), 'generate_proatom(all) != concat over a split'
    assert np.array_equal(H.generate_proatom(pts[::-1], at[k], hn[k]), rho[k][::-1]), 'generate_proatom depends on the order of the points'
"""


def _oracle_sizes(ctx: Ctx, mod, hmod, budget):
    """classes 21 / 22: point counts just above powers of two and {1,2,5}·10^k (never a multiple of either) with few atoms, so
    that every block / chunk loop has a remainder; routes among themselves, additivity over splits, permutation of the points,
    brute-force scalar reference at the first / last elements and around every block boundary; Hirshfeld on the same points.
    Each case is a self-contained script built from a seed (it is its own replay)."""
    rng = ctx.rng
    sizes = [1025, 4097, 20001, 31234, 65537]
    todo = [(rng.choice([1025, 4097]), rng.choice([4, 5, 7])), (rng.choice([20001, 31234, 65537]), rng.choice([3, 4]))]
    if ctx.thorough or budget == "large":
        todo += [(n, rng.choice([3, 4, 5])) for n in sizes] + [(2 ** 19 + 1, 2), (2 ** 19 + 1 + rng.randrange(1, 999), 3)]
    for N, M in todo:
        seed = rng.randrange(1, 2 ** 31)
        order = rng.choice([1, 2, 3, 3, 4])
        nums = [rng.choice([1, 6, 7, 8, 2, 55, 17, 86, 3]) for _ in range(M)]
        tab = _table(rng, N, M) if rng.random() < 0.7 else [0] + [N // M * (i + 1) + 1 for i in range(M - 1)] + [N]
        chunk = max(1, (10 * N) // M ** 2)
        marks = sorted({0, 1, N - 2, N - 1, N // 2} | {j for c in (chunk, 2 * chunk, 512, 1000, 1024, 2048, 4096, 5000, 8192, 10000, 16384, 20000, 32768, 50000, 65536, 2 ** 19)
                                                         for j in (c - 1, c, c + 1) if 0 <= j < N} | {rng.randrange(N) for _ in range(25)})
        cuts = [rng.choice([N // 3 + 1, 1023, 1025, N - 1, 1, rng.randrange(1, N)]), rng.randrange(1, N)]
        src = BIG_SNIP.format(seed=seed, N=N, M=M, order=order, nums=nums, tab=[int(v) for v in tab], cuts=cuts, sample=marks[:90],
                              tol=1e-11 * 1.5 ** order, hnums=[rng.choice([1, 6, 7, 8]) for _ in range(M)])
        ctx.count(["sizes", N, M, seed], nontrivial=True, tag=f"oracle:sizes:N={N}")
        try:
            exec(compile(src, f"<C06 sizes N={N} M={M}>", "exec"), {"__name__": "__c06_sizes__"})
        except AssertionError as e:
            ctx.fail("oracle", "becke.sizes", f"{N} points, {M} atoms (atnums {nums}, order {order}, seed {seed}, indices {tab}): {str(e)[:400]}",
                     witness=dict(npoints=N, natoms=M, seed=seed, atnums=nums, order=order, indices=tab), snippet=src)
        except Exception as e:  # noqa: BLE001
            ctx.fail("oracle", "becke.sizes:raises", f"{N} points, {M} atoms (seed {seed}): raised {type(e).__name__}: {str(e)[:300]}",
                     witness=dict(npoints=N, natoms=M, seed=seed, atnums=nums, order=order, indices=tab), snippet=src)


R5 = """import warnings; warnings.filterwarnings('ignore')
import json, os, subprocess, sys
import numpy as np
import grid
from grid.becke import BeckeWeights
from grid.hirshfeld import HirshfeldWeights
from grid.utils import get_cov_radii
at = np.array({at!r}, dtype=float).reshape(-1, 3); nums = np.array({nums!r}, dtype=int)
pts = np.array({pts!r}, dtype=float).reshape(-1, 3); tab = np.array({tab!r}, dtype=int)
at2 = np.array({at2!r}, dtype=float).reshape(-1, 3); pts2 = np.array({pts2!r}, dtype=float).reshape(-1, 3); nums2 = np.array({nums2!r}, dtype=int); tab2 = np.array({tab2!r}, dtype=int)
radii = {over!r}; order = {order}; k = {k}; scenario = {scenario!r}; hn = np.array({hnums!r}, dtype=int); hn2 = np.array({hnums2!r}, dtype=int)
M, N = len(at), len(pts)
def routes(b, pts=pts, at=at, nums=nums, tab=tab):
    return [b(pts, at, nums, tab), b.generate_weights(pts, at, nums, pt_ind=list(tab)), b.compute_weights(pts, at, nums, pt_ind=list(tab)),
            b.compute_atom_weight(pts, at, nums, k), b.generate_weights(pts, at, nums, select=k), b.compute_weights(pts, at, nums, select=k)]
def dev(x, y):
    return max([float(np.max(np.abs(np.asarray(a, dtype=float) - np.asarray(b, dtype=float)))) if np.shape(a) == np.shape(b) and np.size(a) else (0.0 if np.shape(a) == np.shape(b) else float('inf')) for a, b in zip(x, y)])
def same(x, y):
    return all(np.array_equal(a, b, equal_nan=True) for a, b in zip(x, y))
new = lambda: BeckeWeights(radii=dict(radii) or None, order=order)
if scenario == 'precision-inputs':
    # data exactly representable in the narrow type: the float64 computation on the same values is THE answer
    q = {q!r}
    P, A = np.round(pts / q) * q, np.round(at / q) * q
    assert len(set(map(tuple, A))) == M
    dmin = min([float(np.linalg.norm(A[i] - A[j])) for i in range(M) for j in range(i)] + [1.0])
    b = new()
    ref = routes(b, P, A); href = HirshfeldWeights()(P, A, hn, tab)
    amp = 1.5 ** max(order, 1) * max(1.0, float(np.max(np.linalg.norm(P[:, None] - A, axis=-1)))) / dmin
    for dt, eps in ((np.longdouble, 2.0 ** -52), (np.float32, 2.0 ** -23), (np.float16, 2.0 ** -10)):
        Pn, An = P.astype(dt), A.astype(dt)
        assert np.all(Pn.astype(float) == P) and np.all(An.astype(float) == A), 'harness: data not representable'
        for label, PP, AA, tol in (('points', Pn, A, max(1e-13, 64 * 2.0 ** -52 * amp)), ('atcoords', P, An, 64 * eps * amp), ('both', Pn, An, 64 * eps * amp)):    # (longdouble: computed in extended precision, rounded once more)
            snap = (PP.tobytes(), AA.tobytes())
            first = routes(b, PP, AA); second = routes(b, PP, AA)
            assert all(np.asarray(x).dtype == np.float64 for x in first), (dt.__name__, label, 'result is not float64', [np.asarray(x).dtype for x in first])
            assert dev(first, ref) <= tol, (dt.__name__, label, 'deviates from the float64 answer on the same values by', dev(first, ref), 'allowed', tol)
            assert same(first, second), (dt.__name__, label, 'a second call with the same argument objects differs from the first')
            assert snap == (PP.tobytes(), AA.tobytes()), (dt.__name__, label, 'an argument was modified')
            h1 = HirshfeldWeights()(PP, AA, hn, tab); h2 = HirshfeldWeights()(PP, AA, hn, tab)
            htol = 1e-12 if label == 'points' else 4096 * eps * amp
            assert h1.dtype == np.float64 and np.array_equal(h1, h2, equal_nan=True) and np.all(np.abs(h1 - href) <= htol * np.maximum(1, np.abs(href))), (dt.__name__, label, 'Hirshfeld', float(np.max(np.abs(h1 - href))))
    # radii of extended / reduced precision (exactly representable values); atomic numbers of every integer width
    vals = {{int(z): v for z, v in zip(sorted(set(int(z) for z in nums)), {vals!r})}}
    fref = routes(BeckeWeights(radii={{z: float(v) for z, v in vals.items()}}, order=order), P, A)
    for dt, rtol in ((np.longdouble, max(1e-13, 64 * 2.0 ** -52 * amp)), (np.float16, 16 * 2.0 ** -10 * amp)):      # an all-float16 dictionary: NumPy computes alpha in half precision
        got = routes(BeckeWeights(radii={{z: dt(v) for z, v in vals.items()}}, order=order), P, A)
        assert all(np.asarray(x).dtype == np.float64 for x in got) and dev(got, fref) <= rtol, (dt.__name__, 'radii of this type (same values) give different weights', dev(got, fref), 'allowed', rtol)
    for dt in (np.int8, np.uint8, np.int16, np.int32, np.uint64):
        assert same(routes(b, P, A, nums.astype(dt)), ref), (dt.__name__, 'atomic numbers of this dtype give different weights')
        r1 = get_cov_radii(nums.astype(dt)); assert np.array_equal(r1, get_cov_radii(nums), equal_nan=True) and r1.dtype == np.float64
elif scenario == 'inplace-between-calls':
    # ONE object per argument, edited in place between the calls; every answer against fresh copies of the current contents
    b = new(); h = HirshfeldWeights()
    P, A, Z, T, HZ = pts.copy(), at.copy(), nums.copy(), tab.copy(), hn.copy()
    L = list(tab)
    def now():
        bb = new()
        p, a, z, t = P.copy(), A.copy(), Z.copy(), T.copy()
        return [bb(p, a, z, t), bb.generate_weights(p, a, z, pt_ind=list(L)), bb.compute_weights(p, a, z, pt_ind=list(L)), bb.compute_atom_weight(p, a, z, k),
                bb.generate_weights(p, a, z, select=k), bb.compute_weights(p, a, z, select=k), HirshfeldWeights()(p, a, HZ.copy(), t), get_cov_radii(Z.copy())]
    fns = [lambda: b(P, A, Z, T), lambda: b.generate_weights(P, A, Z, pt_ind=L), lambda: b.compute_weights(P, A, Z, pt_ind=L), lambda: b.compute_atom_weight(P, A, Z, k),
           lambda: b.generate_weights(P, A, Z, select=k), lambda: b.compute_weights(P, A, Z, select=k), lambda: h(P, A, HZ, T), lambda: get_cov_radii(Z)]
    def again():
        return [f() for f in fns]
    assert same(again(), now())
    edits = [('points[:] = other points', lambda: P.__setitem__(slice(None), pts2)), ('points *= 1.5', lambda: P.__imul__(1.5)), ('atcoords[...] = other nuclei', lambda: A.__setitem__(Ellipsis, at2)),
             ('atcoords += shift', lambda: A.__iadd__(np.array([0.25, -0.5, 0.125]))), ('atnums[:] = other elements', lambda: Z.__setitem__(slice(None), nums2)),
             ('Hirshfeld atnums[:] = other elements', lambda: HZ.__setitem__(slice(None), hn2)), ('indices[:] = other table', lambda: (T.__setitem__(slice(None), tab2), L.__setitem__(slice(None), [int(v) for v in tab2]))),
             ('points[0] = a nucleus', lambda: P.__setitem__(0, A[M - 1])), ('atnums[0] = He', lambda: Z.__setitem__(0, 2))]
    for i in {perm!r}:
        what, edit = edits[i % len(edits)]
        j = (i // len(edits)) % len(fns)
        fns[j]()                                  # this route is the last one that saw the old contents of the very same objects
        edit()
        one, want = fns[j](), now()
        assert np.array_equal(one, want[j], equal_nan=True), ('route ' + str(j) + ' called before and after the in-place edit `' + what + '` of the same argument object does not see the new contents')
        got = again()
        assert same(got, want), ('after the in-place edit `' + what + '` of an argument object used before, the answer is not the one for its new contents', [j for j, (x, y) in enumerate(zip(got, want)) if not np.array_equal(x, y, equal_nan=True)])
    # the radii dictionary: one object, edited between two constructions
    d = {{int(z): 1.0 + 0.25 * i for i, z in enumerate(sorted(set(int(z) for z in nums)))}}
    for rep in range(3):
        b1 = BeckeWeights(radii=d, order=order)
        assert same(routes(b1), routes(BeckeWeights(radii=dict(d), order=order))), 'a dictionary object used for an earlier construction and edited in place gives the old radii'
        for z in d: d[z] = d[z] * 1.75 + 0.5 * rep
elif scenario == 'two-instances':
    # A and B differ in exactly one hidden dependency; each answer against the one of a process in which the other never existed
    variants = {variants!r}
    def make(v):
        return BeckeWeights(radii={{int(z): r for z, r in v['radii'].items()}} or None, order=v['order'])
    iso = ("import warnings; warnings.filterwarnings('ignore')\\nimport json, sys\\nimport numpy as np\\nfrom grid.becke import BeckeWeights\\nfrom grid.hirshfeld import HirshfeldWeights\\n"
           "d = json.loads(sys.stdin.read())\\nat = np.array(d['at']).reshape(-1, 3); pts = np.array(d['pts']).reshape(-1, 3); nums = np.array(d['nums'], dtype=int); tab = np.array(d['tab'], dtype=int); k = d['k']; v = d['v']\\n"
           "b = BeckeWeights(radii={{int(z): r for z, r in v['radii'].items()}} or None, order=v['order'])\\n"
           "out = [b(pts, at, nums, tab), b.generate_weights(pts, at, nums, pt_ind=list(tab)), b.compute_weights(pts, at, nums, pt_ind=list(tab)), b.compute_atom_weight(pts, at, nums, k), b.generate_weights(pts, at, nums, select=k), b.compute_weights(pts, at, nums, select=k),"
           " HirshfeldWeights()(pts, at, np.array(v['hn'], dtype=int), tab)]\\nprint(json.dumps([[float(x).hex() for x in o] for o in out]))\\n")
    env = dict(os.environ, PYTHONPATH=os.path.dirname(os.path.dirname(os.path.abspath(grid.__file__))))
    refs = []
    for v in variants:
        p = subprocess.run([sys.executable, '-c', iso], input=json.dumps(dict(at=at.reshape(-1).tolist(), pts=pts.reshape(-1).tolist(), nums=[int(z) for z in nums], tab=[int(t) for t in tab], k=k, v=v)),
                           capture_output=True, text=True, env=env, cwd='/')
        assert p.returncode == 0, ('isolated reference process failed', p.stderr[-300:])
        refs.append([np.array([float.fromhex(x) for x in o]) for o in json.loads(p.stdout.strip().splitlines()[-1])])
    objs = [None, None]; hobjs = [None, None]
    for i in {perm!r}:
        j = i % 2
        if objs[j] is None:
            objs[j] = make(variants[j]); hobjs[j] = HirshfeldWeights()
        got = routes(objs[j]) + [hobjs[j](pts, at, np.array(variants[j]['hn'], dtype=int), tab)]
        assert same(got, refs[j]), ('instance ' + 'AB'[j] + ' (' + json.dumps(variants[j]) + ') answers differently next to the other instance than alone in a fresh process', [n for n, (x, y) in enumerate(zip(got, refs[j])) if not np.array_equal(x, y, equal_nan=True)])
"""


def _oracle_round5(ctx: Ctx, mod, hmod, budget):
    """classes 23, 25, 26 as self-contained scripts (each is its own replay)"""
    rng = ctx.rng
    scenarios = ["precision-inputs", "inplace-between-calls", "two-instances"]
    U = importlib.import_module("grid.utils")
    for it in range(15 if budget == "large" else ctx.n(9, 48)):
        sc = scenarios[it % len(scenarios)]
        m = rng.choice([2, 3, 4, 5])
        n = rng.choice([3, 5, 8, 12])
        mol, mol2 = _molecule(ctx, m=m, n=n), _molecule(ctx, m=m, n=n)
        for mo in (mol, mol2):          # points near the molecule (exactly representable in half precision after rounding to q), one on a nucleus
            mo["pts"] = np.array([mo["at"][rng.randrange(m)] + np.array([rng.gauss(0, 2.0) for _ in range(3)]) for _ in range(n)])
            mo["pts"][rng.randrange(n)] = mo["at"][rng.randrange(m)]
        q = rng.choice([0.25, 0.125, 0.5])
        if len(set(map(tuple, np.round(mol["at"] / q) * q))) < m:
            continue
        zs = sorted(set(int(z) for z in mol["nums"]))
        over = {z: rng.uniform(0.4, 4.0) for z in rng.sample(zs, k=rng.randrange(1, len(zs) + 1))} if rng.random() < 0.5 else {}
        tab, tab2 = _table(rng, n, m), _table(rng, n, m)
        hn = [rng.choice([1, 6, 7, 8]) for _ in range(m)]
        hn2 = [rng.choice([1, 6, 7, 8]) for _ in range(m)]
        # two instances that differ in ONE thing: the order, one radius, a dictionary vs none, one Hirshfeld element
        base = dict(radii={str(z): rng.uniform(0.5, 3.0) for z in zs}, order=mol["order"], hn=hn)
        other = json_copy(base)
        kind = ["radius", "order", "no-dictionary", "hirshfeld-element"][(it // len(scenarios)) % 4]
        if kind == "order":
            other["order"] = base["order"] + rng.choice([1, 2])
        elif kind == "radius":
            z = str(rng.choice(zs))
            other["radii"][z] = base["radii"][z] * rng.choice([0.5, 1.7])
        elif kind == "no-dictionary":
            other["radii"] = {}
        else:
            j = rng.randrange(m)
            other["hn"][j] = rng.choice([z for z in (1, 6, 7, 8) if z != hn[j]])
        src = R5.format(at=mol["at"].reshape(-1).tolist(), nums=[int(z) for z in mol["nums"]], pts=mol["pts"].reshape(-1).tolist(), tab=[int(v) for v in tab],
                        at2=mol2["at"].reshape(-1).tolist(), pts2=mol2["pts"].reshape(-1).tolist(), nums2=[int(z) for z in mol2["nums"]], tab2=[int(v) for v in tab2],
                        over=over, order=mol["order"], k=rng.randrange(m), scenario=sc, hnums=hn, hnums2=hn2, q=q,
                        vals=[rng.choice([1, 2, 3, 0.75, 1.5, 2.25, 0.5, 4]) for _ in zs], perm=[rng.randrange(0, 1000) for _ in range(12)], variants=[base, other])
        ctx.count(["round5", sc, it, kind if sc == "two-instances" else ""], nontrivial=True, tag="round5:" + sc + (":" + kind if sc == "two-instances" else ""))
        ctx.traces += 1
        keep = {nm: getattr(U, nm).copy() for nm in ("_bragg", "_cambridge", "_alvarez")}
        wit = dict(scenario=sc, atnums=mol["nums"], atcoords=mol["at"], points=mol["pts"], indices=tab, radii=over, order=mol["order"])
        try:
            exec(compile(src, f"<C06 round5 {sc}>", "exec"), {"__name__": "__c06_round5__"})
        except AssertionError as e:
            ctx.fail("oracle", f"becke.round5:{sc}", f"scenario `{sc}`: {str(e)[:400]}", witness=wit, snippet=src)
        except Exception as e:  # noqa: BLE001
            ctx.fail("oracle", f"becke.round5:{sc}", f"scenario `{sc}` raised {type(e).__name__}: {str(e)[:300]}", witness=wit, snippet=src)
        finally:
            for nm, arr in keep.items():
                if not np.array_equal(getattr(U, nm), arr, equal_nan=True):
                    getattr(U, nm)[...] = arr


def json_copy(x):
    import json

    return json.loads(json.dumps(x))

"""C13, round 5 (generators only): sizes past block boundaries (class 21), inputs in an order the code may assume (22),
extended / reduced precision inputs given directly (23), parameters independent of the data (24), the same array object
modified in place between two calls / constructions (25), two instances used in either order (26)."""
import os
import shutil

import numpy as np

from ..common import LEAN, close


def _b():
    from . import c13
    return c13


def _r3():
    from . import c13_r3
    return c13_r3


def _fl(x):
    return [float(v) for v in np.asarray(x).ravel()]


def _nprng(rng):
    return np.random.default_rng(rng.randrange(2 ** 32))


def _nearest_ok(g, vals, p, r):
    d = np.linalg.norm(g.points - p, axis=1)
    return bool(np.any(np.abs(vals[d <= d.min() + 1e-9] - r) <= 1e-12))


# ---------------------------------------------------------------------------------------------------
# 21: sizes past a block / chunk boundary
# ---------------------------------------------------------------------------------------------------
def or_block_sizes(ctx, cub, rng, big):
    """numbers of query points, of points along an axis and of cube data values just above powers of two / of ten and
    multiples of nothing: 1025, 4097 (thorough: 20001, 65537, 2^19 + 1). Reference: additivity over a split of the same
    input, brute force at sampled positions (incl. the last elements)."""
    from grid.basegrid import OneDGrid
    b, r3 = _b(), _r3()
    npr = _nprng(rng)
    # (a) many query points, linear / nearest
    shape = b.rand_shape(rng, 3, 3, 6)
    g = b.axis_grid(cub, rng, shape, rng.choice(["uniform", "tensor"]))
    nodes = [np.asarray(a, dtype=float) for a in g.get_points_along_axes()]
    vals = npr.uniform(-2, 2, size=g.size)
    lo, hi = g.points.min(0), g.points.max(0)
    for M in [1025, 4097] + ([20001, 65537, 2 ** 19 + 1] if big else []):
        q = np.clip(lo + (hi - lo) * npr.random((M, 3)), lo, hi)
        for method in ("linear", "nearest"):
            ctx.tagc(f"oracle:block-sizes:{method}:M={M}")
            r = np.asarray(g.interpolate(q, vals, method=method)).ravel()
            k = M // 3 + 1
            parts = np.concatenate([np.asarray(g.interpolate(q[:k], vals, method=method)).ravel(), np.asarray(g.interpolate(q[k:], vals, method=method)).ravel()])
            bad = None
            if r.shape != (M,) or not np.array_equal(r, parts):
                bad = f"{M} query points give {r.shape[0]} values / differ from the two parts [:{k}], [{k}:] evaluated separately"
            else:
                for i in [0, M - 1, M - 2, 1023, 1024, 4095, 4096, M // 2] + [int(x) for x in npr.integers(0, M, 4)]:
                    if i >= M:
                        continue
                    ok = close(float(r[i]), r3._ref_trilinear(nodes, vals, shape, q[i]), rtol=1e-10, scale=4.0) if method == "linear" else _nearest_ok(g, vals, q[i], r[i])
                    if not ok:
                        bad = f"entry {i} of {M} is {float(r[i])}, not the {method} interpolant at {_fl(q[i])}"
                        break
            if bad:
                ctx.fail("oracle", f"cubic.interpolate:{method}", f"shape {shape}: {bad}", witness={"shape": shape, "n_points": M, "method": method})
    # (b) cubic method: 33 and 65 query points against one call per point
    shape = b.rand_shape(rng, 3, 7, 8, noncubic=False)
    g = b.axis_grid(cub, rng, shape, "uniform")
    C = b.rand_tensor_cubic(rng) * 0.3
    cv = b.poly_eval(C, g.points)
    lo, hi = g.points.min(0), g.points.max(0)
    for M in [33, 65] + ([129, 257] if big else []):
        q = lo + (hi - lo) * (0.05 + 0.9 * npr.random((M, 3)))
        for kw in ({}, {"nu_x": 1, "nu_z": 1}, {"use_log": True, "nu_y": 1}):
            v = np.exp(cv) if kw.get("use_log") else cv
            ctx.tagc(f"oracle:block-sizes:cubic:M={M}")
            r = np.asarray(g.interpolate(q, v, **kw)).ravel()
            idx = [0, M - 1, M - 2, 31, 32, 63, 64, M // 2]
            single = {i: float(np.asarray(g.interpolate(q[i:i + 1], v, **kw)).ravel()[0]) for i in idx if i < M}
            if r.shape != (M,) or any(not close(float(r[i]), s, rtol=1e-9, scale=max(1.0, abs(s))) for i, s in single.items()):
                ctx.fail("oracle", "cubic.interpolate:" + ("log" if kw.get("use_log") else "cubic"), f"shape {shape}: interpolate({kw}) at {M} points gives {r.shape[0]} values / "
                         f"differs from the calls with one point each at positions {sorted(single)}", witness={"shape": shape, "n_points": M, "options": str(kw)})
    # (c) long axes
    for shape in [[1025, 3], [3, 4097], [2, 3, 1025]] + ([[65537, 2], [2, 2 ** 17 + 1, 2]] if big else []):
        dim = len(shape)
        st = np.array([rng.choice([0.25, 0.5, -0.125]) for _ in range(dim)])
        o = np.array([rng.randrange(-8, 8) / 8.0 for _ in range(dim)])
        ctx.tagc(f"oracle:block-sizes:long-axis:{max(shape)}")
        for sch in ("Rectangle", "Trapezoid", "Alternative"):
            b._check_weights_case(ctx, cub, dim, sch, shape, np.diag(st), o)
        gu = cub.UniformGrid(o, np.diag(st), np.array(shape), weight="Rectangle")
        got = gu.get_points_along_axes()
        if len(got) != dim or any(not np.array_equal(a, o[d] + st[d] * np.arange(shape[d])) for d, a in enumerate(got)):
            ctx.fail("oracle", f"cubic.get_points_along_axes:{dim}d", f"UniformGrid shape {shape}: get_points_along_axes() does not return the {shape} nodes", witness={"shape": shape})
        xs = [npr.uniform(-3, 3, size=s) for s in shape]
        ws = [npr.uniform(0.1, 1, size=s) for s in shape]
        gt = cub.Tensor1DGrids(*[OneDGrid(x, w) for x, w in zip(xs, ws)])
        got = gt.get_points_along_axes()
        ok = gt.size == int(np.prod(shape)) and len(got) == dim and all(np.array_equal(a, x) for a, x in zip(got, xs))
        for idx in [0, gt.size - 1, gt.size - 2, 1024, 4096] + [int(x) for x in npr.integers(0, gt.size, 6)]:
            if idx >= gt.size or not ok:
                continue
            c = np.unravel_index(idx, shape)
            w = 1.0
            for d in range(dim):
                w = w * float(ws[d][c[d]])
            ok = _fl(gt.points[idx]) == [float(xs[d][c[d]]) for d in range(dim)] and float(gt.weights[idx]) == w and int(gt.coordinates_to_index(c)) == idx
        if not ok:
            ctx.fail("oracle", f"cubic.Tensor1DGrids:{dim}d", f"sizes {shape}: the tensor grid is not the lexicographic product (long axis)", witness={"sizes": shape})
    # (d) cube files with 1025 / 20001 data values (rows of six)
    tmp = LEAN / ".lake" / f"c13-r5-{os.getpid()}"
    tmp.mkdir(parents=True, exist_ok=True)
    try:
        for k, shape in enumerate([[5, 5, 41]] + ([[3, 59, 113], [14, 23, 97]] if big else [[3, 23, 29]])):
            b._check_cube_case(ctx, cub, rng, tmp, f"blk{k}", shape, b.rand_axes(rng, 3, "skew"), b.rand_origin(rng, 3), angstrom=k % 2 == 1, weight="Rectangle")
    finally:
        shutil.rmtree(tmp, ignore_errors=True)


# ---------------------------------------------------------------------------------------------------
# 22: orders
# ---------------------------------------------------------------------------------------------------
def or_orders(ctx, cub, rng, big):
    """query points shuffled / sorted descending (every method is point-wise: the answers are permuted with them); tensor
    grids from the descending 1-D grids the library itself produces (MultiExp / Becke maps of an ascending rule), from
    reversed and from shuffled 1-D grids; atoms of from_molecule in another order"""
    from grid.basegrid import OneDGrid
    from grid.onedgrid import GaussLegendre
    from grid.rtransform import BeckeRTransform, MultiExpRTransform
    b, r3 = _b(), _r3()
    npr = _nprng(rng)
    for it in range(2 if not big else 16):
        shape = b.rand_shape(rng, 3, 7, 8, noncubic=False)
        g = b.axis_grid(cub, rng, shape, "uniform" if it % 2 else "tensor")
        C = b.rand_tensor_cubic(rng) * 0.3
        cv = b.poly_eval(C, g.points)
        M = 5
        q = np.vstack([b.interior_point(g, rng) for _ in range(M)])
        perms = [npr.permutation(M), np.argsort(-q[:, 0]), np.argsort(q[:, 2])]
        for kw in ({}, {"nu_y": 2}, {"method": "linear"}, {"method": "nearest"}, {"use_log": True, "nu_x": 1}):
            v = np.exp(cv) if kw.get("use_log") else cv
            r = np.asarray(g.interpolate(q, v, **kw)).ravel()
            for p in perms:
                ctx.tagc("oracle:orders:query-points")
                rp = np.asarray(g.interpolate(q[p], v, **kw)).ravel()
                if not np.allclose(rp, r[p], rtol=1e-12, atol=1e-13):
                    key = "cubic.interpolate:" + (kw.get("method") or ("log" if kw.get("use_log") else "cubic"))
                    ctx.fail("oracle", key, f"shape {shape}: interpolate({kw}) at the query points in the order {p.tolist()} gives {_fl(rp)}, the answers in the original order are {_fl(r)}",
                             witness={"shape": shape, "order": p.tolist(), "points": q.tolist(), "options": str(kw)})
                    break
    for it in range(3 if not big else 24):
        dim = 2 + it % 2
        pool = [MultiExpRTransform(1e-3, rng.choice([1.0, 1.5])).transform_1d_grid(GaussLegendre(rng.randrange(3, 7))),
                BeckeRTransform(1e-4, 1.2).transform_1d_grid(GaussLegendre(rng.randrange(3, 7))),
                OneDGrid(np.sort(npr.uniform(-2, 2, size=4))[::-1].copy(), npr.uniform(0.1, 1, size=4)),
                OneDGrid(npr.permutation(np.arange(5) * 0.5 - 1.0), npr.uniform(-0.2, 1, size=5))]
        gs = [pool[0]] + [rng.choice(pool) for _ in range(dim - 1)]
        rng.shuffle(gs)
        g = cub.Tensor1DGrids(*gs)
        shape = [x.size for x in gs]
        nodes = [np.array(x.points, dtype=float) for x in gs]
        ctx.tagc(f"oracle:orders:tensor:{dim}d")
        ref = np.array(np.unravel_index(np.arange(g.size), shape)).T
        wantp = np.array([[nodes[d][c[d]] for d in range(dim)] for c in ref])
        wantw = np.array([float(np.prod([gs[d].weights[c[d]] for d in range(dim)])) for c in ref])
        got = g.get_points_along_axes()
        if not np.array_equal(g.points, wantp) or not np.allclose(g.weights, wantw, rtol=1e-14, atol=0) or len(got) != dim or \
                any(not np.array_equal(a, x) for a, x in zip(got, nodes)):
            ctx.fail("oracle", f"cubic.Tensor1DGrids:{dim}d", f"sizes {shape} (descending / shuffled 1-D grids): points, weights or get_points_along_axes() are not those of the "
                     "lexicographic product in grid order", witness={"sizes": shape, "nodes": [_fl(x) for x in nodes]})
        monotone = all(np.all(np.diff(x) > 0) or np.all(np.diff(x) < 0) for x in nodes)
        if dim == 3 and monotone and all(s >= 2 for s in shape):
            r3._check_linear_nearest(ctx, cub, rng, g, shape, "library-made descending nodes")
    for it in range(3 if not big else 24):
        nums, xyz = b.rand_molecule(rng)
        if len(nums) < 2:
            continue
        p = npr.permutation(len(nums))
        sp, ext = rng.choice([0.25, 0.5]), rng.choice([1.0, 2.0])
        g0 = cub.UniformGrid.from_molecule(nums, xyz, spacing=sp, extension=ext, rotate=False, weight="Rectangle")
        g1 = cub.UniformGrid.from_molecule(nums[p], xyz[p], spacing=sp, extension=ext, rotate=False, weight="Rectangle")
        ctx.tagc("oracle:orders:from_molecule")
        if list(g0.shape) != list(g1.shape) or not np.array_equal(g0.axes, g1.axes) or not np.allclose(g0.origin, g1.origin, rtol=0, atol=1e-12):
            ctx.fail("oracle", "cubic.UniformGrid.from_molecule:order", f"from_molecule with the atoms in the order {p.tolist()}: shape {list(g1.shape)} origin {_fl(g1.origin)}, "
                     f"in the original order shape {list(g0.shape)} origin {_fl(g0.origin)}", witness={"atcorenums": _fl(nums), "atcoords": xyz.tolist(), "order": p.tolist()})


# ---------------------------------------------------------------------------------------------------
# 23: precision of direct inputs
# ---------------------------------------------------------------------------------------------------
def or_precision_inputs(ctx, cub, rng, big):
    """query points, function values, closest_point queries, molecules and constructor arguments as np.longdouble / float32 /
    float16 / integer arrays: the float64 answer for the same numbers (to the precision of the narrower type where the code
    computes in it: np.log of the values, the centre of charge), the argument unchanged, a second call with the same object
    equal to the first. Measured envelope (reported): origin / axes as float16 or longdouble are refused by NumPy's linalg
    (TypeError from np.linalg.det)."""
    b = _b()
    for it in range(2 if not big else 16):
        shape = b.rand_shape(rng, 3, 7, 8, noncubic=False)
        h = np.array([rng.choice([0.25, 0.5]) for _ in range(3)])
        o = np.array([rng.randrange(-8, 0) / 4.0 for _ in range(3)])
        g = cub.UniformGrid(o, np.diag(h), np.array(shape), weight="Rectangle")
        C = b.rand_tensor_cubic(rng) * 0.3
        cv = np.round(b.poly_eval(C, (g.points - o) / (h * (np.array(shape) - 1)) * 2 - 1) * 256) / 256 + 2.0      # dyadic, positive, exact in float16
        q64 = np.array([[o[d] + h[d] * rng.randrange(4, 4 * (shape[d] - 1) - 4) / 4.0 for d in range(3)] for _ in range(2)])
        qi = np.clip(np.round(q64), np.ceil(g.points.min(0)), np.floor(g.points.max(0)))       # integer coordinates inside the box
        for dt in (np.longdouble, np.float32, np.float16, np.int64, np.int32):
            integer = np.issubdtype(dt, np.integer)
            q = (qi if integer else q64).astype(dt)
            qf = q.astype(float)
            for kw in ({}, {"nu_x": 1, "nu_y": 1}, {"method": "linear"}, {"method": "nearest"}, {"use_log": True, "nu_z": 2}):
                for what in ("points", "values"):
                    if what == "values" and integer:
                        continue
                    if what == "values" and kw.get("use_log"):
                        kw = {"use_log": True}      # np.log is taken in the narrow type: derivatives would amplify its rounding by 1/h^order
                    arg_q = q if what == "points" else q64
                    arg_v = cv if what == "points" else cv.astype(dt)
                    ref = np.asarray(g.interpolate(qf if what == "points" else q64, arg_v.astype(float), **kw), dtype=float).ravel()
                    keep = (arg_q.copy(), arg_v.copy())
                    ctx.tagc(f"oracle:precision:{what}:{np.dtype(dt).name}")
                    try:
                        r1 = np.asarray(g.interpolate(arg_q, arg_v, **kw), dtype=float).ravel()
                        r2 = np.asarray(g.interpolate(arg_q, arg_v, **kw), dtype=float).ravel()
                        eps = 1e-9 if what == "points" or not kw.get("use_log") else max(1e-9, 40 * float(np.finfo(dt).eps))
                        ok = np.allclose(r1, ref, rtol=eps, atol=eps) and np.array_equal(r1, r2)
                        msg = f"gives {_fl(r1)} then {_fl(r2)}, with float64 copies {_fl(ref)}"
                    except Exception as e:  # noqa: BLE001
                        ok, msg = False, f"raises {type(e).__name__}: {str(e)[:80]}"
                    if not (np.array_equal(keep[0], arg_q) and np.array_equal(keep[1], arg_v)):
                        ok, msg = False, msg + "; the argument was modified"
                    if not ok:
                        key = "cubic.interpolate:" + (kw.get("method") or ("log" if kw.get("use_log") else "cubic"))
                        ctx.fail("oracle", key, f"shape {shape}: interpolate({kw}) with the {what} as {np.dtype(dt).name} {msg}", witness={"shape": shape, what + "_dtype": np.dtype(dt).name, "options": str(kw)})
            for which in ("closest", "origin"):
                p = q[0]
                keep = p.copy()
                ctx.tagc(f"oracle:precision:closest:{np.dtype(dt).name}")
                r0 = float(g.closest_point(qf[0], which))
                try:
                    r1, r2 = float(g.closest_point(p, which)), float(g.closest_point(p, which))
                    ok, msg = r1 == r0 == r2, f"returns {r1} then {r2}, for the float64 copy {r0}"
                except Exception as e:  # noqa: BLE001
                    ok, msg = False, f"raises {type(e).__name__}: {str(e)[:80]}"
                if not ok or not np.array_equal(keep, p):
                    ctx.fail("oracle", "cubic.UniformGrid.closest_point" + (":origin" if which == "origin" else ""), f"shape {shape}: closest_point({which!r}) of a {np.dtype(dt).name} point {msg}",
                             witness={"shape": shape, "point": _fl(p), "dtype": np.dtype(dt).name})
    for it in range(3 if not big else 20):
        n = rng.randrange(2, 5)
        nums = np.array([float(rng.choice([1, 6, 8])) for _ in range(n)])
        xyz = np.array([[rng.randrange(-16, 17) / 4.0 for _ in range(3)] for _ in range(n)])
        sp, ext = rng.choice([0.5, 1.0]), rng.choice([1.0, 2.0])
        g0 = cub.UniformGrid.from_molecule(nums, xyz, spacing=sp, extension=ext, rotate=False, weight="Rectangle")
        for dt in (np.longdouble, np.float32, np.float16, np.int64):
            x = (np.round(xyz) if np.issubdtype(dt, np.integer) else xyz).astype(dt)
            gref = cub.UniformGrid.from_molecule(nums, x.astype(float), spacing=sp, extension=ext, rotate=False, weight="Rectangle")
            keep = x.copy()
            ctx.tagc(f"oracle:precision:from_molecule:{np.dtype(dt).name}")
            try:
                g1 = cub.UniformGrid.from_molecule(nums.astype(dt) if it % 2 else nums, x, spacing=sp, extension=ext, rotate=False, weight="Rectangle")
                eps = 1e-12 if np.issubdtype(dt, np.integer) or dt == np.longdouble else 20 * float(np.finfo(dt).eps) * 10
                ok = list(g1.shape) == list(gref.shape) and np.allclose(np.asarray(g1.origin, dtype=float), gref.origin, rtol=0, atol=eps) and np.array_equal(keep, x)
                msg = f"shape {list(g1.shape)} origin {_fl(g1.origin)}, with float64 copies shape {list(gref.shape)} origin {_fl(gref.origin)}"
            except Exception as e:  # noqa: BLE001
                ok, msg = False, f"raises {type(e).__name__}: {str(e)[:80]}"
            if not ok:
                ctx.fail("oracle", "cubic.UniformGrid.from_molecule:dtype", f"from_molecule with the coordinates as {np.dtype(dt).name}: {msg}",
                         witness={"atcorenums": _fl(nums), "atcoords": _fl(x), "dtype": np.dtype(dt).name})
        del g0


# ---------------------------------------------------------------------------------------------------
# 24: parameters independent of the data
# ---------------------------------------------------------------------------------------------------
def or_independent_params(ctx, cub, rng, big):
    """spacing / extension of from_molecule over three orders of magnitude relative to the extent of the molecule (molecules
    symmetric about their centre of charge, where the margin clause is a theorem): a grid with the margin, or the documented
    refusal of an axis with a single point; closest_point for queries far outside and grids far smaller than the query"""
    b = _b()
    for it in range(6 if not big else 60):
        nums, xyz = b.rand_molecule(rng, symmetric=True)
        extent = float((xyz.max(0) - xyz.min(0)).max())
        sp = rng.choice([0.02, 0.1, 0.7, 1.5, 4.0]) * max(extent, 0.5)
        ext = rng.choice([0.0, 0.05, 1.0, 7.5, 30.0])
        if (extent + 2 * ext) / sp > 160:
            sp = (extent + 2 * ext) / 60.0
        ctx.tagc("oracle:independent-params:from_molecule")
        want_shape = np.ceil((xyz.max(0) - xyz.min(0) + 2.0 * ext) / sp)
        try:
            b._check_molecule_case(ctx, cub, nums, xyz, sp, ext, False)
            refused = False
        except ValueError as e:
            refused = True
            if not (want_shape <= 1).any():
                ctx.fail("oracle", "cubic.UniformGrid.from_molecule:raises", f"from_molecule(spacing={sp}, extension={ext}) on a molecule of extent {extent:.3g} raises ValueError: {str(e)[:80]} "
                         f"although every axis gets {want_shape.tolist()} > 1 points", witness={"atcorenums": _fl(nums), "atcoords": xyz.tolist(), "spacing": sp, "extension": ext})
        ctx.tagc("oracle:independent-params:" + ("refused-single-point-axis" if refused else "built"))
    for it in range(6 if not big else 40):
        dim = rng.choice([2, 3])
        shape = b.rand_shape(rng, dim, 2, 5)
        axes = b.rand_axes(rng, dim, "diag+-") * rng.choice([0.5, 1.0, 1e3])       # above the constructor's absolute det threshold
        o = b.rand_origin(rng, dim) * rng.choice([1.0, 1e4])
        far = o + np.array([rng.choice([-1, 1]) * rng.choice([1e3, 1e8, 1e15]) for _ in range(dim)]) * np.abs(np.diag(axes))
        b._check_closest_case(ctx, cub, "far-query", shape, axes, o, far)


# ---------------------------------------------------------------------------------------------------
# 25: the same array object modified in place between two calls
# ---------------------------------------------------------------------------------------------------
def or_inplace_between(ctx, cub, rng, big):
    """every array-valued argument (values, query points, closest_point query, origin / axes / shape, molecule, the arrays of
    a OneDGrid) is overwritten in place (`buf[:] = new`, `buf *= c`) between two calls / constructions with the same object:
    the second answer is the one for a fresh copy of the new contents"""
    from grid.basegrid import OneDGrid
    b = _b()
    npr = _nprng(rng)
    for it in range(2 if not big else 16):
        shape = b.rand_shape(rng, 3, 7, 8, noncubic=False)
        g = b.axis_grid(cub, rng, shape, "uniform" if it % 2 else "tensor")
        mk = lambda: np.exp(b.poly_eval(b.rand_tensor_cubic(rng) * 0.3, g.points))       # noqa: E731
        vbuf, vnew = mk(), mk()
        qbuf = np.vstack([b.interior_point(g, rng) for _ in range(2)])
        qnew = np.vstack([b.interior_point(g, rng) for _ in range(2)])
        for kw in ({}, {"nu_z": 1}, {"method": "linear"}, {"method": "nearest"}, {"use_log": True}, {"use_log": True, "nu_x": 2}):
            for mode in ("values[:] = new", "values *= 1.5", "points[:] = new"):
                v, q = vbuf.copy(), qbuf.copy()
                g.interpolate(q, v, **kw)
                if mode == "values[:] = new":
                    v[:] = vnew
                elif mode == "values *= 1.5":
                    v *= 1.5
                else:
                    q[...] = qnew
                r2 = np.asarray(g.interpolate(q, v, **kw)).ravel()
                want = np.asarray(g.interpolate(q.copy(), v.copy(), **kw)).ravel()
                ctx.tagc("oracle:inplace-between:interpolate")
                if not np.array_equal(r2, want):
                    key = "cubic.interpolate:" + (kw.get("method") or ("log" if kw.get("use_log") else "cubic"))
                    ctx.fail("oracle", key, f"shape {shape}: interpolate({kw}) twice with the same array objects, `{mode}` in between: second answer {_fl(r2)}, "
                             f"for fresh copies of the new contents {_fl(want)}", witness={"shape": shape, "options": str(kw), "edit": mode})
    for it in range(3 if not big else 24):
        dim = 2 + it % 2
        shape = b.rand_shape(rng, dim, 2, 5)
        o, ax, sh = b.rand_origin(rng, dim), b.rand_axes(rng, dim, "diag+-"), np.array(shape)
        sch = rng.choice(["Rectangle", "Trapezoid", "Alternative", "Fourier1"])
        g1 = cub.UniformGrid(o, ax, sh, weight=sch)
        p = g1.points[rng.randrange(g1.size)] + 0.3 * np.diag(ax)
        i1 = g1.closest_point(p)
        snap = (np.array(g1.points), np.array(g1.weights))
        o2, ax2, sh2 = b.rand_origin(rng, dim) + 0.5, b.rand_axes(rng, dim, "diag+-"), np.array(b.rand_shape(rng, dim, 2, 5))
        o[:], ax[...], sh[:] = o2, ax2, sh2
        g2 = cub.UniformGrid(o, ax, sh, weight=sch)
        ref = cub.UniformGrid(o2.copy(), ax2.copy(), sh2.copy(), weight=sch)
        ctx.tagc("oracle:inplace-between:UniformGrid")
        if not (np.array_equal(g2.points, ref.points) and np.array_equal(g2.weights, ref.weights) and list(g2.shape) == list(ref.shape)):
            ctx.fail("oracle", f"cubic.UniformGrid.layout:{dim}d", f"UniformGrid built a second time from the same origin / axes / shape objects after they were overwritten in place ({sch}) "
                     "is not the grid of the new contents", witness={"shape": list(sh2), "origin": _fl(o2), "axes": ax2.tolist(), "scheme": sch})
        if not (np.array_equal(snap[0], g1.points) and np.array_equal(snap[1], g1.weights)):
            ctx.fail("oracle", f"cubic.UniformGrid.layout:{dim}d", "points / weights of the first grid changed when its constructor arguments were overwritten", witness={"shape": shape})
        pb = p.copy()
        g2.closest_point(pb)
        pb[:] = g2.points[rng.randrange(g2.size)]
        want = float(ref.closest_point(pb.copy()))
        if float(g2.closest_point(pb)) != want:
            ctx.fail("oracle", "cubic.UniformGrid.closest_point", "closest_point twice with the same query object overwritten in place: second answer is not that of the new contents",
                     witness={"shape": list(sh2), "origin": _fl(o2), "axes": ax2.tolist(), "point": _fl(pb)})
        del i1
    for it in range(3 if not big else 20):
        nums, xyz = b.rand_molecule(rng)
        sp, ext = 0.5, 1.0
        cub.UniformGrid.from_molecule(nums, xyz, spacing=sp, extension=ext, rotate=bool(it % 2), weight="Rectangle")
        xyz *= 1.7
        xyz += 0.25
        nums[:] = nums[::-1].copy()
        g2 = cub.UniformGrid.from_molecule(nums, xyz, spacing=sp, extension=ext, rotate=bool(it % 2), weight="Rectangle")
        ref = cub.UniformGrid.from_molecule(nums.copy(), xyz.copy(), spacing=sp, extension=ext, rotate=bool(it % 2), weight="Rectangle")
        ctx.tagc("oracle:inplace-between:from_molecule")
        if list(g2.shape) != list(ref.shape) or not np.array_equal(g2.origin, ref.origin) or not np.array_equal(g2.axes, ref.axes):
            ctx.fail("oracle", "cubic.UniformGrid.from_molecule:repeat", "from_molecule twice with the same coordinate / charge arrays scaled in place: the second box is not that of the new contents",
                     witness={"atcorenums": _fl(nums), "atcoords": xyz.tolist(), "rotate": bool(it % 2)})
        x, w = npr.uniform(-1, 1, size=4), npr.uniform(0.1, 1, size=4)
        og = OneDGrid(x, w)
        cub.Tensor1DGrids(og, og)
        x[:] = np.sort(npr.uniform(-2, 2, size=4))
        w *= 2.0
        t2 = cub.Tensor1DGrids(og, og)
        ref2 = cub.Tensor1DGrids(OneDGrid(x.copy(), w.copy()), OneDGrid(x.copy(), w.copy()))
        ctx.tagc("oracle:inplace-between:Tensor1DGrids")
        if not (np.array_equal(t2.points, ref2.points) and np.array_equal(t2.weights, ref2.weights)):
            ctx.fail("oracle", "cubic.Tensor1DGrids:2d", "tensor grid built a second time from one OneDGrid whose arrays were overwritten in place is not the product of the new contents",
                     witness={"nodes": _fl(x), "weights": _fl(w)})


# ---------------------------------------------------------------------------------------------------
# 26: two instances in either order
# ---------------------------------------------------------------------------------------------------
def or_two_instances(ctx, cub, rng, big):
    """two grids of the same shape that differ in one hidden dependency (origin, spacing, direction of an axis, uniform vs
    tensor, the weight scheme), every method called on them alternately in either order; references are independent of any
    state (exact multilinear interpolant, datum at the nearest node, node formulas, row-major index, polynomial values)"""
    from grid.basegrid import OneDGrid
    b, r3 = _b(), _r3()
    for it in range(2 if not big else 16):
        shape = b.rand_shape(rng, 3, 7, 8, noncubic=False)
        C = b.rand_tensor_cubic(rng) * 0.3

        def make(k):
            h = np.array([rng.choice([0.25, 0.5, 0.375]) for _ in range(3)])
            o = np.array([rng.randrange(-12, 0) / 4.0 for _ in range(3)])
            if k == "tensor":
                nodes = [o[d] + np.cumsum(np.array([rng.choice([0.25, 0.5]) for _ in range(shape[d])])) for d in range(3)]
                return cub.Tensor1DGrids(*[OneDGrid(x, np.ones(len(x))) for x in nodes]), nodes
            return cub.UniformGrid(o, np.diag(h), np.array(shape), weight=rng.choice(["Rectangle", "Trapezoid"])), [o[d] + h[d] * np.arange(shape[d]) for d in range(3)]
        kinds = ["uniform", "uniform"] if it % 2 == 0 else ["tensor", "uniform"]
        if it % 4 >= 2:
            kinds.reverse()
        (ga, na), (gb, nb) = make(kinds[0]), make(kinds[1])
        data = {}
        for name, g, nodes in (("A", ga, na), ("B", gb, nb)):
            vals = np.array([rng.uniform(-1, 1) for _ in range(g.size)])
            q = np.vstack([b.interior_point(g, rng) for _ in range(2)])
            data[name] = (g, nodes, vals, b.poly_eval(C, g.points), q)
        seq = ["A", "B", "A", "B", "B", "A"] if it % 2 else ["B", "A", "B", "A", "A", "B"]
        for step, name in enumerate(seq):
            g, nodes, vals, cv, q = data[name]
            ctx.tagc("oracle:two-instances")
            wit = {"shape": shape, "kinds": kinds, "sequence": seq, "step": step}
            got = g.get_points_along_axes()
            if any(not np.allclose(a, x, rtol=0, atol=1e-13) for a, x in zip(got, nodes)):
                ctx.fail("oracle", "cubic.get_points_along_axes:3d", f"two grids of shape {shape} used alternately ({seq}): get_points_along_axes() of grid {name} at step {step} is not its node lists", witness=wit)
            r = np.asarray(g.interpolate(q, vals, method="linear")).ravel()
            for p, x in zip(q, r):
                if not close(float(x), r3._ref_trilinear(nodes, vals, shape, p), rtol=1e-10, scale=2.0):
                    ctx.fail("oracle", "cubic.interpolate:linear", f"two grids of shape {shape} used alternately ({seq}): linear method on grid {name} at step {step} gives {float(x)} at {_fl(p)}", witness=wit)
            r = np.asarray(g.interpolate(q, vals, method="nearest")).ravel()
            if not all(_nearest_ok(g, vals, p, x) for p, x in zip(q, r)):
                ctx.fail("oracle", "cubic.interpolate:nearest", f"two grids of shape {shape} used alternately ({seq}): nearest method on grid {name} at step {step} is not the datum at the nearest node", witness=wit)
            nu = (step % 2, 0, (step // 2) % 2)
            r = np.asarray(g.interpolate(q, cv, nu_x=nu[0], nu_z=nu[2])).ravel()
            want = b.poly_eval(C, q, nu)
            if not np.allclose(r, want, rtol=1e-7, atol=1e-7):
                ctx.fail("oracle", "cubic.interpolate:cubic", f"two grids of shape {shape} used alternately ({seq}): cubic method (derivative {nu}) on grid {name} at step {step} gives {_fl(r)}, exact {_fl(want)}", witness=wit)
            c = tuple(rng.randrange(s) for s in shape)
            idx = int(np.ravel_multi_index(c, shape))
            if int(g.coordinates_to_index(c)) != idx or tuple(int(x) for x in g.index_to_coordinates(idx)) != c or _fl(g.points[idx]) != [float(nodes[d][c[d]]) for d in range(3)]:
                ctx.fail("oracle", "cubic.index:3d", f"two grids of shape {shape} used alternately: index maps / point at {c} of grid {name} at step {step}", witness=wit)
            if hasattr(g, "closest_point"):
                if float(g.closest_point(g.points[idx] + 0.01)) != idx:
                    ctx.fail("oracle", "cubic.UniformGrid.closest_point", f"two grids of shape {shape} used alternately: closest_point next to node {idx} of grid {name} at step {step}", witness=wit)


ORACLE_PARTS = (or_block_sizes, or_orders, or_precision_inputs, or_independent_params, or_inplace_between, or_two_instances)

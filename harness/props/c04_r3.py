"""C04, round 3: generators for the input classes 7-12 of AGENT_ROUND3.md, the generated `OneDGrid.__init__`
(Gen/OneDGridInit.lean, op `C04.onedgrid_nd`), and the property-level references that judge them.

Everything here is driven from `c04.py` (`corr` / `oracle` / `oracle_at` call `corr_r3` / `oracle_r3` / `oracle_at_r3`).
The property-level functions are source text (`R3_SRC`, like `PROP_SRC` of c04.py) so that a replay snippet is
self-contained.

class 7  thresholds of the anchored code, both sides at the factors 1.01 and 100:
         * the 1e-7 slack of `OneDGrid.__init__` *seen through the map* (a node d <= 1e-7 outside its own domain whose
           image is s*d outside the image interval, s = slope: increasing / decreasing LinearFinite, Becke at x = -1,
           LinearInfinite at x = 0, InverseRTransform(LinearFinite)),
         * the trimming constant 1e16: the largest *finite* image placed at 1e16 * {0.01, 1/1.01, 1.01, 100} (hand-built
           nodes k ulp from the pole and TanhSinh(61..81) as they are; Becke / Handy / Knowles / MultiExp, trim on and off),
         * the domain guard of transform_1d_grid (no slack): grid domain one ulp / 1e-7*f inside and outside, -0.0, subnormal,
         * `abs(b) < 1e-16` of the inferred parameter b.
class 8  weights scaled by 2^-996 ... 2^40 and 1e-12 ... 1e12 (exact homogeneity), nodes 1e-300 ... 1e12 on the half line and
         one ulp from the poles, parameters R 1e-12 ... 1e12, intervals of width 1e-12, translation of rmin by 2^10 ... 2^20.
class 9  the returned grid is edited in place by the caller, then the same call is made again.
class 10 transform / deriv / inverse called directly between two transform_1d_grid calls (either order), trim_inf toggled
         on one object; compositions of two and three transforms (stage by stage against the model, end to end against
         the 40-digit composite map).
class 12 nodes on the ends of a strict sub-interval, one-node grids, reversed / shuffled nodes through the chains.
class 2  (round 2 list, made systematic after a seeded change escaped): the grid argument's points as int64 / int32 / bool / float32, its weights
         in those dtypes, read-only / strided / negative-stride arrays x every transform class x plain / InverseRTransform: correspondence with the
         model at the float64 values, the 40-digit property check, and `c04_r3_dtype` (same answer as for the float64 copy of the grid).
"""
import importlib
import math

import numpy as np

from ..common import Ctx, driver_batch, f2b, fvec

INF = float("inf")
FACT = (0.01, 1 / 1.01, 1.01, 100.0)
ALIAS_KEY = "rtransform.transform_1d_grid:IdentityRTransform:points-aliased"


def M():
    return importlib.import_module(__package__ + ".c04")


def _nx(x, k=1):
    for _ in range(abs(k)):
        x = math.nextafter(x, INF if k > 0 else -INF)
    return x


# ----------------------------------------------------------------------------------------------------------------
# property-level references (source text: replay snippets are self-contained; needs HP_SRC + PROP_SRC in front)
# ----------------------------------------------------------------------------------------------------------------
R3_SRC = r'''
def c04_twin(rt, HP, spec, b=None):
    """the transform object of `spec` built on 40-digit numbers (the wrapped object for InverseRTransform)"""
    cls = spec["cls"]
    C = getattr(rt, cls)
    args = [HP(float(p)) for p in spec["ps"]]
    if cls in C04_HAS_TRIM:
        return C(*args, trim_inf=False)         # the trimming is applied by the reference itself (c04_trimmed), not by the library's _convert_inf
    if cls in C04_B_CLS:
        return C(args[0], args[1], b=HP(float(b if b is not None else spec["ps"][2])))
    return C(*args)


def c04_trimmed(mpmath, spec, v):
    """trim_inf=True replaces an infinite image (and nothing else) by +-1e16; InverseRTransform.transform is the untrimmed inverse"""
    if spec["cls"] in C04_HAS_TRIM and spec.get("trim") and not spec.get("inv") and mpmath.isinf(v):
        return mpmath.mpf(10) ** 16 * (1 if v > 0 else -1)
    return v


def c04_r3_window(script, rt, OneDGrid, HP, hp_call, mpmath, slack=1e-7, dead=0.005):
    """One call.  The new grid is accepted iff every image lies within the slack 1e-7 of the ordered image of the old ends
    (images: the map of this transform object in 40-digit arithmetic).  Cases within `dead` of the slack are not judged."""
    import numpy as np
    mpf = mpmath.mpf
    spec, gs = script["tfs"][0], script["grids"][0]
    with np.errstate(all="ignore"):
        T = c04_build_tf(rt, spec)
        g = c04_build_grid(OneDGrid, gs)
        try:
            T.transform_1d_grid(g); tag = "ok"
        except ValueError:
            tag = "ValueError"
        Th = c04_twin(rt, HP, spec)
        meth = "inverse" if spec.get("inv") else "transform"
        img = [c04_trimmed(mpmath, spec, hp_call(Th, meth, float(x))) for x in g.points]
        ends = sorted([c04_trimmed(mpmath, spec, hp_call(Th, meth, float(g.domain[0]))), c04_trimmed(mpmath, spec, hp_call(Th, meth, float(g.domain[1])))])
    if any(mpmath.isnan(v) for v in img + ends):
        return []
    out = max([mpf(0)] + [ends[0] - v for v in img] + [v - ends[1] for v in img])
    if abs(out - mpf(slack)) <= dead * slack:
        return []
    want = "ok" if out <= slack else "ValueError"
    if tag != want:
        return [("slack-window", "%s%s%r.transform_1d_grid(OneDGrid(%r, ..., %r)): %s; the farthest image lies %s outside the image "
                 "[%s, %s] of the old ends (slack of the domain check of the new grid: 1e-7), expected %s"
                 % ("InverseRTransform of " if spec.get("inv") else "", spec["cls"], tuple(spec["ps"]),
                    [float(x) for x in g.points[:3]] + (["..."] if g.size > 6 else []) + [float(x) for x in g.points[3:][-3:]], tuple(g.domain),
                    "accepted" if tag == "ok" else "rejected (ValueError)", mpmath.nstr(out, 8), mpmath.nstr(ends[0], 12), mpmath.nstr(ends[1], 12),
                    "accepted" if want == "ok" else "rejected"))]
    return []


def c04_r3_homogeneity(script, scales, rt, OneDGrid):
    """Weights scaled by a power of two s: the new weights are exactly s times the new weights of the unscaled grid (|J| w is
    linear in w; scaling by a power of two commutes with rounding), the new points and the new domain do not move."""
    import numpy as np
    spec, gs = script["tfs"][0], script["grids"][0]
    bad = []
    with np.errstate(all="ignore"):
        ref = c04_build_tf(rt, spec).transform_1d_grid(c04_build_grid(OneDGrid, gs))
        for s in scales:
            g2 = dict(gs, weights=[w * s for w in gs["weights"]])
            try:
                h = c04_build_tf(rt, spec).transform_1d_grid(c04_build_grid(OneDGrid, g2))
            except (ValueError, ZeroDivisionError) as e:
                bad.append(("homogeneity", "weights scaled by %r: %s, the unscaled grid is accepted" % (s, type(e).__name__)))
                continue
            want = ref.weights * s
            tiny = np.abs(want) < 2.3e-308          # subnormal results round
            ok = np.where(tiny, np.abs(h.weights - want) <= 1e-323, (h.weights == want) | (np.isnan(want) & np.isnan(h.weights)))
            if not (np.all(ok) and np.array_equal(h.points, ref.points, equal_nan=True)
                    and np.array_equal(np.array(h.domain, dtype=float), np.array(ref.domain, dtype=float), equal_nan=True)):
                i = int(np.argmin(ok)) if not np.all(ok) else 0
                bad.append(("homogeneity", "%s%r on OneDGrid(%r, w, %r): weights scaled by s = %r give new weight %d = %r, s times the unscaled "
                            "new weight is %r (points %r vs %r, domain %r vs %r)"
                            % (spec["cls"], tuple(spec["ps"]), gs["points"], gs["domain"], s, i, float(h.weights[i]), float(want[i]),
                               [float(v) for v in h.points[:3]], [float(v) for v in ref.points[:3]], tuple(h.domain), tuple(ref.domain))))
    return bad


def c04_r3_translation(script, shift, rt, OneDGrid):
    """rmin (and rmax where the class has one) moved by the exactly representable `shift`: the new points and the finite ends of
    the new domain move by `shift` (to a few ulp of shift + |point|), the new weights do not move."""
    import numpy as np
    spec, gs = script["tfs"][0], script["grids"][0]
    two = spec["cls"] in ("LinearFiniteRTransform", "HandyModRTransform", "LinearInfiniteRTransform")
    ps2 = [p + shift if (i == 0 or (i == 1 and two)) else p for i, p in enumerate(spec["ps"])]
    with np.errstate(all="ignore"):
        ref = c04_build_tf(rt, spec).transform_1d_grid(c04_build_grid(OneDGrid, gs))
        try:
            h = c04_build_tf(rt, dict(spec, ps=ps2)).transform_1d_grid(c04_build_grid(OneDGrid, gs))
        except (ValueError, ZeroDivisionError) as e:
            return [("translation", "%s%r accepted the grid, %r raised %s" % (spec["cls"], tuple(spec["ps"]), tuple(ps2), type(e).__name__))]
    eps = 2.220446049250313e-16

    def moved(a, b):
        a, b = float(a), float(b)
        if a != a or b != b:
            return a != a and b != b
        if abs(a) >= 1e15 or abs(b) >= 1e15:
            return abs(a - b) <= 1e-9 * abs(a) or a == b
        return abs(b - shift - a) <= 16 * eps * (abs(shift) + abs(a) + abs(b))
    bad = []
    for i in range(ref.size):
        if not moved(ref.points[i], h.points[i]):
            bad.append(("translation", "%s: rmin moved by %r: new point %d moves from %r to %r" % (spec["cls"], shift, i, float(ref.points[i]), float(h.points[i]))))
            break
    for i in range(ref.size):
        a, b = float(ref.weights[i]), float(h.weights[i])
        if not ((a != a and b != b) or a == b or abs(a - b) <= 1e-12 * abs(a)):
            bad.append(("translation", "%s%r -> %r: new weight %d changes from %r to %r under a translation of the image" % (spec["cls"], tuple(spec["ps"]), tuple(ps2), i, a, b)))
            break
    if not (moved(ref.domain[0], h.domain[0]) and moved(ref.domain[1], h.domain[1])):
        bad.append(("translation", "%s: rmin moved by %r: new domain moves from %r to %r" % (spec["cls"], shift, tuple(ref.domain), tuple(h.domain))))
    return bad


def c04_r3_chain(chain, rt, OneDGrid, HP, hp_call, mpmath, slack=1e-7):
    """chain = {"tfs": [spec, ...], "grid": grid spec}: the grid pushed through the transforms one after the other.
    Reference: the composite map r = r_k o ... o r_1 of the 40-digit twins; final points r(x_i), final weights |r'(x_i)| w_i with
    r' = mpmath.diff of the composite, final domain = ordered image of the old ends, containing every node."""
    import numpy as np
    mpf = mpmath.mpf
    dps = mpmath.mp.dps
    mpmath.mp.dps = 40
    try:
        with np.errstate(all="ignore"):
            return _c04_r3_chain(chain, rt, OneDGrid, HP, hp_call, mpmath, slack)
    finally:
        mpmath.mp.dps = dps


def _c04_r3_chain(chain, rt, OneDGrid, HP, hp_call, mpmath, slack):
    import numpy as np
    mpf = mpmath.mpf
    g = c04_build_grid(OneDGrid, chain["grid"])
    names = " -> ".join(("Inverse(" if s.get("inv") else "") + s["cls"] + repr(tuple(s["ps"])) + (")" if s.get("inv") else "") for s in chain["tfs"])
    where = "OneDGrid(%r, %r, %r) through %s" % (chain["grid"]["points"][:5], chain["grid"]["weights"][:5], chain["grid"]["domain"], names)
    h = g
    for k, spec in enumerate(chain["tfs"]):
        T = c04_build_tf(rt, spec)
        dom = (float(h.domain[0]), float(h.domain[1]))
        if dom[0] < float(T.domain[0]) or dom[1] > float(T.domain[1]):
            return [("chain-setup", where + ": stage %d does not fit (%r not in %r)" % (k, dom, tuple(T.domain)))]
        try:
            h = T.transform_1d_grid(h)
        except (ValueError, ZeroDivisionError, TypeError) as e:
            return [("chain-rejected", where + ": stage %d raised %s although its input grid (domain %r, nodes in [%r, %r]) lies in the domain %r of the transform"
                     % (k, type(e).__name__, dom, float(np.min(h.points)), float(np.max(h.points)), tuple(float(v) for v in T.domain)))]
    twins = [(c04_twin(rt, HP, s), "inverse" if s.get("inv") else "transform") for s in chain["tfs"]]
    # ExpRTransform of a huge argument: rmin exp(alpha x) overflows the doubles beyond alpha x = 710 (and a 40-digit exp of 1e12 takes minutes)
    exp_alpha = [float(mpmath.log(mpf(s["ps"][1]) / mpf(s["ps"][0])) / mpf(s["ps"][2])) if (s["cls"] == "ExpRTransform" and not s.get("inv")) else None
                 for s in chain["tfs"]]

    def rmap(x):
        v = mpf(x)
        for (Th, meth), ea, sp in zip(twins, exp_alpha, chain["tfs"]):
            if ea is not None and mpmath.isfinite(v) and v * ea > 5000:
                v = mpf("inf")
                continue
            try:
                v = hp_call(Th, meth, v)
            except Exception:
                return mpf("nan")
            if not isinstance(v, mpf) or mpmath.isnan(v):
                return mpf("nan")
            v = c04_trimmed(mpmath, sp, v)
        return v
    pscale = max([1.0] + [abs(float(p)) for s in chain["tfs"] for p in s["ps"] if abs(float(p)) < 1e300])
    u = 2.3e-16
    out = []
    xs, ws = [float(v) for v in g.points], [float(v) for v in g.weights]
    if h.size != len(xs):
        return [("chain-size", where + ": %d nodes in, %d out" % (len(xs), h.size))]
    seen = set()
    fin_w = [abs(float(v)) for v in h.weights if float(v) == float(v) and abs(float(v)) < 1e300]
    wscale = max(fin_w) if fin_w else 0.0
    for i, (x, w) in enumerate(zip(xs, ws)):
        r = rmap(x)
        gp, gw = float(h.points[i]), float(h.weights[i])
        if mpmath.isnan(r):
            continue
        if mpmath.isinf(r) or abs(r) >= 1e15:
            if not (abs(gp) > 1e12 and (gp > 0) == (r > 0)) and "p" not in seen:
                seen.add("p")
                out.append(("chain-points", where + ": final point %d is %r, composite map gives %s" % (i, gp, mpmath.nstr(r, 8))))
            continue
        try:
            d1 = mpmath.diff(rmap, mpf(x))
            d2 = mpmath.diff(rmap, mpf(x), 2)
        except Exception:
            continue
        if not (isinstance(d1, mpf) and mpmath.isfinite(d1) and isinstance(d2, mpf) and mpmath.isfinite(d2)) or abs(d1) >= 1e15:
            continue
        nst = len(twins)
        if not (gp == gp and abs(mpf(gp) - r) <= 1e-9 * max(1, abs(r), pscale) + abs(d1) * 64 * nst * u * (1 + abs(x))) and "p" not in seen:
            seen.add("p")
            out.append(("chain-points", where + ": final point %d is %r, the composite map gives r(%r) = %s" % (i, gp, x, mpmath.nstr(r, 17))))
        want = abs(d1) * mpf(w)
        # InverseRTransform(Knowles) forms 1 - exp(-y): for small y = (r - rmin)/R the implementation's value has only -log10(y) - 16 digits
        rel = 1e-4 if any(s.get("inv") and s["cls"] == "KnowlesRTransform" for s in chain["tfs"]) else 1e-7
        # a node pushed into the flat end of a map (image 1 - e^-137 of InverseRTransform(Knowles)) carries a weight that is rounding
        # noise at the scale of the other weights: absolute floor 1e-10 of the largest final weight
        tol = rel * abs(want) + mpf(1e-10) * wscale + abs(d2) * 256 * nst * u * (1 + abs(x)) * abs(w) + mpf(10) ** -22 * pscale * abs(w) + mpf(10) ** -300
        if not (gw == gw and abs(mpf(gw) - want) <= tol):
            # the code multiplies by the signed derivatives: under a decreasing composite the weight is -|r'| w (listed finding)
            kind = "sign" if d1 < 0 and gw == gw and abs(mpf(gw) + want) <= tol else "chain-weights"
            if kind not in seen:
                seen.add(kind)
                out.append((kind, where + ": final weight %d is %r, |r'(x)| w with r' the derivative of the composite map = |%s| * %r%s"
                            % (i, gw, mpmath.nstr(d1, 12), w, " (the weight carries the sign of the decreasing composite)" if kind == "sign" else "")))
    lo_, hi_ = float(h.domain[0]), float(h.domain[1])
    if lo_ != lo_ or hi_ != hi_:
        out.append(("chain-domain-nan", where + ": final domain (%r, %r)" % (lo_, hi_)))
        return out
    e = sorted([rmap(float(g.domain[0])), rmap(float(g.domain[1]))]) if not (mpmath.isnan(rmap(float(g.domain[0]))) or mpmath.isnan(rmap(float(g.domain[1])))) else None

    def same(a, v):
        if mpmath.isinf(v) or abs(v) >= 1e15:
            return abs(a) > 1e12 and (a > 0) == (v > 0)
        return abs(mpf(a) - v) <= 1e-9 * max(1, abs(v), pscale)
    if not lo_ <= hi_ or (e is not None and not (same(lo_, e[0]) and same(hi_, e[1]))):
        out.append(("chain-domain", where + ": final domain (%r, %r), ordered image of the old ends under the composite map %s"
                    % (lo_, hi_, None if e is None else (mpmath.nstr(e[0], 15), mpmath.nstr(e[1], 15)))))
    for i in range(h.size):
        gp = float(h.points[i])
        if gp == gp and abs(gp) < 1e300 and not (lo_ - slack - 1e-15 * abs(lo_) <= gp <= hi_ + slack + 1e-15 * abs(hi_)):
            out.append(("chain-containment", where + ": final node %d = %r outside the final domain (%r, %r)" % (i, gp, lo_, hi_)))
            break
    return out


def c04_r3_handout(script, rt, OneDGrid):
    """The returned grid is the caller's: it is edited in place (and through the setters), then the same call is made again.
    The second answer is the first answer, the original grid is untouched."""
    import numpy as np
    spec, gs = script["tfs"][0], script["grids"][0]
    with np.errstate(all="ignore"):
        T = c04_build_tf(rt, spec)
        g = c04_build_grid(OneDGrid, gs)
        g0 = (g.points.copy(), g.weights.copy(), g.domain)
        h1 = T.transform_1d_grid(g)
        snap = (h1.points.copy(), h1.weights.copy(), tuple(float(v) for v in h1.domain))
        alias = np.shares_memory(h1.points, g.points) or np.shares_memory(h1.weights, g.weights) or np.shares_memory(h1.weights, g.points)
        if h1.points.flags.writeable:
            h1.points[...] = -7.25
        if h1.weights.flags.writeable:
            h1.weights *= 3.0
        try:
            h1.points = np.full(h1.size, 11.0)
            h1.weights = np.full(h1.size, -2.0)
        except Exception:
            pass
        parent_ok = np.array_equal(g.points, g0[0], equal_nan=True) and np.array_equal(g.weights, g0[1], equal_nan=True) and g.domain == g0[2]
        h2 = T.transform_1d_grid(g) if parent_ok else None
    name = "%s%s%r" % ("InverseRTransform of " if spec.get("inv") else "", spec["cls"], tuple(spec["ps"]))
    bad = []
    if not parent_ok:
        bad.append(("handout-parent-changed" + (":aliased" if alias else ""),
                    "%s: h = tf.transform_1d_grid(g); h.points[...] = -7.25; h.weights *= 3 changed the caller's original grid g: points %r -> %r, "
                    "weights %r -> %r (h.points shares memory with g.points: %s)"
                    % (name, g0[0][:3].tolist(), g.points[:3].tolist(), g0[1][:3].tolist(), g.weights[:3].tolist(), bool(alias))))
    elif not (np.array_equal(h2.points, snap[0], equal_nan=True) and np.array_equal(h2.weights, snap[1], equal_nan=True)
              and np.array_equal(np.array(h2.domain, dtype=float), np.array(snap[2]), equal_nan=True)):
        bad.append(("handout-second-differs", "%s: the same call repeated after the caller edited the first returned grid in place gives points %r, weights %r, "
                    "domain %r; the first call gave %r, %r, %r" % (name, h2.points[:3].tolist(), h2.weights[:3].tolist(), tuple(h2.domain),
                                                                 snap[0][:3].tolist(), snap[1][:3].tolist(), snap[2])))
    return bad


def c04_r3_methods(script, order, rt, OneDGrid):
    """transform / deriv / inverse called directly on the object before (`order` 0) or between (`order` 1) two transform_1d_grid
    calls, trim_inf toggled on the one object and back: every transform_1d_grid answer is the answer of a fresh object."""
    import numpy as np
    spec, gs = script["tfs"][0], script["grids"][0]
    name = "%s%s%r" % ("InverseRTransform of " if spec.get("inv") else "", spec["cls"], tuple(spec["ps"]))

    def run(T, g):
        try:
            h = T.transform_1d_grid(g)
            return ("ok", h.points.copy(), h.weights.copy(), np.array(h.domain, dtype=float))
        except (ValueError, ZeroDivisionError) as e:
            return (type(e).__name__,)

    def eq(a, b):
        return a[0] == b[0] and all(np.array_equal(x, y, equal_nan=True) for x, y in zip(a[1:], b[1:]))

    def poke(T, g):
        for meth in ("transform", "deriv", "deriv2", "inverse", "deriv3"):
            try:
                arg = g.points if meth != "inverse" else T.transform(g.points)
                getattr(T, meth)(arg)
                getattr(T, meth)(arg[::-1].copy())
            except Exception:
                pass
    bad = []
    with np.errstate(all="ignore"):
        g = c04_build_grid(OneDGrid, gs)
        fresh = run(c04_build_tf(rt, spec), c04_build_grid(OneDGrid, gs))
        T = c04_build_tf(rt, spec)
        first = run(T, g) if order == 1 else None
        poke(T, g)
        second = run(T, g)
        if first is not None and not eq(first, fresh):
            bad.append(("methods-order", name + ": first transform_1d_grid call differs from a fresh object's"))
        if not eq(second, fresh):
            bad.append(("methods-order", "%s: transform_1d_grid after direct calls of transform / deriv / deriv2 / inverse / deriv3 on the same object gives %r..., "
                        "a fresh object gives %r..." % (name, [v[:3].tolist() if hasattr(v, "tolist") else v for v in second[:3]],
                                                        [v[:3].tolist() if hasattr(v, "tolist") else v for v in fresh[:3]])))
        base = T._tfm if spec.get("inv") else T
        if spec["cls"] in C04_HAS_TRIM and hasattr(base, "trim_inf"):
            flipped = dict(spec, trim=not spec.get("trim"))
            want = run(c04_build_tf(rt, flipped), c04_build_grid(OneDGrid, gs))
            base.trim_inf = not base.trim_inf
            got = run(T, g)
            base.trim_inf = not base.trim_inf
            back = run(T, g)
            if not eq(got, want):
                bad.append(("option-alternating", "%s: trim_inf switched to %s on the object gives (last points, domain) = %r, a fresh object with that option %r"
                            % (name, not spec.get("trim"), got[0] if got[0] != "ok" else (got[1][-3:].tolist(), got[3].tolist()),
                               want[0] if want[0] != "ok" else (want[1][-3:].tolist(), want[3].tolist()))))
            if not eq(back, fresh):
                bad.append(("option-alternating", "%s: trim_inf switched and switched back: the answer differs from the first one" % name))
    return bad


def c04_r3_dtype(script, rt, OneDGrid):
    """The grid handed to transform_1d_grid holds its points / weights as int64 / int32 / bool / float32 / read-only / strided
    arrays: the answer is the answer for the float64 copy of the same numbers (same acceptance, new points, new weights = |J| w,
    new domain, sum of exp(-|r|) over the new grid), to 1e-12 (2e-5 where the nodes are float32: the map is evaluated in float32)."""
    import numpy as np
    spec, gs = script["tfs"][0], script["grids"][0]
    plain = dict(gs, pdtype="float64", wdtype="float64", layout="plain")
    name = "%s%s%r" % ("InverseRTransform of " if spec.get("inv") else "", spec["cls"], tuple(spec["ps"]))
    what = "%s.transform_1d_grid(OneDGrid(points %r [%s], weights %r [%s], %r; %s))" % (
        name, gs["points"], gs.get("pdtype", "float64"), gs["weights"], gs.get("wdtype", "float64"), gs["domain"], gs.get("layout", "plain"))

    def run(g_spec):
        try:
            g = c04_build_grid(OneDGrid, g_spec)
            before = (g.points.copy(), g.weights.copy(), g.points.dtype, g.weights.dtype)
            h = c04_build_tf(rt, spec).transform_1d_grid(g)
            same = (g.points.dtype == before[2] and g.weights.dtype == before[3] and np.array_equal(g.points, before[0], equal_nan=True)
                    and np.array_equal(g.weights, before[1], equal_nan=True))
            return "ok", h, same
        except (ValueError, ZeroDivisionError, TypeError) as e:
            return type(e).__name__, None, True
    with np.errstate(all="ignore"):
        t1, h, untouched = run(gs)
        t0, ref, _ = run(plain)
    bad = []
    if not untouched:
        bad.append(("dtype-input-modified", what + ": the caller's arrays were changed by the call"))
    if t1 != t0:
        return bad + [("dtype", what + ": %s; the float64 copy of the same grid: %s" % (t1, t0))]
    if t1 != "ok":
        return bad
    rtol = 2e-5 if gs.get("pdtype") == "float32" else 1e-12

    def close(a, b, scale):
        a, b = float(a), float(b)
        if a != a or b != b:
            return a != a and b != b
        if a == b:
            return True
        return abs(a - b) <= rtol * max(abs(a), abs(b), scale)
    pscale = max([1.0] + [abs(float(p)) for p in spec["ps"]])
    for i in range(ref.size):
        if not close(h.points[i], ref.points[i], pscale):
            bad.append(("dtype", what + ": new point %d is %r, for the float64 copy of the grid %r" % (i, float(h.points[i]), float(ref.points[i]))))
            break
    fin = [abs(float(v)) for v in ref.weights if float(v) == float(v) and abs(float(v)) < 1e300]
    wscale = 1e-3 * max(fin) if fin else 0.0
    for i in range(ref.size):
        if not close(h.weights[i], ref.weights[i], wscale if rtol > 1e-9 else 0.0):
            bad.append(("dtype", what + ": new weight %d is %r; r'(x) w computed on the float64 copy of the grid is %r (node %r, weight %r)"
                        % (i, float(h.weights[i]), float(ref.weights[i]), gs["points"][i], gs["weights"][i])))
            break
    if not (close(h.domain[0], ref.domain[0], pscale) and close(h.domain[1], ref.domain[1], pscale)):
        bad.append(("dtype", what + ": new domain %r, for the float64 copy %r" % (tuple(float(v) for v in h.domain), tuple(float(v) for v in ref.domain))))
    keep = np.isfinite(ref.points) & np.isfinite(ref.weights) & np.isfinite(h.points) & np.isfinite(h.weights)
    s1 = float(np.sum((np.exp(-np.abs(h.points.astype(float))) * h.weights)[keep]))
    s0 = float(np.sum((np.exp(-np.abs(ref.points)) * ref.weights)[keep]))
    sc = float(np.sum(np.abs(np.exp(-np.abs(ref.points)) * ref.weights)[keep]))
    if not abs(s1 - s0) <= max(rtol, 1e-11) * max(sc, 1e-300) * 4:
        bad.append(("dtype", what + ": sum of exp(-|r|) over the new grid = %r, over the new grid of the float64 copy %r" % (s1, s0)))
    # (not judged: the dtype of the new arrays — IdentityRTransform hands the integer / bool array of points back as it is, the values are right)
    return bad
'''

SNIPPET_R3 = """
import warnings; warnings.filterwarnings('ignore')
import numpy as np
from grid import rtransform as rt
from grid.basegrid import OneDGrid
inf, nan = float('inf'), float('nan')
payload = {payload!r}
bad = [b for b in {call} if b[0] == {kind!r}]
assert not bad, bad[0][1]
"""

_NS = {}


def _ns():
    if not _NS:
        _NS.update(M()._PROP_NS)
        exec(R3_SRC, _NS)
    return _NS


def _snippet(call, payload, kind):
    m = M()
    return m._hp().HP_SRC + m.PROP_SRC + R3_SRC + SNIPPET_R3.format(payload=payload, call=call, kind=kind)


# ----------------------------------------------------------------------------------------------------------------
# generators (scripts in the format of c04.py: {"tfs": [spec], "grids": [spec], "calls": [[0, 0]]})
# ----------------------------------------------------------------------------------------------------------------
def _one(m, cls, ps, pts, wts, dom, trim=False, inv=False, b_none=False):
    return {"tfs": [m._spec_tf(cls, ps, trim if cls in m.HAS_TRIM else False, inv, b_none)], "grids": [m._spec_grid(pts, wts, dom)], "calls": [[0, 0]]}


def slack_scripts(rng):
    """class 7: the 1e-7 slack of the new grid's domain check seen through the map; target = how far the image lies outside"""
    m = M()
    out = []
    for f in FACT:
        target = 1e-7 * f
        for hi_side in (False, True):
            side = "hi" if hi_side else "lo"
            d = rng.choice([9.9e-8, 5e-8, 2e-9])
            s = target / d
            a = rng.choice([0.0, -2.0, 1.5])
            for dec in (False, True):
                ps = [a + 2 * s, a] if dec else [a, a + 2 * s]
                pts = [-0.4, 0.3, 1.0 + d] if hi_side else [-1.0 - d, 0.3, 0.8]
                if rng.random() < 0.5:
                    pts = pts[::-1]
                out.append((f"slack-window:LinearFinite-{'dec' if dec else 'inc'}:{side}:x{f:.3g}", _one(m, "LinearFiniteRTransform", ps, pts, [0.5, 1.0, 0.5], (-1.0, 1.0))))
            width = 2 * d / target
            a = rng.choice([0.0, 1.0])
            pts = [a + 0.3 * width, a + 0.5 * width, a + width + d] if hi_side else [a - d, a + 0.5 * width, a + 0.8 * width]
            out.append((f"slack-window:inverse-LinearFinite:{side}:x{f:.3g}", _one(m, "LinearFiniteRTransform", [a, a + width], pts, [0.5, 1.0, 0.5], (a, a + width), inv=True)))
            if not hi_side:
                rmin = rng.choice([0.0, 0.5])
                out.append((f"slack-window:Becke:lo:x{f:.3g}", _one(m, "BeckeRTransform", [rmin, target * (2 + d) / d], [-1.0 - d, 0.0, 0.5], [0.5, 1.0, 0.5], (-1.0, 1.0),
                                                                    trim=rng.random() < 0.5)))
                b = rng.choice([1.0, 4.0])
                out.append((f"slack-window:LinearInfinite:lo:x{f:.3g}", _one(m, "LinearInfiniteRTransform", [rmin, rmin + (target / d) * b, b], [-d, 0.5, 2.0], [0.5, 1.0, 0.5], (0.0, INF))))
    return out


def _base_image(cls, m_exp, x):
    """r(x) for rmin = 0, R = 1 in 40-digit arithmetic (the map of the class itself)"""
    m = M()
    hp = m._hp()
    spec = m._spec_tf(cls, [0.0, 1.0] + ([m_exp] if m_exp is not None else []), False)
    return float(hp.hp_call(_ns()["c04_twin"](m.rt(), hp.HP, spec), "transform", x))


def trim_scripts(rng):
    """class 7 / 8: the largest finite image at 1e16 * f.  -> (strict scripts, ordinary scripts)"""
    m = M()
    strict, plain = [], []
    og = m.og()
    for cls, mexp in (("BeckeRTransform", None), ("HandyRTransform", rng.choice([1, 2, 3])), ("HandyRTransform", 2.5), ("MultiExpRTransform", None),
                      ("KnowlesRTransform", rng.choice([2, 3]))):
        # Knowles evaluates 1 - 2^-k (x + 1)^k: closer than ~1e-13 to x = 1 the rounding of x + 1 alone decides between a finite
        # image and the pole, no reference applies there (narrowed)
        k = rng.choice([1000, 2 ** 20]) if cls == "KnowlesRTransform" else rng.choice([1, 3, 1000, 2 ** 20])
        x = -1.0 + k * 2.0 ** -52 if cls == "MultiExpRTransform" else 1.0 - k * 2.0 ** -53
        base = _base_image(cls, mexp, x)
        for f in FACT:
            R = 1e16 * f / base
            rmin = rng.choice([0.0, 0.5])
            ps = [rmin, R] + ([mexp] if mexp is not None else [])
            for trim in (True, False):
                pts, wts = [-0.5, 0.25, x], [0.7, 1.0, rng.choice([1.0, 1e-20])]
                if rng.random() < 0.5:
                    pts, wts = pts[::-1], wts[::-1]
                (plain if cls == "KnowlesRTransform" else strict).append((f"trim-threshold:{cls}:x{f:.3g}:trim={trim}", _one(m, cls, ps, pts, wts, (-1.0, 1.0), trim=trim)))
    # TanhSinh rules as they are: nodes 4e-14 from the ends (n = 61 ... 67), nodes exactly on the ends (n >= 71)
    for n in (61, 65, 71, 81):
        g = og.TanhSinh(n)
        inner = g.points[np.abs(g.points) < 1.0]
        for cls, mexp in (("BeckeRTransform", None), ("HandyRTransform", 2), ("MultiExpRTransform", None)):
            x = float(inner.min() if cls == "MultiExpRTransform" else inner.max())
            base = _base_image(cls, mexp, x)
            f = FACT[(n + len(cls)) % 4]
            for ff in (f, FACT[(FACT.index(f) + 1) % 4]):
                ps = [0.0, 1e16 * ff / base] + ([mexp] if mexp is not None else [])
                for trim in (True, False):
                    strict.append((f"trim-threshold:TanhSinh({n}):{cls}:x{ff:.3g}:trim={trim}",
                                   {"tfs": [m._spec_tf(cls, ps, trim)], "grids": [m._spec_grid(g.points, g.weights, g.domain)], "calls": [[0, 0]]}))
    return strict, plain


def guard_scripts(rng):
    """class 7: the domain guard of transform_1d_grid (strict comparisons, no slack): the grid's domain one ulp / 1e-7 * f inside and outside"""
    m = M()
    out = []
    for cls in m.FINITE_TF:
        ps, trim = m._r2_params(cls, rng, rng.randrange(12))
        for tagd, dom in (("equal", (-1.0, 1.0)), ("ulp-inside", (_nx(-1.0, 1), _nx(1.0, -1))), ("ulp-below", (_nx(-1.0, -1), 1.0)), ("ulp-above", (-1.0, _nx(1.0, 1))),
                          ("1e-9-below", (-1.0 - 1e-9, 1.0)), ("1e-7/1.01-above", (-1.0, 1.0 + 1e-7 / 1.01)), ("1e-5-above", (-1.0, 1.0 + 1e-5)), ("1e-9-inside", (-1.0 + 1e-9, 1.0 - 1e-9))):
            out.append((f"guard-threshold:{cls}:{tagd}", _one(m, cls, ps, [-0.5, 0.1, 0.6], [0.5, 1.0, 0.5], dom, trim=trim)))
    for cls in m.INF_TF:
        ps, _ = m._r2_params(cls, rng, 0)
        if cls == "HyperbolicRTransform":
            ps[1] = 0.05
        for tagd, dom in (("equal", (0.0, INF)), ("minus-zero", (-0.0, INF)), ("subnormal-below", (-5e-324, INF)), ("subnormal-inside", (5e-324, INF)),
                          ("1e-9-below", (-1e-9, INF)), ("finite-top", (0.0, 10.0 if cls == "HyperbolicRTransform" else 1.7e308)),      # Hyperbolic: below its pole 1/b = 20
                          ("1e-7/1.01-below", (-1e-7 / 1.01, 5.0))):
            out.append((f"guard-threshold:{cls}:{tagd}", _one(m, cls, ps, [0.5, 1.0, 2.0], [0.5, 1.0, 0.5], dom)))
    # InverseRTransform: its domain is the codomain of the wrapped map, (rmin, inf) or (rmin, 1e16) with trimming
    for cls in ("BeckeRTransform", "HandyRTransform", "KnowlesRTransform", "LinearFiniteRTransform"):
        for trim in (True, False):
            rmin = rng.choice([0.5, 2.0])
            ps = [rmin, rmin + 3.0] if cls == "LinearFiniteRTransform" else [rmin, 1.5] + ([2] if cls != "BeckeRTransform" else [])
            # (rmin, inf) through InverseRTransform(..., trim_inf=False) is the listed nan-domain finding: finite upper ends there
            top = rmin + 3.0 if cls == "LinearFiniteRTransform" else (1e16 if trim else rmin + 2.5)
            for tagd, dom in (("equal", (rmin, top)), ("ulp-below", (_nx(rmin, -1), top)), ("ulp-inside", (_nx(rmin, 1), rmin + 2.5)),
                              ("ulp-above", (rmin, _nx(top, 1) if (trim or cls == "LinearFiniteRTransform") else 1e300))):
                out.append((f"guard-threshold:inverse:{cls}:{tagd}:trim={trim}", _one(m, cls, ps, [rmin + 0.5, rmin + 1.0, rmin + 2.0], [0.5, 1.0, 0.5], dom, trim=trim, inv=True)))
    return out


def b_scripts(rng):
    """class 7: `abs(b) < 1e-16` of the parameter b inferred from the first array.  -> (all, those the 40-digit oracle can judge)"""
    m = M()
    allb, judged = [], []
    for cls in m.B_CLS:
        for f in FACT:
            top = 1e-16 * f
            rmin = rng.choice([0.5, 2.0])
            s = {"tfs": [m._spec_tf(cls, [rmin, rmin + 3.0], b_none=True)],
                 "grids": [m._spec_grid([0.0, top / 2, top], [0.5, 1.0, 0.5], (0.0, INF)), m._spec_rule("UniformInteger", 5)],
                 "calls": [[0, 0]] + ([[0, 1], [0, 0]] if f > 1 else [])}       # after a rejected inference the object keeps b = tiny (listed information)
            allb.append((f"b-threshold:{cls}:x{f:.3g}", s))
            if cls != "PowerRTransform":          # np.log(b + 1) with b < 2.2e-16: b + 1 rounds, no meaningful reference
                judged.append(allb[-1])
    return allb, judged


def magnitude_scripts(rng):
    """class 8 -> (scripts, homogeneity cases, translation cases)"""
    m = M()
    scripts, homog, transl = [], [], []
    for cls in m.FINITE_TF:
        ps, trim = m._r2_params(cls, rng, rng.randrange(12))
        pts, wts, _, _ = m._r2_nodes(rng, -1.0, 1.0, 4, order=rng.choice(["sorted", "shuffled"]), wkind="positive")
        base = _one(m, cls, ps, pts, wts, (-1.0, 1.0), trim=trim)
        homog.append((f"weights-scaled:{cls}", base))
        for s in (1e-300, 1e-50, 1e-12, 1e12):
            scripts.append((f"weights-scaled:{cls}:{s:g}", _one(m, cls, ps, pts, [w * s for w in wts], (-1.0, 1.0), trim=trim)))
        # nodes one ulp from the ends of [-1, 1], tiny nodes
        # (Knowles: 1 - 1e-12 instead of one ulp below 1, see trim_scripts)
        scripts.append((f"nodes-extreme:{cls}", _one(m, cls, ps, [_nx(-1.0, 1), -1e-300, 5e-324, 1e-12, 1.0 - 1e-12 if cls == "KnowlesRTransform" else _nx(1.0, -1)],
                                                     [0.1, 0.2, 0.3, 0.2, 0.1], (-1.0, 1.0), trim=trim)))
        # scale parameter over 24 orders of magnitude
        for R in (1e-12, 1e12):
            if cls == "LinearFiniteRTransform":
                psR = [ps[0], ps[0] + R]
            elif cls == "HandyModRTransform":
                # rmax - rmin = 1e12 loses 4 digits of r(x) near x = 1 to cancellation in the denominator of HandyMod.transform
                # (2^m (1 - 2^m + D) - (1 + x)^m (D - 2^m), both terms ~ 1e13, difference 2^m): an accuracy matter of the closed
                # form (C03), reported to the lead; here the scale stops at 1e6 (relative error 1e-10)
                # and rmax - rmin - (2^m - 1) = 1e-12 puts the parameters on the edge of admissibility where `1 - 2^m + rmax - rmin` has no
                # correct digit: 1e-3 instead
                psR = [ps[0], ps[0] + 2.0 ** ps[2] - 1 + min(max(R, 1e-3), 1e6), ps[2]]
            else:
                psR = [ps[0], R] + ps[2:]
            scripts.append((f"scale-extreme:{cls}:{R:g}", _one(m, cls, psR, pts, wts, (-1.0, 1.0), trim=trim)))
        # a grid on an interval of width 1e-12 inside [-1, 1]
        c = rng.choice([-0.5, 0.0, 0.25])
        scripts.append((f"short-interval:{cls}", _one(m, cls, ps, [c + 2e-13, c + 5e-13, c + 9e-13], [3e-13, 4e-13, 3e-13], (c, c + 1e-12), trim=trim)))
        # translation of the image: dyadic parameters, shift 2^10 ... 2^20
        e = rng.choice([2, 3])
        psT = {"BeckeRTransform": [0.25, 1.5], "MultiExpRTransform": [0.25, 1.5], "LinearFiniteRTransform": [0.25, 3.75],
               "KnowlesRTransform": [0.25, 1.5, e], "HandyRTransform": [0.25, 1.5, e], "HandyModRTransform": [0.25, 0.25 + 2.0 ** e + 5.5, e]}[cls]
        transl.append((f"translation:{cls}", _one(m, cls, psT, pts, wts, (-1.0, 1.0), trim=trim), float(2 ** rng.choice([10, 14, 20]))))
    for cls in m.INF_TF:
        ps, _ = m._r2_params(cls, rng, 0)
        if cls == "HyperbolicRTransform":
            ps[1] = 1e-13
        pts, wts = [1e-300, 1e-12, 1.0, 1e12], [0.2, 0.3, 0.3, 0.2]
        base = _one(m, cls, ps, pts, wts, (0.0, INF))
        scripts.append((f"nodes-extreme:{cls}", base))
        homog.append((f"weights-scaled:{cls}", _one(m, cls, ps, [0.5, 1.0, 3.0], [0.3, 0.5, 0.2], (0.0, INF))))
        for s in (1e-300, 1e12):
            scripts.append((f"weights-scaled:{cls}:{s:g}", _one(m, cls, ps, [0.5, 1.0, 3.0], [0.3 * s, 0.5 * s, 0.2 * s], (0.0, INF))))
    transl.append(("translation:LinearInfiniteRTransform", _one(m, "LinearInfiniteRTransform", [0.25, 3.75, 4.0], [0.0, 1.0, 2.5, 4.0], [0.5, 1.0, 1.0, 0.5], (0.0, INF)), 2.0 ** 14))
    return scripts, homog, transl


def chain_cases(rng, nrep):
    """classes 10 / 12: compositions of two and three transforms; -> list of (category, chain)"""
    m = M()
    out = []
    for rep in range(nrep):
        # stage 1: [-1, 1] -> a strict sub-interval [a, b] of [-1, 1] (either orientation)
        a, b = sorted([round(rng.uniform(-0.9, 0.9), 3), round(rng.uniform(-0.9, 0.9), 3)])
        if b - a < 0.2:
            a, b = -0.6, 0.7
        dec1 = rng.random() < 0.3
        s1 = m._spec_tf("LinearFiniteRTransform", [b, a] if dec1 else [a, b])
        c2 = rng.choice(m.FINITE_TF)
        p2, t2 = m._r2_params(c2, rng, rng.randrange(12))
        if c2 == "LinearFiniteRTransform":
            p2 = [abs(p) for p in p2]
        p2[0] = abs(p2[0])
        if c2 == "HandyModRTransform":
            p2 = [p2[0], p2[0] + 2.0 ** p2[2] - 1 + rng.choice([0.2, 3.0, 30.0]), p2[2]]
        s2 = m._spec_tf(c2, p2, t2 if c2 in m.HAS_TRIM else False)
        kind = rng.choice(["rule", "rule", "hand", "one-node", "ends"])
        if kind == "rule":
            rule = rng.choice(sorted(r for r in m.FINITE_RULES if m.FINITE_RULES[r](5) and r != "TanhSinh"))
            n = rng.choice([n_ for n_ in range(2, 12) if m.FINITE_RULES[rule](n_)])
            g = m._spec_rule(rule, n)
        elif kind == "one-node":
            g = m._spec_grid([round(rng.uniform(-0.9, 0.9), 3)], [2.0], (-1.0, 1.0))
        elif kind == "ends":       # nodes exactly on the ends: they land exactly on the ends of the sub-interval
            pts, wts, _, _ = m._r2_nodes(rng, -1.0, 1.0, rng.choice([2, 3, 5]), ends=True, order=rng.choice(["sorted", "reversed", "shuffled"]), wkind="positive")
            g = m._spec_grid(pts, wts, (-1.0, 1.0))
        else:
            lo, hi = sorted([round(rng.uniform(-1, 1), 2), round(rng.uniform(-1, 1), 2)])
            if hi - lo < 0.1:
                lo, hi = -0.5, 0.75
            pts, wts, _, _ = m._r2_nodes(rng, lo, hi, rng.choice([2, 3, 6]), order=rng.choice(["reversed", "shuffled", "sorted"]), wkind=rng.choice(["positive", "mixed"]))
            g = m._spec_grid(pts, wts, (lo, hi))
        tfs = [s1, s2]
        third = rng.choice(["none", "half-line", "inverse-2", "inverse-other", "half-line"])
        # the image of stage 2 lies in [p2[0], ...) with p2[0] >= 0 (LinearFinite: [min, max] of two non-negative numbers)
        if third == "half-line":
            c3 = rng.choice(["IdentityRTransform", "LinearInfiniteRTransform", "ExpRTransform", "PowerRTransform"])
            p3, _ = m._r2_params(c3, rng, 0)
            tfs.append(m._spec_tf(c3, p3))
        elif third == "inverse-2":
            tfs.append(dict(s2, inv=True))
        elif third == "inverse-other" and c2 not in ("LinearFiniteRTransform", "HandyModRTransform"):
            c3 = rng.choice(["BeckeRTransform", "HandyRTransform", "KnowlesRTransform"])
            p3 = [p2[0] * rng.choice([0.0, 0.5, 1.0]), rng.choice([0.5, 2.0])] + ([rng.choice([1, 2, 3])] if c3 != "BeckeRTransform" else [])
            if c3 == "KnowlesRTransform":
                # the inverse of Knowles is 2 (1 - exp(-(r - rmin)/R))^(1/k) - 1: beyond (r - rmin)/R ~ 36 every image is 1.0 and the weights are
                # rounding noise.  R is sized (with a plain re-typing of the stage-2 formula, used for sizing only) so that the top of the
                # stage-2 image has (r - rmin)/R in [0.5, 20]
                q = (1 + max(a, b)) / (1 - max(a, b))
                top = {"BeckeRTransform": lambda: p2[1] * q + p2[0], "HandyRTransform": lambda: p2[1] * q ** p2[2] + p2[0],
                       "KnowlesRTransform": lambda: p2[0] - p2[1] * math.log(1 - ((1 + max(a, b)) / 2) ** p2[2]),
                       "MultiExpRTransform": lambda: p2[0] - p2[1] * math.log((1 + min(a, b)) / 2)}[c2]()
                p3[1] = max(top - p3[0], 1e-3) / rng.uniform(0.5, 20.0)
            tfs.append(m._spec_tf(c3, p3, t2, inv=True))
        out.append((f"chain{len(tfs)}:{kind}:{c2}:{third}", {"tfs": tfs, "grid": g}))
        # half-infinite rule -> LinearInfinite / Identity -> another half-line map (-> inverse of it)
        rule = rng.choice(sorted(m.INF_RULES))
        n = rng.choice([3, 5, 7])
        g = m._spec_rule(rule, n)
        c1 = rng.choice(["LinearInfiniteRTransform", "IdentityRTransform", "PowerRTransform"])
        p1, _ = m._r2_params(c1, rng, 0)
        c2 = rng.choice(["ExpRTransform", "LinearInfiniteRTransform", "IdentityRTransform"])
        p2, _ = m._r2_params(c2, rng, 0)
        tfs = [m._spec_tf(c1, p1), m._spec_tf(c2, p2)]
        if rng.random() < 0.6:      # (the declared codomain of LinearInfinite / Exp / Power is (rmin, rmax): their inverse does not take the half line back)
            c3 = rng.choice(["IdentityRTransform", "IdentityRTransform", "LinearInfiniteRTransform", "ExpRTransform"])
            p3, _ = m._r2_params(c3, rng, 0)
            tfs.append(m._spec_tf(c3, p3, inv=c3 == "IdentityRTransform" and rng.random() < 0.5))
        if max(abs(float(v)) for v in g["points"]) < 50:
            out.append((f"chain{len(tfs)}:half-infinite:{c1}:{c2}", {"tfs": tfs, "grid": g}))
    return out


def class9_scripts(rng):
    """classes 9 / 10: one object, one grid: every class, plain and wrapped"""
    m = M()
    out = []
    for cls in m.FINITE_TF + m.INF_TF:
        for inv in (False, True):
            s, _ = m._r2_single(rng, cls, inv, rng.randrange(12), ends=False, m=rng.choice([1, 3, 4]), style="b_none" if cls in m.B_CLS and rng.random() < 0.5 else None)
            gs = s["grids"][0]
            gs["weights"] = [abs(w) + 0.05 for w in gs["weights"]]
            out.append((f"{'inverse:' if inv else ''}{cls}", s))
    return out


DTYPE_VARIANTS = ("int64-points", "int32-points", "bool-points", "float32-points", "int64-weights", "int32-weights", "bool-weights", "float32-weights",
                  "int64-both", "readonly", "strided", "negstride")


def dtype_scripts(rng):
    """class 2 for the GRID handed to transform_1d_grid, systematically: every transform class, plain and through InverseRTransform, x the
    dtype / container of points and weights.  Parameters are small integers (dyadic for Hyperbolic) so that integer nodes exist in the domain."""
    m = M()
    out = []
    for cls in m.FINITE_TF + m.INF_TF:
        for inv in (False, True):
            ps = m._int_params(cls, rng)
            if cls == "LinearFiniteRTransform":
                ps = [ps[0], ps[0] + rng.choice([1, 5, 7])]        # odd width: the constant Jacobian (rmax - rmin)/2 is not an integer
            trim = rng.random() < 0.5
            spec = m._spec_tf(cls, ps, trim if cls in m.HAS_TRIM else False, inv, False, ["float"] * len(ps))
            spec["ps"] = [float(p) for p in ps]
            try:
                tlo, thi = m._tf_domain(spec)
            except (ValueError, ZeroDivisionError):
                continue
            lo = tlo
            hi = thi if thi < 1e15 else tlo + 6.0
            if cls == "HyperbolicRTransform" and not inv:
                hi = min(hi, 0.5 / ps[1])          # below the pole 1/b
            ints = list(range(int(math.ceil(lo)), int(math.floor(hi)) + 1))
            for var in DTYPE_VARIANTS:
                n = rng.choice([2, 3, 4])
                wts = [round(rng.uniform(0.1, 1.0), 3) for _ in range(n)]
                pts = sorted(round(rng.uniform(lo + 0.05 * (hi - lo), hi - 0.05 * (hi - lo)), 3) for _ in range(n))
                if rng.random() < 0.5:
                    pts = pts[::-1]
                pd = wd = "float64"
                layout = "plain"
                if var in ("int64-points", "int32-points", "int64-both"):
                    if not ints:
                        continue
                    pts = [ints[0], ints[-1]] + [rng.choice(ints) for _ in range(n - 2)] if len(ints) > 1 else [ints[0]] * n
                    rng.shuffle(pts)
                    pd = "int32" if var == "int32-points" else "int64"
                    if var == "int64-both":
                        wts, wd = [rng.choice([1, 2, 3]) for _ in range(n)], "int64"
                elif var == "bool-points":
                    cand = [v for v in (0, 1) if lo <= v <= hi]
                    if not cand:
                        continue
                    pts, pd = [rng.choice(cand) for _ in range(n)], "bool"
                    pts[0] = cand[-1]
                elif var == "float32-points":
                    pts, pd = [min(max(float(np.float32(p)), lo), hi) for p in pts], "float32"
                    pts = [float(np.float32(p)) for p in pts]
                    if any(p < lo or p > hi for p in pts):
                        continue
                elif var in ("int64-weights", "int32-weights"):
                    wts, wd = [rng.choice([-1, 1, 2, 3]) for _ in range(n)], var.split("-")[0]
                elif var == "bool-weights":
                    wts, wd = [True] + [rng.random() < 0.6 for _ in range(n - 1)], "bool"
                elif var == "float32-weights":
                    wts, wd = [float(np.float32(w)) for w in wts], "float32"
                else:
                    layout = var
                wts = wts[:len(pts)]
                g = m._spec_grid([(bool(p) if pd == "bool" else p) for p in pts], wts, (lo, hi), pdtype=pd, wdtype=wd, layout=layout)
                if pd == "bool":
                    g["points"] = [int(p) for p in pts]
                if wd == "bool":
                    g["weights"] = [int(w) for w in wts]
                out.append((f"grid-dtype:{'inverse:' if inv else ''}{cls}:{var}", {"tfs": [dict(spec)], "grids": [g], "calls": [[0, 0]]}))
    return out



# ----------------------------------------------------------------------------------------------------------------
# correspondence
# ----------------------------------------------------------------------------------------------------------------
def _corr_ctor_nd(ctx: Ctx):
    """`OneDGrid.__init__` as generated (op C04.onedgrid_nd): points.ndim 0 / 1 / 2 / 3, the window of the domain check at the
    factors 1.01 and 100 on both sides, domains of large magnitude, reversed and degenerate domains"""
    m = M()
    G = m.OneDGrid()
    rng = ctx.rng
    cases = []
    for shape in ((), (2, 2), (1, 3), (2, 1, 2), (4,)):
        pts = np.arange(1, 1 + int(np.prod(shape)) if shape else 2, dtype=float).reshape(shape) / 10.0
        for dom in (None, (0.0, 1.0)):
            cases.append((pts, np.ones(pts.shape[0] if pts.ndim else 1), dom, f"ndim={pts.ndim}"))
    for lo, hi in ((-1.0, 1.0), (0.0, 3.5), (1024.0, 1025.0), (-65536.0, -65535.5), (2.0, 2.0), (0.0, INF), (-INF, 0.0)):
        for f in (0.0,) + FACT:
            d = 1e-7 * f
            mid = [rng.uniform(max(lo, -1e6), min(hi, 1e6)) for _ in range(rng.choice([0, 1, 3]))]
            if lo > -INF:
                cases.append((np.array([lo - d] + mid), None, (lo, hi), f"window:below:x{f:.3g}"))
            if hi < INF:
                cases.append((np.array(mid + [hi + d]), None, (lo, hi), f"window:above:x{f:.3g}"))
    cases.append((np.array([0.5]), None, (1.0, 0.0), "reversed-domain"))
    cases.append((np.array([]), None, (0.0, 1.0), "empty"))
    cases.append((np.array([0.5, float("nan")]), None, (0.0, 1.0), "nan-node"))
    cases.append((np.array([0.5, 0.7]), np.ones(3), (0.0, 1.0), "length-mismatch"))
    lines = []
    for pts, wts, dom, tag in cases:
        wts = np.ones(pts.shape[0] if pts.ndim else 1) if wts is None else wts
        lines.append(f"C04.onedgrid_nd {pts.ndim} " + (f"1 {f2b(dom[0])} {f2b(dom[1])} " if dom is not None else f"0 {f2b(0.0)} {f2b(0.0)} ")
                     + f"{fvec(pts.ravel())} {fvec(wts)}")
    for (pts, wts, dom, tag), ans in zip(cases, driver_batch(lines)):
        wts = np.ones(pts.shape[0] if pts.ndim else 1) if wts is None else wts
        try:
            h = G(pts, wts, dom)
            itag = "ok"
        except (ValueError, TypeError) as e:
            itag, h = ("value-error" if isinstance(e, ValueError) else "type-error"), None
        if pts.ndim == 0 and itag == "type-error":
            itag = "value-error"          # never reached: points.ndim != 1 comes first
        bad = m._compare(itag, h, ans, rtol=0.0) if (pts.ndim == 1 or itag != "ok") else f"implementation accepted a {pts.ndim}-d array of points"
        ctx.count(["OneDGrid-generated", pts.ravel().tolist(), None if dom is None else list(dom), tag], nontrivial=True, tag="r3:constructor:" + tag.split(":")[0] + ":" + itag)
        if bad:
            ctx.fail("corr", "OneDGrid.__init__", f"OneDGrid(points of shape {pts.shape} {pts.ravel().tolist()}, weights[{len(wts)}], {dom}) [{tag}]: {bad}",
                     witness={"points": pts.ravel().tolist(), "weights": wts.tolist(), "domain": dom, "ndim": pts.ndim, "shape": list(pts.shape), "disagreement": bad})


def _corr_chains(ctx: Ctx, chains):
    """every stage of every chain on the implementation and on the model (the model gets the implementation's intermediate grid)"""
    m = M()
    R, G = m.rt(), m.OneDGrid()
    build_tf, build_grid = _ns()["c04_build_tf"], _ns()["c04_build_grid"]
    stages, lines = [], []
    for cat, chain in chains:
        with np.errstate(all="ignore"):
            h = build_grid(G, chain["grid"])
            for k, spec in enumerate(chain["tfs"]):
                T = build_tf(R, spec)
                lines.append(m._line_raw(spec["inv"], spec["cls"], [float(p) for p in spec["ps"]], spec["trim"], T.domain, h.domain,
                                         [float(v) for v in h.points], [float(v) for v in h.weights]))
                itag, h2 = m._impl(T, h)
                cond = m._conditioning(T, h, T._tfm if spec["inv"] else None) if itag == "ok" else None
                stages.append((cat, chain, k, spec, h, itag, h2, cond))
                if itag != "ok":
                    break
                h = h2
    for (cat, chain, k, spec, h, itag, h2, cond), ans in zip(stages, driver_batch(lines)):
        bad = m._compare(itag, h2, ans, cond=cond)
        stage_script = {"tfs": [spec], "grids": [m._spec_grid(h.points, h.weights, m._dom(h.domain))], "calls": [[0, 0]]}
        ctx.count(["chain", cat, k, spec["cls"], spec["ps"], [float(v) for v in h.points[:6]]], nontrivial=True,
                  tag=f"r3:chain:stage{k}:" + ("inverse:" if spec["inv"] else "") + spec["cls"] + (":" + itag if itag != "ok" else ""))
        if bad:
            ctx.fail("corr", f"transform_1d_grid:{spec['cls']}", f"transform_1d_grid [{cat}] stage {k} of the chain {[s['cls'] for s in chain['tfs']]}: {bad}",
                     witness={"case": ["chain", cat, k], "script": stage_script, "chain": chain, "points": h.points, "weights": h.weights,
                              "domain": m._dom(h.domain), "disagreement": bad})


def corr_r3(ctx: Ctx):
    m = M()
    rng = ctx.rng
    part = m.part
    strict, plain = trim_scripts(rng)
    allb, _ = b_scripts(rng)
    mag, _, _ = magnitude_scripts(rng)
    rest = slack_scripts(rng) + plain + guard_scripts(rng) + allb + mag
    chains = chain_cases(rng, ctx.n(12, 120))
    dts = dtype_scripts(rng)
    with part(ctx, "r3-constructor", "corr"):
        _corr_ctor_nd(ctx)
    with part(ctx, "r3-trim-strict", "corr"):
        m._corr_scripts(ctx, strict, strict=True, label="r3")
    with part(ctx, "r3-thresholds-magnitudes", "corr"):
        m._corr_scripts(ctx, rest, label="r3")
    with part(ctx, "r3-chains", "corr"):
        _corr_chains(ctx, chains)
    with part(ctx, "r3-grid-dtype", "corr"):
        m._corr_scripts(ctx, dts, label="r3")


# ----------------------------------------------------------------------------------------------------------------
# oracle
# ----------------------------------------------------------------------------------------------------------------
def _report(ctx, cat, spec, bad, call, payload, sign_ok=False):
    m = M()
    new = 0
    for kind, msg in bad:
        if kind == "sign":
            key = m.FINDING_KEY
        elif kind == "handout-parent-changed:aliased" and spec["cls"] == "IdentityRTransform":
            m._candidate(ctx, ALIAS_KEY, f"[{cat}] {msg}", witness={"category": cat, "payload": payload, "kind": kind}, snippet=_snippet(call, payload, kind))
            continue
        else:
            key = f"rtransform.transform_1d_grid:{'Inverse:' if spec.get('inv') else ''}{spec['cls']}:{kind}"
        ctx.fail("oracle", key, f"[{cat}] {msg}", witness={"category": cat, "payload": payload, "kind": kind}, snippet=_snippet(call, payload, kind))
        new += key != m.FINDING_KEY
    return new


def _window(ctx, scripts):
    m = M()
    hp = m._hp()
    ns = _ns()
    new = 0
    for cat, s in scripts:
        if len(s["calls"]) != 1 or len(s["tfs"]) != 1:
            continue
        with m.part(ctx, "r3-window:" + cat):
            try:
                bad = ns["c04_r3_window"](s, m.rt(), m.OneDGrid(), hp.HP, hp.hp_call, hp.mpmath)
            except ValueError:
                continue
            ctx.tagc("oracle:r3:slack-window")
            new += _report(ctx, cat, s["tfs"][0], bad, "c04_r3_window(payload, rt, OneDGrid, HP, hp_call, mpmath)", s)
    return new


def _chains(ctx, chains):
    m = M()
    hp = m._hp()
    for cat, chain in chains:
        with m.part(ctx, "r3-chain:" + cat):
            bad = _ns()["c04_r3_chain"](chain, m.rt(), m.OneDGrid(), hp.HP, hp.hp_call, hp.mpmath)
            ctx.tagc("oracle:r3:" + cat.split(":")[0])
            setup = [b for b in bad if b[0] == "chain-setup"]
            if setup:
                ctx.tagc("oracle:r3:chain-does-not-fit")
                if __import__("os").environ.get("C04_R3_DEBUG"):
                    print("DOES-NOT-FIT", cat, setup[0][1][:400])
                continue
            _report(ctx, cat, chain["tfs"][-1], bad, "c04_r3_chain(payload, rt, OneDGrid, HP, hp_call, mpmath)", chain)


def _dtype(ctx, scripts):
    m = M()
    for cat, sc in scripts:
        if len(sc["calls"]) != 1 or len(sc["tfs"]) != 1:
            continue
        with m.part(ctx, "r3-dtype:" + cat):
            try:
                bad = _ns()["c04_r3_dtype"](sc, m.rt(), m.OneDGrid())
            except ValueError:
                ctx.tagc("oracle:r3:grid-dtype-inadmissible")
                continue
            ctx.tagc("oracle:r3:grid-dtype")
            _report(ctx, cat, sc["tfs"][0], bad[:1], "c04_r3_dtype(payload, rt, OneDGrid)", sc)


def oracle_r3(ctx: Ctx, budget: str):
    """every block is an independent part (c04.part): an exception ends that block only"""
    m = M()
    rng = ctx.rng
    large = budget == "large" or ctx.thorough
    R, G = m.rt(), m.OneDGrid()
    ns = _ns()
    part = m.part

    def pick(lst, k):
        return lst if large or len(lst) <= k else rng.sample(lst, k)
    # the generators first, in a fixed order (they only draw from rng; a part that fails later does not shift the others)
    sl = slack_scripts(rng)
    strict, plain = trim_scripts(rng)
    _, judged_b = b_scripts(rng)
    # not judged against the 40-digit map: InverseRTransform(Knowles) one ulp above rmin (the inverse forms 1 - exp(-y), y = 7e-17:
    # the image of that end is off by 4e-9; the correspondence still compares it with the model)
    # nor Knowles with a domain end within 1e-9 of x = 1 (1 - 2^-k (x + 1)^k cancels: the image of that end has 8 digits)
    guards = [g for g in guard_scripts(rng) if not g[0].startswith(("guard-threshold:inverse:KnowlesRTransform:ulp-inside", "guard-threshold:KnowlesRTransform:ulp-inside",
                                                                       "guard-threshold:KnowlesRTransform:1e-9-inside"))]
    thr = pick(strict + plain, 30) + pick(guards, 30) + judged_b + pick(sl, 12)
    win2 = pick(strict + plain, 40)
    mag, homog, transl = magnitude_scripts(rng)
    mag_o = pick(mag, 30)
    c9 = class9_scripts(rng)
    chains = chain_cases(rng, 30 if large else 8)
    dts = dtype_scripts(rng)
    dts_o = dts if large else [d for d in dts if d[0].endswith("-points") or d[0].endswith("-both")] + \
        pick([d for d in dts if not (d[0].endswith("-points") or d[0].endswith("-both"))], 40)
    # class 7: thresholds (the window iff; the property on every call; the constructor alone)
    with part(ctx, "r3-slack-window"):
        _window(ctx, sl)
    with part(ctx, "r3-thresholds"):
        m._oracle_scripts(ctx, thr, label="r3", max_nodes=12)
    with part(ctx, "r3-trim-window"):
        _window(ctx, win2)
    with part(ctx, "r3-constructor-window"):
        for lo, hi in ((1024.0, 1025.0), (-65536.0, -65535.5)):
            for f in FACT:
                m._oracle_ctor(ctx, [lo - 1e-7 * f, lo + 0.25], [1.0, 1.0], (lo, hi))
                m._oracle_ctor(ctx, [lo + 0.25, hi + 1e-7 * f], [1.0, 1.0], (lo, hi))
    # class 8: magnitudes
    with part(ctx, "r3-magnitudes"):
        m._oracle_scripts(ctx, mag_o, label="r3", max_nodes=12)
    scales = [2.0 ** -996, 2.0 ** -166, 2.0 ** -40, 2.0 ** 40]
    for cat, s in homog:
        with part(ctx, "r3-homogeneity:" + cat):
            try:
                bad = ns["c04_r3_homogeneity"](s, scales, R, G)
            except (ValueError, ZeroDivisionError):
                continue
            ctx.tagc("oracle:r3:homogeneity", len(scales))
            _report(ctx, cat, s["tfs"][0], bad, f"c04_r3_homogeneity(payload, {scales!r}, rt, OneDGrid)", s)
    for cat, s, shift in transl:
        with part(ctx, "r3-translation:" + cat):
            try:
                bad = ns["c04_r3_translation"](s, shift, R, G)
            except (ValueError, ZeroDivisionError):
                continue
            ctx.tagc("oracle:r3:translation")
            _report(ctx, cat, s["tfs"][0], bad, f"c04_r3_translation(payload, {shift!r}, rt, OneDGrid)", s)
    # classes 9 / 10: objects handed out, methods in either order, the option alternating on one object (three independent references)
    for cat, s in c9:
        for nm, fn, call in (("handout", lambda: ns["c04_r3_handout"](s, R, G), "c04_r3_handout(payload, rt, OneDGrid)"),
                             ("methods-0", lambda: ns["c04_r3_methods"](s, 0, R, G), "c04_r3_methods(payload, 0, rt, OneDGrid)"),
                             ("methods-1", lambda: ns["c04_r3_methods"](s, 1, R, G), "c04_r3_methods(payload, 1, rt, OneDGrid)")):
            with part(ctx, f"r3-{nm}:{cat}"):
                try:
                    bad = fn()
                except (ValueError, ZeroDivisionError):
                    ctx.tagc("oracle:r3:class9-inadmissible")
                    continue
                ctx.tagc("oracle:r3:handout+methods")
                for kind in sorted(set(b[0] for b in bad)):
                    _report(ctx, "class9:" + cat, s["tfs"][0], [b for b in bad if b[0] == kind][:1], call, s)
    # classes 10 / 12: compositions
    with part(ctx, "r3-chains"):
        _chains(ctx, chains)
    # class 2 for the grid argument: dtype / container of points and weights, every class, plain and wrapped
    with part(ctx, "r3-grid-dtype"):
        _dtype(ctx, dts)
    with part(ctx, "r3-grid-dtype-property"):
        m._oracle_scripts(ctx, dts_o, label="r3", max_nodes=6)


def oracle_at_r3(ctx: Ctx, failure):
    """a correspondence disagreement on a round-3 case, judged by the round-3 references (the script-level property was
    already evaluated by c04.oracle_at)"""
    m = M()
    w = m._unjson(failure.witness or {})
    if not isinstance(w, dict):
        return
    if isinstance(w.get("chain"), dict):
        _chains(ctx, [("at-disagreement", w["chain"])])
    s = w.get("script")
    if isinstance(s, dict) and len(s.get("calls", [])) >= 1 and len(s.get("tfs", [])) == 1:
        one = dict(s, calls=[s["calls"][-1]], grids=s["grids"])
        if one["calls"][0][0] != "edit":
            one = {"tfs": s["tfs"], "grids": [s["grids"][one["calls"][0][1]]], "calls": [[0, 0]]}
            _window(ctx, [("at-disagreement", one)])
            _dtype(ctx, [("at-disagreement", one)])
    if failure.key == "OneDGrid.__init__" and w.get("ndim", 1) != 1 and "shape" in w:
        shape, dom = tuple(w["shape"]), (None if w.get("domain") is None else tuple(w["domain"]))
        try:
            m.OneDGrid()(np.array(w["points"], dtype=float).reshape(shape), np.array(w["weights"], dtype=float), dom)
            accepted = True
        except (ValueError, TypeError):
            accepted = False
        ctx.tagc("oracle:at-disagreement:constructor-ndim")
        if accepted:
            ctx.fail("oracle", "basegrid.OneDGrid:ndim", f"OneDGrid(points of shape {shape}, {len(w['weights'])} weights, {dom}) is accepted: a one-dimensional grid with a "
                     f"{len(shape)}-dimensional array of points", witness={"shape": list(shape), "points": w["points"], "weights": w["weights"], "domain": w.get("domain")},
                     snippet=("import numpy as np\nfrom grid.basegrid import OneDGrid\n"
                              f"pts = np.array({w['points']!r}, dtype=float).reshape({shape!r})\n"
                              f"try:\n    OneDGrid(pts, np.array({w['weights']!r}, dtype=float), {dom!r}); ok = True\nexcept (ValueError, TypeError):\n    ok = False\n"
                              "assert not ok, f'OneDGrid accepted points of shape {pts.shape}'\n"))

"""C04, round 2 (part B): ties for the statements on extended values (Props/C04/Extended.lean, Lemmas/XReal.lean).

* the concrete instances the XReal theorems speak about (rules on (0, inf), images at +inf / 1e16, the nan domain) are
  replayed on the implementation: the domain the theorem states must be the domain the code returns;
* the reading of the IEEE special values that `XReal` encodes (x/0, inf-inf, 0*inf, inf/inf, comparisons with nan,
  log 0, exp(-inf), np.sort with nan/inf) is compared with what NumPy actually does on float64.
"""
import importlib
import math

import numpy as np

from ..common import Ctx

INF, NAN = float("inf"), float("nan")


def _same(a, b):
    return (a != a and b != b) or a == b


def corr_ext(ctx: Ctx):
    rt = importlib.import_module("grid.rtransform")
    G = importlib.import_module("grid.basegrid").OneDGrid
    rng = ctx.rng
    half = lambda: G(np.array([0.0, 1.0]), np.array([1.0, 1.0]), (0, np.inf))          # noqa: E731  halfLine2 of the Lean file
    cases = []
    # theorem hyperbolic_accepts_halfLine2 / hyperbolic_domain_nan
    cases.append(("hyperbolic_accepts_halfLine2", rt.HyperbolicRTransform(1.0, 1 / 20), half(), (0.0, NAN)))
    for _ in range(ctx.n(6, 60)):
        a, b = round(rng.uniform(0.1, 5.0), 3), round(rng.uniform(0.01, 0.9), 3)
        cases.append(("hyperbolic_domain_nan", rt.HyperbolicRTransform(a, b), half(), (0.0, NAN)))
        rmin = rng.choice([0.0, 0.1, round(rng.uniform(0, 2), 3)])
        rmax = rmin + round(rng.uniform(0.5, 9.0), 3)
        bb = rng.choice([1.0, 4.0, round(rng.uniform(0.5, 30.0), 2)])
        cases.append(("linearInfinite_halfline", rt.LinearInfiniteRTransform(rmin, rmax, b=bb), half(), (rmin, INF)))
        R = rng.choice([0.5, 1.5, round(rng.uniform(0.1, 5.0), 3)])
        pts = np.array(sorted([-1.0, round(rng.uniform(-0.9, 0.9), 3), 1.0]))
        for trim in (True, False):
            top = 1e16 if trim else INF
            g = G(pts, np.array([0.5, 1.0, 0.5]), (-1, 1))
            cases.append(("becke_domain", rt.BeckeRTransform(rmin, R, trim_inf=trim), g, (rmin, top)))
            cases.append(("multiExp_domain", rt.MultiExpRTransform(rmin, R, trim_inf=trim), g, (rmin, top)))
    cases.append(("identity_halfline", rt.IdentityRTransform(), half(), (0.0, INF)))
    # theorem inverse_becke_domain_nan (listed finding …InverseRTransform:domain-nan): a grid on (rmin, inf) through InverseRTransform(Becke)
    for rmin, R in ((0.1, 1.5), (0.0, 0.7)):
        T = rt.BeckeRTransform(rmin, R, trim_inf=False)
        g = G(np.array([rmin + 0.5, rmin + 2.0]), np.array([1.0, 1.0]), (rmin, np.inf))
        cases.append(("inverse_becke_domain_nan", rt.InverseRTransform(T), g, (-1.0, NAN)))
    for name, tf, g, want in cases:
        with np.errstate(all="ignore"):
            try:
                h = tf.transform_1d_grid(g)
                got = (float(h.domain[0]), float(h.domain[1]))
            except Exception as e:  # noqa: BLE001
                got = type(e).__name__
        ctx.count(["xreal-witness", name, repr(tf.__dict__), want], nontrivial=True, tag=f"xreal-witness:{name}")
        if not (isinstance(got, tuple) and _same(got[0], want[0]) and _same(got[1], want[1])):
            ctx.fail("corr", f"xreal:{name}", f"theorem GridVerif.C04.Ext.{name} states the new domain {want} for {type(tf).__name__}"
                     f"{ {k: v for k, v in tf.__dict__.items() if not k.startswith('_d') and not k.startswith('_c')} }; the implementation returns {got}",
                     witness={"theorem": name, "domain": got if isinstance(got, tuple) else str(got)})
        elif name in ("becke_domain",) and isinstance(got, tuple):
            # the node x = 1 is mapped to the upper end of the new domain (inf, or 1e16 when trimming)
            if not _same(float(h.points[-1]), want[1]):
                ctx.fail("corr", f"xreal:{name}:node", f"{name}: node x = 1 mapped to {float(h.points[-1])!r}, expected {want[1]!r}")
    # the reading of IEEE special values encoded in XReal (Lemmas/XReal.lean), against NumPy on float64
    f = np.float64
    with np.errstate(all="ignore"):
        table = [
            ("x/0 (x>0)", f(2.5) / f(0.0), INF), ("x/0 (x<0)", f(-2.5) / f(0.0), -INF), ("0/0", f(0.0) / f(0.0), NAN),
            ("x/inf", f(3.0) / f(INF), 0.0), ("x/-inf", f(3.0) / f(-INF), 0.0),       # one unsigned zero in XReal
            ("inf/x (x>=0)", f(INF) / f(2.0), INF), ("inf/x (x<0)", f(INF) / f(-2.0), -INF), ("inf/0", f(INF) / f(0.0), INF),
            ("inf/inf", f(INF) / f(INF), NAN), ("inf/-inf", f(INF) / f(-INF), NAN),
            ("inf-inf", f(INF) - f(INF), NAN), ("inf+x", f(INF) + f(-1e300), INF), ("x-inf", f(1.0) - f(INF), -INF),
            ("0*inf", f(0.0) * f(INF), NAN), ("x*inf (x>0)", f(2.0) * f(INF), INF), ("x*inf (x<0)", f(-2.0) * f(INF), -INF),
            ("x*-inf (x<0)", f(-2.0) * f(-INF), INF), ("inf*inf", f(INF) * f(INF), INF), ("inf*-inf", f(INF) * f(-INF), -INF),
            ("log 0", np.log(f(0.0)), -INF), ("log -1", np.log(f(-1.0)), NAN), ("log inf", np.log(f(INF)), INF),
            ("exp -inf", np.exp(f(-INF)), 0.0), ("exp inf", np.exp(f(INF)), INF),
            ("inf**2.5", f(INF) ** f(2.5), INF), ("inf**-1", f(INF) ** f(-1.0), 0.0), ("inf**0", f(INF) ** f(0.0), 1.0),
            ("0**-1", np.power(f(0.0), f(-1.0)), INF), ("(-8)**(1/3)", np.power(f(-8.0), f(1 / 3)), NAN),
            ("(-2)**3", np.power(f(-2.0), f(3.0)), -8.0), ("sqrt -1", np.sqrt(f(-1.0)), NAN), ("abs -inf", np.abs(f(-INF)), INF),
        ]
        cmp_table = [
            ("nan<=x", bool(f(NAN) <= f(1.0)), False), ("x<=nan", bool(f(1.0) <= f(NAN)), False), ("nan<nan", bool(f(NAN) < f(NAN)), False),
            ("nan==nan", bool(f(NAN) == f(NAN)), False), ("x<inf", bool(f(1e308) < f(INF)), True), ("inf<=inf", bool(f(INF) <= f(INF)), True),
            ("inf==inf", bool(f(INF) == f(INF)), True), ("-inf<x", bool(f(-INF) < f(-1e308)), True), ("inf<x", bool(f(INF) < f(1.0)), False),
        ]
        sort_table = [("sort [inf, x]", np.sort(np.array([INF, 2.0])).tolist(), [2.0, INF]),
                      ("sort [x, nan]", np.sort(np.array([2.0, NAN])).tolist(), [2.0, NAN]),
                      ("sort [nan, x]", np.sort(np.array([NAN, 2.0])).tolist(), [2.0, NAN]),
                      ("sort [1e16, x]", np.sort(np.array([1e16, 0.1])).tolist(), [0.1, 1e16])]
    for name, got, want in table:
        ctx.count(["xreal-ieee", name], nontrivial=True, tag="xreal-ieee")
        if not _same(float(got), want):
            ctx.fail("corr", "xreal:ieee-reading", f"XReal encodes {name} = {want}; NumPy float64 gives {float(got)!r}")
    for name, got, want in cmp_table:
        ctx.count(["xreal-ieee", name], nontrivial=True, tag="xreal-ieee")
        if got != want:
            ctx.fail("corr", "xreal:ieee-reading", f"XReal encodes {name} = {want}; NumPy float64 gives {got}")
    for name, got, want in sort_table:
        ctx.count(["xreal-ieee", name], nontrivial=True, tag="xreal-ieee")
        if not all(_same(a, b) for a, b in zip(got, want)):
            ctx.fail("corr", "xreal:ieee-reading", f"model sort2 gives {name} = {want}; np.sort gives {got}")


def oracle_ext(ctx: Ctx, budget: str):
    """Nothing beyond the main oracle: its section 1 evaluates the domain clause on every (half-infinite rule, transform)
    pair and reports the `(0, nan)` domain under the listed key."""
    return None

"""C12, round 3: constructions in a *fresh interpreter* (module caches empty, nothing imported before),
objects handed out and edited by the caller, accessors in either order, and every consumer route of the
resolution rule (AtomGrid(degrees=/sizes=), AtomGrid.from_pruned / from_preset with every method,
MolGrid.from_size / from_pruned / from_preset).

A *scenario* is a list of steps (plain JSON); `run_scenarios` executes each scenario in its own Python
process (`CHILD`, self-contained: it is also the replay snippet) and returns what every step observed.
The same executor runs in-process (`exec_steps`) for histories that continue the state of this process.
"""
import hashlib
import json
import os
import subprocess
import sys

import numpy as np

from ..common import SRC

METHODS = ["lebedev", "spherical", "maxdet", "ahrens_beylkin"]
PREFIX = {"lebedev": "LEBEDEV", "spherical": "SPHERICAL", "maxdet": "MAX_DET", "ahrens_beylkin": "AHRENS_BEYLKIN"}
DIRS = {"lebedev": "lebedev", "spherical": "spherical_design", "maxdet": "maxdet", "ahrens_beylkin": "ahrens_beylkin"}
CACHE_NAMES = ["LEBEDEV_CACHE", "SPHERICAL_CACHE", "MAX_DET_CACHE", "AHRENS_BEYLKIN_CACHE"]
LIST_PRESETS = ["sg_0", "sg_2", "sg_3", "g1", "g2", "g3", "g4", "g5", "g6", "g7"]

# ------------------------------------------------------------------------------------------------
# the step executor (source text: runs in the child process and, via exec, in this one)
# ------------------------------------------------------------------------------------------------
EXECUTOR = r'''
import hashlib, json, sys, warnings
import numpy as np

_CALL = compile("_r = _f(*_a, **_k)", "<c12-direct-call>", "exec")


def _call(f, *a, **k):
    """Call f from a frame whose file name is '<c12-direct-call>'; -> (result | exception, warnings)."""
    ns = {"_f": f, "_a": a, "_k": k}
    with warnings.catch_warnings(record=True) as rec:
        warnings.simplefilter("always")
        try:
            exec(_CALL, ns)
            out = ns["_r"]
        except Exception as e:  # noqa: BLE001
            out = e
    ws = [[w.category.__name__, str(w.message), w.filename == "<c12-direct-call>"] for w in rec]
    return out, ws


def _sha(a):
    return hashlib.sha1(np.ascontiguousarray(a).tobytes()).hexdigest()


def _err(e):
    return {"error": type(e).__name__, "msg": str(e)[:160]}


def _ang(g, ws, full):
    out = {"degree": int(g.degree), "size": int(g.size), "method": g.method, "npoints": int(len(g.points)),
           "nweights": int(len(g.weights)), "points": _sha(g.points), "weights_sha": _sha(g.weights), "warnings": ws}
    if full:
        out["weights"] = np.ascontiguousarray(g.weights, dtype=float).tobytes().hex()
    return out


def _atom(g):
    return {"degrees": [int(x) for x in g.degrees], "shells": [int(g.indices[i + 1] - g.indices[i]) for i in range(len(g.degrees))],
            "size": int(g.size)}


def _rgrid(pts):
    from grid.basegrid import OneDGrid
    pts = np.asarray(pts, dtype=float)
    return OneDGrid(pts, np.ones(len(pts)), (0, np.inf))


_DT = {"float64": np.float64, "float32": np.float32, "float16": np.float16, "longdouble": np.longdouble, "int64": np.int64, "int32": np.int32}


def _rgrid_of(st, shared):
    """The radial grid of a step: the listed points in the listed order (dtype `pdtype`), a grid the library itself
    produces (`rgrid`: MultiExp transform of Gauss-Legendre = descending radii; a reversed / ascending rule), or an
    object made by an earlier step (`rgrid_id`)."""
    from grid.basegrid import OneDGrid
    rid = st.get("rgrid_id")
    if rid is not None and rid in shared:
        return shared[rid]
    spec = st.get("rgrid")
    if spec is None:
        pts = np.asarray(st["rpoints"], dtype=_DT[st.get("pdtype", "float64")])
        rg = OneDGrid(pts, np.ones(len(pts)), (0, np.inf))
    else:
        from grid.onedgrid import GaussLegendre, GaussLaguerre
        from grid.rtransform import MultiExpRTransform, BeckeRTransform
        if spec["kind"] == "multiexp":
            rg = MultiExpRTransform(spec["rmin"], spec["R"]).transform_1d_grid(GaussLegendre(spec["n"]))
        elif spec["kind"] == "becke":
            rg = BeckeRTransform(spec["rmin"], spec["R"]).transform_1d_grid(GaussLegendre(spec["n"]))
        elif spec["kind"] == "laguerre-reversed":
            g = GaussLaguerre(spec["n"])
            rg = OneDGrid(g.points[::-1], g.weights[::-1], g.domain)
        else:
            raise SystemExit("unknown rgrid " + str(spec))
    if rid is not None:
        shared[rid] = rg
    return rg


def exec_steps(steps):
    import grid.angular as ang
    A = ang.AngularGrid
    res, last, lastarr = [], None, None
    shared = {}
    for st in steps:
        op = st["op"]
        r = None
        if op == "init":
            kw = {}
            if "method" in st:
                kw["method"] = st["method"]
            if "cache" in st:
                kw["cache"] = st["cache"]
            if "size" in st:
                kw["size"] = st["size"]
            args = []
            if "degree" in st:
                if st.get("positional"):
                    args.append(st["degree"])
                else:
                    kw["degree"] = st["degree"]
            g, ws = _call(A, *args, **kw)
            if isinstance(g, Exception):
                r = _err(g)
                r["warnings"] = ws
            else:
                last = g
                r = _ang(g, ws, g.size <= st.get("full_below", 1600))
        elif op == "gds":
            out, ws = _call(A._get_degree_and_size, st["degree"], st["size"], st["method"])
            r = _err(out) if isinstance(out, Exception) else {"degree": int(out[0]), "size": int(out[1])}
            r["warnings"] = ws
        elif op == "load":
            out, ws = _call(A._load_precomputed_angular_grid, st["degree"], st["size"], st["method"])
            r = _err(out) if isinstance(out, Exception) else {"points": _sha(out[0]), "npoints": len(out[0]),
                                                              "weights": np.ascontiguousarray(out[1], dtype=float).tobytes().hex()}
        elif op == "convert":
            cont = {"array": np.array, "list": list, "tuple": tuple}[st.get("container", "array")]
            out, ws = _call(A.convert_angular_sizes_to_degrees, cont(st["sizes"]), st["method"])
            if isinstance(out, Exception):
                r = _err(out)
            else:
                lastarr = out
                r = {"degrees": [int(x) for x in out]}
        elif op == "edit":           # the caller edits what it was handed, in place
            if st["what"] == "grid" and last is not None:
                last.points[...] = 7.0
                last.weights[...] = -1.0
                r = {"edited": "grid"}
            elif st["what"] == "converted" and lastarr is not None:
                lastarr[...] = -5
                r = {"edited": "converted"}
            else:
                r = {"edited": None}
        elif op == "attrs" and last is None:
            r = {"values": None}
        elif op == "attrs":          # accessors of the last AngularGrid in the given order
            r = {"values": [[a, (len(getattr(last, a)) if a in ("points", "weights") else getattr(last, a))] for a in st["order"]]}
            r["values"] = [[a, (int(v) if isinstance(v, (int, np.integer)) else v)] for a, v in r["values"]]
        elif op == "rgrid_edit":     # the caller overwrites the points of a radial grid object it keeps using
            rg = shared[st["rgrid_id"]]
            rg.points[...] = np.asarray(st["rpoints"], dtype=float)
            r = {"edited": "rgrid"}
        elif op in ("atomgrid", "pruned", "preset"):
            from grid.atomgrid import AtomGrid
            rg = _rgrid_of(st, shared)
            kw = {"method": st["method"]} if "method" in st else {}
            if op == "atomgrid":
                cont = {"array": np.array, "list": list}[st.get("container", "list")]
                key = "degrees" if st["kind"] == "deg" else "sizes"
                out, ws = _call(AtomGrid, rg, **{key: cont(st["seq"])}, **kw)
            elif op == "pruned":
                key = "d_sectors" if st["kind"] == "deg" else "s_sectors"
                rs = st["r_sectors"]
                if "bdtype" in st:      # the boundaries as an array of a given dtype (one object for both calls)
                    rs = np.asarray(rs, dtype=_DT[st["bdtype"]])
                    rs0 = rs.copy()
                radius = _DT[st["rdtype"]](st["radius"]) if "rdtype" in st else st["radius"]
                out, ws = _call(AtomGrid.from_pruned, rg, radius, r_sectors=rs, **{key: st["seq"]}, **kw)
            else:
                out, ws = _call(AtomGrid.from_preset, atnum=st["atnum"], preset=st["preset"], rgrid=rg, **kw)
            r = _err(out) if isinstance(out, Exception) else _atom(out)
            r["rpoints"] = [float(x) for x in rg.points]
            if op == "pruned" and st.get("twice"):
                out2, _ = _call(AtomGrid.from_pruned, rg, radius, r_sectors=rs, **{key: st["seq"]}, **kw)
                r["second"] = _err(out2) if isinstance(out2, Exception) else _atom(out2)
                if "bdtype" in st:
                    r["bounds_unchanged"] = bool(np.array_equal(rs, rs0))
        elif op in ("atomgrid2", "pruned2"):
            from grid.atomgrid import AtomGrid
            rg = _rgrid(st["rpoints"])
            kw = {"method": st["method"]} if "method" in st else {}
            cont = {"array": np.array, "list": list}[st.get("container", "list")]
            conv = lambda v: None if v is None else cont(v)
            if op == "atomgrid2":
                args = [rg]
                if "degrees" in st:
                    if st.get("positional"):
                        args.append(conv(st["degrees"]))
                    else:
                        kw["degrees"] = conv(st["degrees"])
                if "sizes" in st:
                    kw["sizes"] = conv(st["sizes"])
                out, ws = _call(AtomGrid, *args, **kw)
            else:
                if "d_sectors" in st:
                    kw["d_sectors"] = conv(st["d_sectors"])
                if "s_sectors" in st:
                    kw["s_sectors"] = conv(st["s_sectors"])
                out, ws = _call(AtomGrid.from_pruned, rg, st["radius"], r_sectors=st["r_sectors"], **kw)
            r = _err(out) if isinstance(out, Exception) else _atom(out)
        elif op in ("molsize", "molpruned", "molpreset"):
            from grid.molgrid import MolGrid
            atnums = np.array(st["atnums"])
            atcoords = np.array(st["atcoords"], dtype=float)
            rg = _rgrid_of(st, shared)
            if op == "molsize":
                out, ws = _call(MolGrid.from_size, atnums, atcoords, st["size"], rgrid=rg, store=True)
            elif op == "molpruned":
                key = "d_sectors" if st["kind"] == "deg" else "s_sectors"
                out, ws = _call(MolGrid.from_pruned, atnums, atcoords, st["radius"], st["r_sectors"], rgrid=rg, store=True, **{key: st["seq"]})
            else:
                out, ws = _call(MolGrid.from_preset, atnums, atcoords, st["preset"], rgrid=rg, store=True)
            r = _err(out) if isinstance(out, Exception) else {"atoms": [_atom(g) for g in out.atgrids], "size": int(out.size)}
            r["rpoints"] = [float(x) for x in rg.points]
        else:
            raise SystemExit("unknown step " + op)
        r["caches"] = {n: sorted(int(k) for k in getattr(ang, n)) for n in
                       ("LEBEDEV_CACHE", "SPHERICAL_CACHE", "MAX_DET_CACHE", "AHRENS_BEYLKIN_CACHE")}
        res.append(r)
    return res
'''

CHILD = EXECUTOR + r'''
if __name__ == "__main__":
    print("@@" + json.dumps(exec_steps(json.loads(sys.stdin.read()))))
'''

_NS = {}


def exec_steps(steps):
    """Run the steps in this process (continuing its module state)."""
    if not _NS:
        exec(compile(EXECUTOR, "<c12-executor>", "exec"), _NS)
    return _NS["exec_steps"](json.loads(json.dumps(steps)))


def run_scenarios(scenarios, jobs=8, timeout=600):
    """Each scenario in its own fresh interpreter; -> list of step results (or {'crash': …})."""
    env = dict(os.environ, PYTHONPATH=str(SRC.parent), OMP_NUM_THREADS="1", OPENBLAS_NUM_THREADS="1", PYTHONDONTWRITEBYTECODE="1")
    out = [None] * len(scenarios)
    pending = list(enumerate(scenarios))
    running = []
    while pending or running:
        while pending and len(running) < jobs:
            i, sc = pending.pop(0)
            p = subprocess.Popen([sys.executable, "-W", "ignore", "-c", CHILD], stdin=subprocess.PIPE, stdout=subprocess.PIPE,
                                 stderr=subprocess.PIPE, env=env, cwd=str(SRC.parent), text=True)
            p.stdin.write(json.dumps(sc))
            p.stdin.close()
            running.append((i, p))
        i, p = running.pop(0)
        try:
            so = p.stdout.read()
            se = p.stderr.read()
            p.wait(timeout=timeout)
        except subprocess.TimeoutExpired:
            p.kill()
            so, se = "", "timeout"
        line = next((l for l in so.splitlines() if l.startswith("@@")), None)
        out[i] = json.loads(line[2:]) if line else [{"crash": (se or so)[-600:]}]
    return out


def snippet(steps, check):
    """Self-contained replay: the executor, the steps, and an assertion on the observations."""
    return EXECUTOR + f"\nsteps = json.loads({json.dumps(steps)!r})\nobs = exec_steps(steps)\n" + check


# ------------------------------------------------------------------------------------------------
# references that do not use the implementation's rule: brute force over the tables, directory listing
# ------------------------------------------------------------------------------------------------
def want(ang, m, kind, n):
    """The supported (degree, size) with the least degree (size) not below the request, or None."""
    npts = getattr(ang, PREFIX[m] + "_NPOINTS")
    cands = [(int(d), int(sz)) for sz, d in npts.items() if (d if kind == "deg" else sz) >= n]
    return min(cands, key=lambda p: p[0] if kind == "deg" else p[1]) if cands else None


_FILE = {}


def file_arrays(m, d, sz):
    """(points, weights as stored) of the one data file with this degree and size (by listing the directory)."""
    if (m, d, sz) not in _FILE:
        fs = [f for f in (SRC / "data" / DIRS[m]).glob("*.npz") if f.name.endswith(f"_{d}_{sz}.npz")]
        if len(fs) != 1:
            _FILE[(m, d, sz)] = None
        else:
            with np.load(fs[0]) as z:
                _FILE[(m, d, sz)] = (np.array(z["points"]), np.array(z["weights"]))
    return _FILE[(m, d, sz)]


def sha(a):
    return hashlib.sha1(np.ascontiguousarray(a).tobytes()).hexdigest()


def reference_weights(m, stored, n):
    """Weights of the built grid up to rounding: one per point, the stored ones (a single one for all points),
    times 4 pi for the two methods whose files are normalised to 1."""
    w = np.full(n, float(stored[0])) if len(stored) == 1 else np.asarray(stored, dtype=float)
    return w * (4 * np.pi) if m in ("lebedev", "spherical") else w


def preset_data(preset, atnum):
    with np.load(SRC / "data" / "prune_grid" / f"prune_grid_{preset}.npz") as z:
        return np.array(z[f"{atnum}_rad"]), np.array(z[f"{atnum}_npt"])


def preset_atnums(preset):
    with np.load(SRC / "data" / "prune_grid" / f"prune_grid_{preset}.npz") as z:
        return sorted(int(k.split("_")[0]) for k in z.keys() if k.endswith("_rad"))


def preset_case(rng, preset, atnum):
    """-> (radial points, requested size of every shell): for the presets given as counts of shells the radial grid
    gets exactly that many points; for those given as radii every point lies strictly inside a sector (mid points, half
    the first and twice the last boundary), so that the sector of a point does not depend on a boundary convention."""
    rad, npt = preset_data(preset, atnum)
    if preset in LIST_PRESETS or (preset == "sg_1" and atnum > 18):
        req = [int(npt[i]) for i in range(len(rad)) for _ in range(int(rad[i]))]
        pts = np.cumsum([rng.uniform(0.05, 0.3) for _ in req])
        return [float(x) for x in pts], req
    bounds = [float(x) for x in rad]
    mids = [bounds[0] / 2] + [(a + b) / 2 for a, b in zip(bounds, bounds[1:])] + [bounds[-1] * 2]
    sectors = sorted(rng.choice(range(len(mids))) for _ in range(rng.randrange(2, 6)))
    sectors = sorted(set(sectors) | {rng.choice([0, len(mids) - 1])})
    return [mids[k] for k in sectors], [int(npt[k]) for k in sectors]


# ------------------------------------------------------------------------------------------------
# the same argument object used for several requests (source text: runs here via exec and is the replay snippet)
# ------------------------------------------------------------------------------------------------
SAMEOBJ = r"""
import warnings
import numpy as np


def same_object_contents(route, m, kind, obj, contents, which, nat):
    # one use of an existing object whose contents are `contents`, against the table
    _PREBUILT['obj'] = obj
    try:
        p = same_object(route, m, kind, 'prebuilt', contents, 1, which, nat)
    finally:
        _PREBUILT.pop('obj', None)
    return p[0] if p else None


_PREBUILT = {}


def same_object(route, m, kind, cont, req, times, which=0, nat=2, then=None):
    # Pass ONE object holding the request `req` (sizes or degrees) to `route` `times` times; every answer against the
    # brute-force minimum over the table of the method computed from a pristine copy of the request, and the object
    # itself unchanged afterwards. -> list of problems (empty: fine).
    warnings.filterwarnings('ignore')
    from grid import angular as ang
    from grid.atomgrid import AtomGrid
    from grid.basegrid import OneDGrid
    from grid.molgrid import MolGrid
    P = {'lebedev': 'LEBEDEV', 'spherical': 'SPHERICAL', 'maxdet': 'MAX_DET', 'ahrens_beylkin': 'AHRENS_BEYLKIN'}[m]
    npts = getattr(ang, P + '_NPOINTS')
    pristine = [int(x) for x in req]

    def least(x):
        c = [(int(d), int(s)) for s, d in npts.items() if (d if kind == 'deg' else s) >= x]
        return min(c, key=lambda p: p[0] if kind == 'deg' else p[1]) if c else None
    ref = [least(x) for x in pristine]
    base = None
    if cont == 'prebuilt':
        obj = _PREBUILT['obj']
    elif cont in ('view', 'strided', 'rev', 'ro'):
        # the object is a window on a larger array of the caller (the elements around it must survive too)
        if cont == 'view':
            base = np.array([7001, 7002] + pristine + [7003], dtype=np.int64)
            obj = base[2:2 + len(pristine)]
        elif cont == 'strided':
            base = np.array([x for v in pristine for x in (v, 7005)], dtype=np.int64)
            obj = base[::2]
        elif cont == 'rev':
            base = np.array(pristine[::-1], dtype=np.int64)
            obj = base[::-1]
        else:
            base = np.array(pristine, dtype=np.int64)
            obj = base.view()
            obj.setflags(write=False)
        base0 = base.copy()
    else:
        obj = {'int64': lambda q: np.array(q, dtype=np.int64), 'int32': lambda q: np.array(q, dtype=np.int32),
               'int16': lambda q: np.array(q, dtype=np.int16), 'uint16': lambda q: np.array(q, dtype=np.uint16),
               'intp': lambda q: np.array(q, dtype=int), 'list': list, 'tuple': tuple}[cont](pristine)

    def rgrid(n):
        return OneDGrid(np.array([0.4 * (j + 1) for j in range(n)]), np.ones(n), (0, np.inf))

    def shells(g):
        return [int(x) for x in g.degrees], [int(g.indices[i + 1] - g.indices[i]) for i in range(len(g.degrees))]
    bound = [1e9, 1e-9][which]
    problems = []
    for t in range(times):
        try:
            if route == 'convert':
                got = [int(x) for x in ang.AngularGrid.convert_angular_sizes_to_degrees(obj, m)]
                want = None if None in ref else [r[0] for r in ref]
            elif route == 'atomgrid':
                g = AtomGrid(rgrid(len(pristine)), **{'degrees' if kind == 'deg' else 'sizes': obj}, method=m)
                got = shells(g)
                want = None if None in ref else ([r[0] for r in ref], [r[1] for r in ref])
            elif route == 'pruned':
                g = AtomGrid.from_pruned(rgrid(3), 1.0, r_sectors=[bound], **{'d_sectors' if kind == 'deg' else 's_sectors': obj}, method=m)
                got = shells(g)
                want = None if None in ref else ([ref[which][0]] * 3, [ref[which][1]] * 3)
            elif route == 'molpruned':
                coords = np.array([[0.0, 0.0, 1.4 * a] for a in range(nat)])
                mg = MolGrid.from_pruned(np.array([1] * nat), coords, [1.0] * nat, [[bound]] * nat, rgrid=rgrid(2), store=True,
                                         **{'d_sectors' if kind == 'deg' else 's_sectors': [obj] * nat})
                got = [shells(g) for g in mg.atgrids]
                want = None if None in ref else [([ref[which][0]] * 2, [ref[which][1]] * 2)] * nat
            elif route == 'mixed':
                # one object through three different entry points, one after the other
                a = [int(x) for x in ang.AngularGrid.convert_angular_sizes_to_degrees(obj, m)] if kind == 'size' else None
                g1 = AtomGrid(rgrid(len(pristine)), **{'degrees' if kind == 'deg' else 'sizes': obj}, method=m)
                g2 = AtomGrid.from_pruned(rgrid(3), 1.0, r_sectors=[bound], **{'d_sectors' if kind == 'deg' else 's_sectors': obj[:2]}, method=m)
                got = (a, shells(g1), shells(g2))
                want = None if None in ref else ([r[0] for r in ref] if kind == 'size' else None, ([r[0] for r in ref], [r[1] for r in ref]),
                                                  ([ref[which][0]] * 3, [ref[which][1]] * 3))
            else:
                raise SystemExit('unknown route ' + route)
        except ValueError as e:
            got = None if None in ref else 'ValueError: ' + str(e)[:80]
            want = None
        except Exception as e:
            got, want = type(e).__name__ + ': ' + str(e)[:80], 'no exception'
        if got != want:
            problems.append('use %d of %d of the same %s object: got %r, the table gives %r for the request %r' % (t + 1, times, cont, got, want, pristine))
            break
    now = [int(x) for x in obj]
    if now != pristine:
        problems.append('the argument object itself now holds %r instead of %r' % (now, pristine))
    if base is not None and not np.array_equal(base, base0):
        problems.append('the larger array of the caller the argument is a window on changed: %r -> %r' % (base0.tolist(), base.tolist()))
    if then is not None and not problems and cont not in ('tuple', 'ro'):
        # the caller overwrites the SAME object in place with another request of the same length and uses it again:
        # the answer must be the one for the new contents (nothing may be remembered by the identity of the object)
        if cont == 'list':
            obj[:] = [int(x) for x in then]
        else:
            obj[...] = np.asarray(then, dtype=obj.dtype)
        more = same_object_contents(route, m, kind, obj, [int(x) for x in then], which, nat)
        if more:
            problems.append('after the object was overwritten in place with %r: %s' % ([int(x) for x in then], more))
    return problems
"""

_SO = {}


def same_object(*a, **k):
    if not _SO:
        exec(compile(SAMEOBJ, "<c12-same-object>", "exec"), _SO)
    return _SO["same_object"](*a, **k)


def same_object_snippet(args):
    return SAMEOBJ + f"\nproblems = same_object(*{args!r})\nassert not problems, problems\n"

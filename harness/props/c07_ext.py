"""C07, round 3 — additions to the correspondence and the oracle of harness/props/c07.py.

Correspondence: the generated `MolGrid.interpolate` / `interpolate_low` (Gen.MolGrid.interpolate, interpolate_low) and the hand
model against the implementation on a synthetic atomic interpolation (the same function as `synthInterp` of Driver/C07.lean);
the generated signature defaults against `inspect.signature` and against calls that leave the arguments out; the generated
`_generate_default_rgrid` and every row of the generated `_DEFAULT_POWER_RTRANSFORM_PARAMS` against the implementation.

Oracle (implementation only; every replay snippet is the oracle itself, KINDS_PRELUDE + "P = {...}" + BODY):
class 10 (every ordered pair of accessors on one object, both values of store; alternating options; query - setter - query),
class 9 (objects handed out and then used by the caller as its own), class 12 (one-atom molecules, the elements whose
default-radial-grid entry is extreme, special points), class 8 (extreme magnitudes, far-away centres), class 7 (both sides of
the guards), class 11 (first call in a fresh interpreter with non-default options), interpolate = sum over atoms on real atomic
grids.
"""
import decimal
import importlib
import inspect
import math

import numpy as np

from ..common import Ctx, Tokens, b2f, close, driver_batch, f2b, fvec, vec


def _base():
    return importlib.import_module("harness.props.c07")


# ==========================================================================================
# correspondence
# ==========================================================================================
class SynthAtom:
    """Duck-typed atomic grid with the synthetic `interpolate` of Driver/C07.lean (`synthInterp`)."""

    def __init__(self, points, weights, center):
        self.points, self.weights, self.center = points, weights, center
        self.size = weights.size

    def interpolate(self, vals):
        vals = [float(x) for x in np.asarray(vals, dtype=float).reshape(-1)]
        w = [float(x) for x in self.weights]
        cen = [float(x) for x in self.center]

        def low(points, deriv=0, deriv_spherical=False, only_radial_derivs=False):
            if deriv > 3:
                raise ValueError("synthetic: deriv > 3")
            c = 0.0
            for v, x in zip(vals, w):
                c = c + v * x
            s = c * (1.0 + float(deriv) + (2.0 if deriv_spherical else 0.0) + (4.0 if only_radial_derivs else 0.0))

            def dot(p):
                d = 0.0
                for a, b in zip(p, cen):
                    d = d + float(a) * b
                return d
            if len(vals) == 1:
                return np.array([s, s, s]) if deriv_spherical else np.array([s])
            if deriv_spherical:
                return np.array([[s + dot(p) * 1.0, s + dot(p) * 2.0, s + dot(p) * 3.0] for p in points], dtype=float).reshape(len(points), 3)
            return np.array([s + dot(p) for p in points], dtype=float)
        return low


def _tag(e):
    return {ValueError: "value-error", TypeError: "type-error", IndexError: "index-error", KeyError: "key-error",
            AttributeError: "attribute-error"}.get(type(e), "exc:" + type(e).__name__)


def corr_interp(ctx: Ctx, mg):
    """`MolGrid.interpolate(f)(points[, deriv[, deriv_spherical[, only_radial_derivs]]])` on synthetic atoms: generated text and hand
    model vs implementation — slices, aim weights (incl. the broadcasting product), the sum over atoms incl. NumPy's
    broadcasting of `+=`, the defaults of the inner function, every exception."""
    base = _base()
    rng = ctx.rng
    cases, lines, meta = [], [], []
    forced = [
        # (points per atom, len f relative, aim kind, nargs, deriv, ds, ord, store)
        ([2], 0, "arr", 0, 0, False, False, True), ([2, 3], 0, "arr", 0, 0, False, False, True), ([2, 3], 0, "arr", 0, 0, False, False, False),
        ([2, 1], 0, "arr", 3, 1, False, False, True), ([1, 2], 0, "arr", 3, 1, False, False, True), ([2, 1, 3], 0, "arr", 3, 1, True, False, True),
        ([1, 3], 0, "arr", 3, 0, True, False, True), ([2, 2], 1, "arr", 3, 0, False, False, True), ([2, 2], -1, "arr", 3, 0, False, False, True),
        ([2, 2], "one", "arr", 3, 0, False, False, True), ([2, 2], 0, "cb1", 3, 0, False, False, True), ([3], 0, "arr", 3, 4, False, False, True),
        ([2, 3], 0, "arr", 1, 2, False, False, True), ([2, 3], 0, "arr", 2, 1, True, False, True), ([2, 3], 0, "arr", 3, 1, True, True, True),
        ([0, 2], 0, "arr", 3, 0, False, False, True), ([2, 0], 0, "arr", 3, 1, True, False, True), ([1], 0, "arr", 0, 0, False, False, True),
        ([1, 1], 0, "arr", 3, 0, False, False, True), ([1, 1], 0, "arr", 3, 0, True, False, True),
    ]
    n_rand = ctx.n(260, 3000)
    for ci in range(len(forced) + n_rand):
        if ci < len(forced):
            sizes, frel, aimk, nargs, d, ds, ordr, store = forced[ci]
        else:
            sizes = [rng.choice([0, 1, 1, 2, 2, 3, 4]) for _ in range(rng.choice([1, 2, 2, 3, 3, 4]))]
            frel = rng.choice([0] * 12 + [1, -1, "one"])
            aimk = rng.choice(["arr"] * 6 + ["cb1"])
            nargs = rng.choice([0, 1, 2, 3, 3, 3])
            d = rng.choice([0, 0, 1, 1, 2, 3, 4])
            ds, ordr = rng.random() < 0.4, rng.random() < 0.3
            store = rng.random() < 0.85
        if sum(sizes) == 0:
            sizes[-1] = 2
        n = len(sizes)
        atoms, parts = [], []
        for k in sizes:
            pts = np.array([[rng.uniform(-3, 3) for _ in range(3)] for _ in range(k)], dtype=float).reshape(k, 3)
            w = np.array([rng.uniform(0.1, 2.0) for _ in range(k)], dtype=float)
            c = np.array([rng.uniform(-2, 2) for _ in range(3)])
            atoms.append(SynthAtom(pts, w, c))
            parts.append(f"{base._fmat3(pts)} {fvec(w)} {fvec(c)}")
        size = sum(sizes)
        atnums = [rng.choice(base.ELEMENTS) for _ in range(n)]
        if aimk == "arr":
            a = np.array([rng.uniform(0, 1) for _ in range(size)])
            aim, aimtok = a, "arr " + fvec(a)
        else:
            c1 = rng.uniform(0.1, 0.9)
            aim, aimtok = (lambda p, c, z, i, c1=c1: np.array([c1])), "cb1 " + f2b(c1)
        flen = 1 if frel == "one" else max(0, size + frel)
        f = np.array([rng.uniform(-2, 2) for _ in range(flen)])
        M = rng.choice([0, 1, 2, 3, 4, 5])     # round 4: also numbers of points different from 3 and from the number of atoms
        q = np.array([[rng.uniform(-3, 3) for _ in range(3)] for _ in range(M)], dtype=float).reshape(M, 3)
        spec = f"{int(store)} {aimtok} {vec(atnums)} {n} " + " ".join(parts)
        args = [d, ds, ordr][:nargs]
        # what the omitted arguments default to (the model side gets the values only for the closure route, nargs = 3)
        lines.append(f"C07.interp {nargs} {d} {int(ds)} {int(ordr)} {fvec(f)} {base._fmat3(q)} {spec}")
        meta.append((ci, "gen"))
        if nargs == 3:
            lines.append(f"C07.hinterp {d} {int(ds)} {int(ordr)} {fvec(f)} {base._fmat3(q)} {spec}")
            meta.append((ci, "hand"))
        cases.append(dict(sizes=sizes, atoms=atoms, atnums=atnums, aim=aim, aimk=aimk, f=f, q=q, args=args, store=store, frel=frel,
                          nargs=nargs))
    answers = driver_batch(lines)
    impl = {}
    for (ci, side), ans in zip(meta, answers):
        case = cases[ci]
        if ci not in impl:
            try:
                m = mg.MolGrid(np.array(case["atnums"]), case["atoms"], case["aim"], store=case["store"])
                out = m.interpolate(case["f"])(case["q"], *case["args"])
                impl[ci] = ("ok", np.array(out, dtype=float))
            except Exception as e:  # noqa: BLE001
                impl[ci] = (_tag(e), None)
        status, out = impl[ci]
        one = [k for k in case["sizes"] if k == 1]
        branch = ("no-store" if not case["store"] else "flen" if case["frel"] != 0 else "bcast" if one and len(case["sizes"]) > 1 else "plain")
        canon = ["interp", side, case["sizes"], case["atnums"], case["aimk"], case["frel"], len(case["q"]), case["args"], int(case["store"])]
        ctx.count(canon, nontrivial=len(case["sizes"]) >= 2 and case["store"], tag=f"interp:{side}:nargs={case['nargs']}:{branch}:{status}")
        mdl = "generated model (Gen.MolGrid.interpolate / interpolate_low)" if side == "gen" else "hand model"
        wit = {"op": "interpolate", "model_side": side, "sizes": case["sizes"], "atnums": case["atnums"], "aim": case["aimk"],
               "grids": [[a.points, a.weights, a.center] for a in case["atoms"]],
               "aim_values": None if callable(case["aim"]) else case["aim"], "f": case["f"], "points": case["q"], "args": case["args"],
               "store": case["store"], "model": ans[:300], "implementation": status if out is None else out}
        if status != "ok":
            if ans != status:
                ctx.fail("corr", "interpolate:error", f"MolGrid.interpolate(f)(points, *{case['args']}): implementation {status}, {mdl} {ans[:80]}", witness=wit)
            continue
        if not ans.startswith("ok "):
            ctx.fail("corr", "interpolate:error", f"MolGrid.interpolate(f)(points, *{case['args']}) returns an array of shape {out.shape}, {mdl} {ans[:80]}", witness=wit)
            continue
        t = Tokens(ans)
        t.tok()
        shape = t.vec(int)
        data = t.fvec()
        if tuple(shape) != out.shape:
            ctx.fail("corr", "interpolate:shape", f"MolGrid.interpolate: shape {out.shape}, {mdl} {shape}", witness=wit)
            continue
        flat = out.reshape(-1)
        scale = max([1.0] + [abs(x) for x in flat])
        if len(flat) != len(data) or any(not close(float(x), y, rtol=1e-13, scale=scale) for x, y in zip(flat, data)):
            ctx.fail("corr", "interpolate:value", f"MolGrid.interpolate(f)(points, *{case['args']}) = {flat.tolist()[:6]}, {mdl} {data[:6]}", witness=wit)


def corr_defaults(ctx: Ctx, mg, ag, bk, od):
    """the generated defaults of the three signatures: against inspect.signature, and behaviourally — a call that leaves the
    arguments out against the grid built by hand with the values the driver reports"""
    ans = driver_batch(["C07.defaults"])[0].split()
    ctx.count(["defaults"], nontrivial=False, tag="defaults:signature")
    if len(ans) != 11 or ans[0] != "ok":
        ctx.fail("corr", "defaults", f"driver answers {ans}")
        return
    gen = {"from_preset": {"rotate": int(ans[2]), "store": bool(int(ans[3]))},
           "from_size": {"rotate": int(ans[5]), "store": bool(int(ans[6]))},
           "from_pruned": {"d_sectors": int(ans[8]), "rotate": int(ans[9]), "store": bool(int(ans[10]))}}
    for name, d in gen.items():
        sig = inspect.signature(getattr(mg.MolGrid, name))
        for p, v in d.items():
            dv = sig.parameters[p].default
            if type(dv) is not type(v) or dv != v:
                ctx.fail("corr", f"{name}:default:{p}", f"MolGrid.{name}: default of {p} is {dv!r}, generated definition says {v!r}")
        for p in ("rgrid", "aim_weights") + (("s_sectors",) if name == "from_pruned" else ()):
            if sig.parameters[p].default is not None:
                ctx.fail("corr", f"{name}:default:{p}", f"MolGrid.{name}: default of {p} is {sig.parameters[p].default!r}, not None")
    rng = ctx.rng
    base = _base()
    for rep in range(ctx.n(2, 12)):
        n = rng.choice([1, 2, 3])
        atnums = np.array([rng.choice([1, 6, 8]) for _ in range(n)])
        co = np.array(base._lattice_mol(ctx, n))
        rg = od.GaussLaguerre(rng.choice([4, 5]))
        rs = [[0.5, 1.0][: i % 3] for i in range(n)]
        aim = lambda p, c, z, i: np.linspace(0.25, 1.0, len(p))  # noqa: E731
        ds = [[3, 5, 7][: len(r) + 1] for r in rs]
        for name in ("from_preset", "from_size", "from_pruned"):
            g = gen[name]
            wit = {"constructor": name, "atnums": atnums, "coords": co, "generated_defaults": g}
            try:
                if name == "from_preset":
                    got = mg.MolGrid.from_preset(atnums, co, "coarse", rg, aim)
                    hand = [ag.AtomGrid.from_preset(atnum=int(atnums[i]), preset="coarse", rgrid=rg, center=co[i], rotate=g["rotate"]) for i in range(n)]
                elif name == "from_size":
                    got = mg.MolGrid.from_size(atnums, co, 14, rg, aim)
                    hand = [ag.AtomGrid(rg, degrees=None, sizes=[14], center=co[i], rotate=g["rotate"]) for i in range(n)]
                else:
                    got = mg.MolGrid.from_pruned(atnums, co, 1.25, rs, ds, rgrid=rg, aim_weights=aim)
                    hand = [ag.AtomGrid.from_pruned(rg, 1.25, r_sectors=rs[i], d_sectors=ds[i], center=co[i], rotate=g["rotate"]) for i in range(n)]
            except Exception as e:  # noqa: BLE001
                got, hand = _tag(e), None
            ctx.count(["defaults", name, atnums.tolist(), rep], nontrivial=n >= 2, tag=f"defaults:{name}:" + ("ok" if not isinstance(got, str) else got))
            if isinstance(got, str):
                ctx.fail("corr", f"{name}:default", f"MolGrid.{name} without rotate / store raises {got}", witness=wit)
                continue
            ref = mg.MolGrid(atnums, hand, aim, store=g["store"])
            base._compare_molgrids(ctx, name, got, ref, wit)
            if (got.atgrids is not None) != g["store"]:
                ctx.fail("corr", f"{name}:default:store", "atgrids attribute of a call without `store` does not follow the generated default", witness=wit)
        # from_pruned without d_sectors: the same outcome as with the generated default given explicitly, positionally and by keyword
        # (on the pinned tree an integer d_sectors is handed to AtomGrid.from_pruned as it is, which raises TypeError: consistent)
        g = gen["from_pruned"]
        outs = []
        for how in ("omitted", "positional", "keyword", "hand"):
            try:
                if how == "omitted":
                    r = mg.MolGrid.from_pruned(atnums, co, 1.25, rs, rgrid=rg, aim_weights=aim)
                elif how == "positional":
                    r = mg.MolGrid.from_pruned(atnums, co, 1.25, rs, g["d_sectors"], rgrid=rg, aim_weights=aim, rotate=g["rotate"], store=g["store"])
                elif how == "keyword":
                    r = mg.MolGrid.from_pruned(atnums, co, 1.25, rs, d_sectors=g["d_sectors"], s_sectors=None, rgrid=rg, aim_weights=aim,
                                               rotate=g["rotate"], store=g["store"])
                else:
                    r = mg.MolGrid(atnums, [ag.AtomGrid.from_pruned(rg, 1.25, r_sectors=rs[i], d_sectors=g["d_sectors"], center=co[i], rotate=g["rotate"])
                                            for i in range(n)], aim, store=g["store"])
                outs.append(r)
            except Exception as e:  # noqa: BLE001
                outs.append(_tag(e))
        tags = [o if isinstance(o, str) else "ok" for o in outs]
        ctx.count(["defaults", "from_pruned:d_sectors", atnums.tolist(), rep], nontrivial=n >= 2, tag="defaults:from_pruned:d_sectors:" + tags[0])
        wit = {"constructor": "from_pruned", "atnums": atnums, "coords": co, "generated_defaults": g, "outcomes": dict(zip(("omitted", "positional", "keyword", "hand"), tags))}
        if len(set(tags)) != 1:
            ctx.fail("corr", "from_pruned:default:d_sectors", f"from_pruned without d_sectors / with the generated default {g['d_sectors']} positionally / by keyword / atomic grids "
                     f"built by hand with it: {tags}", witness=wit)
        elif tags[0] == "ok":
            for o in outs[1:]:
                if not base._compare_molgrids(ctx, "from_pruned", outs[0], o, wit):
                    break
        else:
            ctx.extra.setdefault("input_kinds", {})["from_pruned_integer_d_sectors"] = (
                f"MolGrid.from_pruned with an integer d_sectors (the signature's default {g['d_sectors']} included) raises {tags[0]}: the integer is handed to "
                "AtomGrid.from_pruned, which needs a sequence — the same rejection as building the atomic grids by hand with it")


def corr_default_rgrid(ctx: Ctx, mg):
    """the generated `_generate_default_rgrid` (recording components) and every row of the generated table vs the implementation"""
    import scipy.constants as sc
    utils = importlib.import_module("grid.utils")
    table = utils._DEFAULT_POWER_RTRANSFORM_PARAMS
    ang, bohr = sc.angstrom, sc.value("atomic unit of length")
    zs = list(range(0, 100))
    ans = driver_batch([f"C07.defaultRgridRow {z} {f2b(ang)} {f2b(bohr)}" for z in zs] + [f"C07.defaultRgridLit {z}" for z in zs])
    for z, a, lit in zip(zs, ans[:100], ans[100:]):
        try:
            g = mg._generate_default_rgrid(z)
            impl = "ok"
        except Exception as e:  # noqa: BLE001
            impl, g = _tag(e), None
        ctx.count(["defaultRgridRow", z], nontrivial=z in table, tag="defaultRgridRow:" + impl)
        if impl != "ok":
            if a != impl:
                ctx.fail("corr", "defaultRgrid:gen", f"_generate_default_rgrid({z}): implementation {impl}, generated function {a}")
            if (z in table) or lit != "key-error":
                ctx.fail("corr", "defaultRgrid:table", f"Z={z}: implementation raises, generated table answers {lit[:60]}")
            continue
        if not a.startswith("ok ") or not lit.startswith("ok "):
            ctx.fail("corr", "defaultRgrid:gen", f"_generate_default_rgrid({z}) returns a grid, generated function: {a}, generated table: {lit}")
            continue
        t = a.split()
        ra, rb, npt = b2f(t[1]), b2f(t[2]), int(t[3])
        bad = None
        if npt != g.size:
            bad = f"size {g.size} vs npt {npt}"
        elif not close(float(g.points[0]), ra, rtol=1e-14):
            bad = f"first radial point {g.points[0]!r} vs rmin*angstrom/bohr = {ra!r}"
        elif not close(float(g.points[-1]), rb, rtol=1e-11):
            bad = f"last radial point {g.points[-1]!r} vs rmax*angstrom/bohr = {rb!r}"
        if bad:
            ctx.fail("corr", "defaultRgrid:gen", f"_generate_default_rgrid({z}) vs the generated function: {bad}", witness={"Z": z})
        lt = lit.split()
        vmin, vmax, n2 = b2f(lt[1]), b2f(lt[2]), int(lt[3])
        dmin = decimal.Decimal(int(lt[4])) / (decimal.Decimal(10) ** int(lt[5]))
        dmax = decimal.Decimal(int(lt[6])) / (decimal.Decimal(10) ** int(lt[7]))
        row = table[z]
        if (n2 != row[2] or float(dmin) != row[0] or float(dmax) != row[1] or not close(vmin, row[0], rtol=1e-15) or not close(vmax, row[1], rtol=1e-15)):
            ctx.fail("corr", "defaultRgrid:table", f"Z={z}: table row {row}, generated row ({dmin}, {dmax}, {n2}) evaluated at Float ({vmin!r}, {vmax!r})",
                     witness={"Z": z})


def corr_aim_route(ctx: Ctx, mg, ag, bk, od):
    """round 6: the generated aim-weights default of the three constructors (Gen.MolGrid.fromX_aim) vs what the implementation hands to
    `cls(...)` for None / a callable / an array / an object of another type (observed through a subclass)"""
    seen = {}

    class Spy(mg.MolGrid):
        def __init__(self, atnums, atgrids, aim_weights, store=False):
            seen["aim"] = aim_weights
            super().__init__(atnums, atgrids, aim_weights, store=store)
    atn, co, rg = np.array([1, 8]), np.array([[0.0, 0.0, 0.0], [0.0, 0.0, 2.0]]), od.GaussLaguerre(4)
    kinds = ["none", "callable", "array", "other"]
    ctors = ["from_preset", "from_size", "from_pruned"]
    ans = driver_batch([f"C07.aimroute {c} {k}" for c in ctors for k in kinds])
    it = iter(ans)
    for c in ctors:
        for k in kinds:
            a = next(it)
            size = {"from_preset": None, "from_size": None, "from_pruned": None}[c]
            ref = {"from_preset": lambda aim: Spy.from_preset(atn, co, "coarse", rg, aim), "from_size": lambda aim: Spy.from_size(atn, co, 6, rg, aim),
                   "from_pruned": lambda aim: Spy.from_pruned(atn, co, 1.0, [[], []], [[3], [3]], rgrid=rg, aim_weights=aim)}[c]
            n = ref(None).size
            obj = {"none": None, "callable": (lambda p, c_, z, i: np.full(len(p), 0.5)), "array": np.linspace(-1.0, 2.0, n), "other": [0.5] * n}[k]
            seen.clear()
            try:
                ref(obj)
                out = "ok"
            except Exception as e:  # noqa: BLE001
                out = _tag(e)
            got = seen.get("aim", "not-reached")
            if got is obj and obj is not None:
                impl = "ok " + k
            elif isinstance(got, bk.BeckeWeights):
                impl = f"ok becke 1 {f2b(float(got._order))}" if hasattr(got, "_order") else "ok becke ?"
            else:
                impl = f"replaced by {type(got).__name__}"
            ctx.count(["aimroute", c, k], nontrivial=k != "none", tag=f"aimroute:{c}:{k}:{out}")
            if a != impl:
                ctx.fail("corr", f"{c}:aim-route", f"MolGrid.{c} with aim_weights = {k}: the object handed to cls(...) is `{impl}`, the generated definition says `{a}`",
                         witness={"constructor": c, "aim_weights": k, "atnums": atn, "coords": co, "store": False, "canon": [c, atn.tolist(), 2, "obj 1", "obj 1"]})
            if k == "other" and out != "type-error":
                ctx.fail("corr", f"{c}:aim-route", f"MolGrid.{c} with aim weights of an unsupported type gives {out} instead of TypeError")


# ==========================================================================================
# oracle bodies (appended to KINDS_PRELUDE of c07.py)
# ==========================================================================================
EXT_PRELUDE = r"""
def eqv(a, b):
    if a is None or b is None: return a is None and b is None
    if isinstance(a, str) or isinstance(b, str): return a == b
    if isinstance(a, (tuple, list)): return isinstance(b, (tuple, list)) and len(a) == len(b) and all(eqv(x, y) for x, y in zip(a, b))
    x, y = np.asarray(a), np.asarray(b)
    return x.shape == y.shape and np.array_equal(x, y)
def snap_grid(g):
    return (type(g).__name__, np.array(g.points, copy=True), np.array(g.weights, copy=True), np.array(g.center, copy=True))
def mol_arrays(m):
    return tuple(np.array(getattr(m, t), copy=True) for t in ATTRS)
"""

# -- class 10 (+ 11): every ordered pair of accessors on one object, alternating options, query - setter - query ----------------
PAIRS_BODY = r"""
KEY = P['key']
atn = np.array(P['atnums']); co = np.array(P['coords'], dtype=float); n = len(atn)
def atoms():
    return [AtomGrid(GaussLaguerre(P['nrad'][i]), degrees=[P['degs'][i]], center=co[i], rotate=P['rots'][i]) for i in range(n)]
ats0 = atoms(); size = sum(g.size for g in ats0)
A = np.random.default_rng(P['seed']).uniform(0.1, 1, size)
F = [np.random.default_rng(P['seed'] + 1 + t).uniform(-1, 1, size) for t in range(2)]
def build(store):
    aim = A.copy() if P['aim'] == 'array' else BeckeWeights(order=3)
    return MolGrid(atn, atoms(), aim, store=store)
def lg(m, c, r):
    g = m.get_localgrid(co[c], r); o = np.argsort(g.indices, kind='stable')
    return (np.array(g.points)[o], np.array(g.weights)[o], np.array(g.indices)[o], np.array(g.center, copy=True))
def call(m, c):
    nm = c[0]
    if nm == 'getitem': return snap_grid(m[c[1]])
    if nm == 'get_atomic_grid': return snap_grid(m.get_atomic_grid(c[1]))
    if nm == 'atgrids': return None if m.atgrids is None else [snap_grid(g) for g in m.atgrids]
    if nm == 'get_localgrid': return lg(m, c[1], c[2])
    if nm == 'integrate': return float(m.integrate(F[c[1]]))
    if nm == 'size': return int(m.size)
    return np.array(getattr(m, nm), copy=True)
REF = {}
def ref(store, c):
    k = (store, tuple(c))
    if k not in REF: REF[k] = call(build(store), c)
    return REF[k]
# ---- the fresh single-call references against independent data
ind = np.concatenate([[0], np.cumsum([g.size for g in ats0])])
for store in (True, False):
    assert eqv(ref(store, ['indices']), ind), f'{KEY} :: indices of a fresh grid (store={store}) are not the running sums of the atomic sizes'
    assert eqv(ref(store, ['atweights']), np.concatenate([g.weights for g in ats0])), f'{KEY} :: atweights of a fresh grid (store={store}) are not the concatenated atomic weights'
    assert eqv(ref(store, ['points']), np.concatenate([g.points for g in ats0])), f'{KEY} :: points of a fresh grid (store={store}) are not the concatenated atomic points'
    if P['aim'] == 'array':
        assert eqv(ref(store, ['aim_weights']), A), f'{KEY} :: aim_weights of a fresh grid (store={store}) are not the given array'
    for k in range(n):
        t, p, w, c = ref(store, ['get_atomic_grid', k])
        assert eqv(p, ats0[k].points) and eqv(w, ats0[k].weights) and eqv(c, ats0[k].center), f'{KEY} :: get_atomic_grid({k}) on a fresh grid (store={store}) is not atomic grid {k}'
        t, p, w, c = ref(store, ['getitem', k])
        assert eqv(p, ats0[k].points) and eqv(c, ats0[k].center), f'{KEY} :: points / centre of mg[{k}] on a fresh grid (store={store}) are not those of atomic grid {k}'
    for c in P['lgs']:
        p, w, ix, cc = ref(store, ['get_localgrid'] + c)
        allp = ref(store, ['points']); d = np.linalg.norm(allp - co[c[0]], axis=1)
        inside = np.nonzero(d <= c[1])[0]
        sure = np.abs(d - c[1]) > 1e-9
        assert set(ix.tolist()) - set(np.nonzero(~sure)[0].tolist()) == set(inside.tolist()) - set(np.nonzero(~sure)[0].tolist()), (
            f'{KEY} :: get_localgrid(atom {c[0]}, {c[1]}) on a fresh grid (store={store}) does not hold exactly the points inside the sphere')
        assert eqv(p, allp[ix]) and eqv(w, ref(store, ['weights'])[ix]), f'{KEY} :: get_localgrid: points / weights are not those of the reported indices'
for a, b in zip(ref(True, ['points']), ref(False, ['points'])): pass
for nm in ('points', 'weights', 'indices', 'aim_weights', 'atweights', 'atcoords', 'size'):
    assert eqv(ref(True, [nm]), ref(False, [nm])), f'{KEY} :: {nm} of a fresh grid depends on store'
# ---- every ordered pair (also twice the same) on one fresh object, both values of store
CALLS = [['getitem', P['index']], ['get_atomic_grid', P['index']], ['atgrids'], ['indices'], ['aim_weights'], ['atweights'],
         ['get_localgrid'] + P['lgs'][0], ['points'], ['weights'], ['integrate', 0], ['atcoords'], ['size']]
for store in (True, False):
    for a in CALLS:
        for b in CALLS:
            m = build(store)
            r1 = call(m, a); r2 = call(m, b); r3 = call(m, a)
            d = lambda c: c[0] + '(' + ', '.join(map(str, c[1:])) + ')'
            assert eqv(r1, ref(store, a)), f'{KEY} :: {d(a)} as the first call on a new grid (store={store}) differs from the same call on another new grid'
            assert eqv(r2, ref(store, b)), f'{KEY} :: {d(b)} after {d(a)} on one grid (store={store}) differs from {d(b)} on a new grid'
            assert eqv(r3, ref(store, a)), f'{KEY} :: {d(a)} after {d(a)}, {d(b)} on one grid (store={store}) differs from {d(a)} on a new grid'
# ---- one method with alternating option values, interleaved, on one object
SEQ = [['getitem', k] for k in range(n)] + [['get_atomic_grid', k] for k in range(n)] + [['get_localgrid'] + c for c in P['lgs']] + [['integrate', 0], ['integrate', 1]]
for store in (True, False):
    m = build(store)
    for t in P['order']:
        c = SEQ[t % len(SEQ)]
        assert eqv(call(m, c), ref(store, c)), f'{KEY} :: {c} in the call sequence {[SEQ[u % len(SEQ)] for u in P["order"]]} on one grid (store={store}) differs from the same call on a new grid'
# ---- query, setter, query (the inherited setters of Grid replace the array; nothing may remember the old one)
W2 = np.random.default_rng(P['seed'] + 9).uniform(0.5, 1.5, size)
for store in (True, False):
    for first in (True, False):
        m = build(store)
        if first:
            call(m, ['getitem', 0]); call(m, ['get_atomic_grid', 0]); call(m, ['integrate', 0]); call(m, ['get_localgrid'] + P['lgs'][0])
        m.weights = W2.copy()
        what = f'after `mg.weights = w2` (store={store}, ' + ('accessors called before' if first else 'first use') + ')'
        want = math.fsum((W2 * F[0]).tolist())
        assert abs(float(m.integrate(F[0])) - want) <= 1e-12 * math.fsum(np.abs(W2 * F[0]).tolist()), f'{KEY} :: integrate(f) {what} is not sum(w2 * f)'
        assert eqv(m.atweights, ref(store, ['atweights'])) and eqv(m.aim_weights, ref(store, ['aim_weights'])) and eqv(m.indices, ind), f'{KEY} :: atweights / aim_weights / indices changed {what}'
        t, p, w, c = snap_grid(m.get_atomic_grid(0))
        assert eqv(w, ats0[0].weights) and eqv(p, ats0[0].points), f'{KEY} :: get_atomic_grid(0) {what} is not atomic grid 0 (raw atomic weights)'
        if not store:
            t, p, w, c = snap_grid(m[0])
            assert eqv(w, W2[ind[0]:ind[1]]) and eqv(p, ats0[0].points), f'{KEY} :: mg[0] {what} does not carry the new molecular weights of its segment'
        p, w, ix, cc = lg(m, *P['lgs'][0])
        assert eqv(w, W2[ix]) and eqv(ix, ref(store, ['get_localgrid'] + P['lgs'][0])[2]), f'{KEY} :: get_localgrid {what} does not carry the new weights / the same points'
"""

# -- class 9: objects handed out by the library and then used by the caller as its own ------------------------------------------
HANDOUT_BODY = r"""
KEY = P['key']
atn = np.array(P['atnums']); co = np.array(P['coords'], dtype=float); n = len(atn)
def atoms():
    return [AtomGrid(GaussLaguerre(P['nrad'][i]), degrees=[P['degs'][i]], center=co[i].copy(), rotate=P['rots'][i]) for i in range(n)]   # (AtomGrid keeps the centre array it is given)
ats0 = atoms(); size = sum(g.size for g in ats0)
A = np.random.default_rng(P['seed']).uniform(0.1, 1, size)
f = np.random.default_rng(P['seed'] + 1).uniform(-1, 1, size)
ALIAS = {}
def build(store):
    ats = atoms()
    return MolGrid(atn, ats, A.copy() if P['aim'] == 'array' else BeckeWeights(order=3), store=store), ats
for store in (True, False):
    for acc in ('get_atomic_grid', 'getitem'):
        get = (lambda m, k: m.get_atomic_grid(k)) if acc == 'get_atomic_grid' else (lambda m, k: m[k])
        for k in range(n):
            # ---- the caller re-weights / moves the grid it was handed through the setters
            m, ats = build(store)
            before = mol_arrays(m); I0 = float(m.integrate(f))
            g = get(m, k); first = snap_grid(g)
            ALIAS[f'{acc}:store={store}:points-view-of-molecular-points'] = bool(np.shares_memory(g.points, m.points))
            ALIAS[f'{acc}:store={store}:weights-view-of-molecular-arrays'] = bool(np.shares_memory(g.weights, m.weights) or np.shares_memory(g.weights, m.atweights))
            g.weights = np.asarray(g.weights) * 3.0
            if not store or type(g).__name__ == 'LocalGrid':
                g.points = np.asarray(g.points) + 1.0
            what = f'after the caller replaced weights (and points) of the grid handed out by {acc}({k}) through its setters (store={store})'
            assert eqv(mol_arrays(m), before), f'{KEY} :: the molecular grid changed {what}'
            assert float(m.integrate(f)) == I0, f'{KEY} :: integrate(f) changed {what}'
            g2 = get(m, k)
            if store:
                assert g2 is ats[k], f'{KEY} :: {acc}({k}) with store=True is not the stored atomic grid any more {what}'
            else:
                assert g2 is not g and eqv(snap_grid(g2), first), f'{KEY} :: the second {acc}({k}) is not the first answer {what}'
            for j in range(n):
                if j != k:
                    t, p, w, c = snap_grid(get(m, j))
                    assert eqv(p, ats0[j].points), f'{KEY} :: {acc}({j}) changed {what}'
            # ---- the caller edits the arrays of the handed-out grid in place: with stored grids they are the caller's own objects
            if store:
                m, ats = build(store)
                before = mol_arrays(m); I0 = float(m.integrate(f))
                g = get(m, k)
                w = g.weights; w *= 0.5
                p = g.points; p += 2.0
                what = f'after the caller edited in place the arrays of the grid handed out by {acc}({k}) (store=True: its own atomic grid)'
                assert eqv(mol_arrays(m), before) and float(m.integrate(f)) == I0, f'{KEY} :: the molecular grid changed {what}'
# ---- finite-radius local grids are copies; the caller edits them in place and through the setters
for store in (True, False):
    m, ats = build(store)
    before = mol_arrays(m)
    c, r = P['lg']
    g = m.get_localgrid(co[c], r); o = np.argsort(g.indices, kind='stable'); first = (np.array(g.points)[o], np.array(g.weights)[o], np.array(g.indices)[o])
    ALIAS[f'get_localgrid-finite:store={store}:view'] = bool(np.shares_memory(g.points, m.points) or np.shares_memory(g.weights, m.weights))
    g.points[...] = 7.0; g.weights[...] = -1.0; g.indices[...] = 0
    what = f'after the caller overwrote in place points / weights / indices of the grid handed out by get_localgrid (store={store})'
    assert eqv(mol_arrays(m), before), f'{KEY} :: the molecular grid changed {what}'
    g2 = m.get_localgrid(co[c], r); o = np.argsort(g2.indices, kind='stable')
    assert eqv((np.array(g2.points)[o], np.array(g2.weights)[o], np.array(g2.indices)[o]), first), f'{KEY} :: the second get_localgrid is not the first answer {what}'
    gi = m.get_localgrid(co[c], np.inf)
    ALIAS[f'get_localgrid-inf:store={store}:view'] = bool(np.shares_memory(gi.points, m.points) or np.shares_memory(gi.weights, m.weights))
# ---- the arguments stay the caller's: edited in place after the construction
for store in (True, False):
    ats = atoms(); Aarg = A.copy(); zarg = atn.copy()
    m = MolGrid(zarg, ats, Aarg, store=store)
    before = mol_arrays(m); I0 = float(m.integrate(f))
    ALIAS[f'init:store={store}:aim_weights-is-the-given-array'] = m.aim_weights is Aarg
    zarg[...] = 99
    for g in ats:
        w = g.weights; w *= 2.0
        g.center[...] = 5.0 if g.center.flags.writeable else g.center
    Aarg[...] = 0.25
    what = f'after the caller edited in place atnums, the aim-weights array and the weights / centres of the atomic grids it had passed (store={store})'
    now = mol_arrays(m)
    for t, x, y in zip(ATTRS, now, before):
        if t == 'aim_weights': continue
        assert eqv(x, y), f'{KEY} :: {t} of the molecular grid changed {what}'
    assert float(m.integrate(f)) == I0, f'{KEY} :: integrate(f) changed {what}'
for ctor in ('from_preset', 'from_size', 'from_pruned'):
    R0 = GaussLaguerre(P['nrad'][0]); zarg = atn.copy(); carg = co.copy()
    rs = [[0.5, 1.0][: i % 3] for i in range(n)]; ds = [[3, 5, 7][: len(r) + 1] for r in rs]; radii = [1.0 + 0.25 * i for i in range(n)]
    for store in (True, False):
        if ctor == 'from_preset': m = MolGrid.from_preset(zarg, carg, 'coarse', R0, store=store)
        elif ctor == 'from_size': m = MolGrid.from_size(zarg, carg, 14, R0, store=store)
        else: m = MolGrid.from_pruned(zarg, carg, radii, rs, ds, rgrid=R0, store=store)
        before = mol_arrays(m)
        ALIAS[f'{ctor}:store={store}:atcoords-shares-memory-with-argument'] = bool(np.shares_memory(m.atcoords, carg) or np.shares_memory(m.points, carg))
        zarg[...] = zarg[::-1].copy(); carg += 3.0; radii[0] = 9.0; rs[-1].append(4.0); ds[-1].append(3)
        assert eqv(mol_arrays(m), before), f'{KEY} :: MolGrid.{ctor}(store={store}): the grid changed after the caller edited in place the atnums / atcoords / radius / sector lists it had passed'
        zarg[...] = atn; carg[...] = co; radii[0] = 1.0; rs[-1].pop(); ds[-1].pop()
"""

# -- class 12: one-atom molecules, elements with extreme default-radial-grid entries, special points --------------------------------
EXTREME_BODY = r"""
import scipy.constants as sc
from grid.basegrid import OneDGrid
from grid.utils import _DEFAULT_POWER_RTRANSFORM_PARAMS as TABLE
KEY = P['key']
zs = P['atnums']; co = np.array(P['coords'], dtype=float); n = len(zs)
def reference_rgrid(z):
    # independent of PowerRTransform / UniformInteger: rmin (i+1)^p, p = ln(rmax/rmin)/ln(npt), weights p rmin (i+1)^(p-1), in bohr
    rmin, rmax, npt = P['rows'][str(z)]
    conv = 1e-10 / 5.29177210903e-11
    a, b = rmin * conv, rmax * conv
    p = (math.log(b) - math.log(a)) / math.log(npt)
    i = np.arange(1, npt + 1, dtype=float)
    return a * i ** p, p * a * i ** (p - 1), p
for z in sorted(set(zs)):
    assert P['rows'][str(z)] == list(TABLE[z]), f'{KEY} :: Z={z}: the table row {TABLE[z]} is not the row the check was started with {P["rows"][str(z)]}'
    g = _generate_default_rgrid(z)
    pts, wts, p = reference_rgrid(z)
    assert g.size == len(pts) and np.allclose(g.points, pts, rtol=1e-7, atol=0) and np.allclose(g.weights, wts, rtol=1e-7, atol=0), (
        f'{KEY} :: the default radial grid of Z={z} is not rmin (i+1)^p with p = ln(rmax/rmin)/ln(npt) = {p:.4f} in bohr '
        f'(first point {g.points[0]!r} vs {pts[0]!r}, last {g.points[-1]!r} vs {pts[-1]!r}, size {g.size} vs {len(pts)})')
    assert np.all(np.diff(g.points) > 0) and np.all(g.weights > 0) and g.points[0] > 0, f'{KEY} :: the default radial grid of Z={z} is not positive and increasing'
def ref_onedgrid(z):
    pts, wts, _ = reference_rgrid(z)
    return OneDGrid(pts, wts, (0, np.inf))
rot = P['rotate']
rs = [[0.5, 1.0][: i % 3] for i in range(n)]; ds = [[3, 5, 7][: len(r) + 1] for r in rs]
for ctor in P['ctors']:
    for store in (False, True):
        if ctor == 'from_preset':
            got = MolGrid.from_preset(np.array(zs), co, P['preset'], rotate=rot, store=store)
            hand = [AtomGrid.from_preset(atnum=zs[i], preset=P['preset'], rgrid=_generate_default_rgrid(zs[i]), center=co[i], rotate=rot) for i in range(n)]
            indep = [AtomGrid.from_preset(atnum=zs[i], preset=P['preset'], rgrid=ref_onedgrid(zs[i]), center=co[i], rotate=rot) for i in range(n)]
        elif ctor == 'from_size':
            got = MolGrid.from_size(np.array(zs), co, 26, rotate=rot, store=store)
            hand = [AtomGrid(_generate_default_rgrid(zs[i]), degrees=None, sizes=[26], center=co[i], rotate=rot) for i in range(n)]
            indep = [AtomGrid(ref_onedgrid(zs[i]), degrees=None, sizes=[26], center=co[i], rotate=rot) for i in range(n)]
        else:
            got = MolGrid.from_pruned(np.array(zs), co, 1.5, rs, ds, rotate=rot, store=store)
            hand = [AtomGrid.from_pruned(_generate_default_rgrid(zs[i]), 1.5, r_sectors=rs[i], d_sectors=ds[i], center=co[i], rotate=rot) for i in range(n)]
            indep = [AtomGrid.from_pruned(ref_onedgrid(zs[i]), 1.5, r_sectors=rs[i], d_sectors=ds[i], center=co[i], rotate=rot) for i in range(n)]
        what = f'MolGrid.{ctor}(atnums={zs}, rgrid=None, store={store})'
        ref = MolGrid(np.array(zs), hand, BeckeWeights(order=3), store=store)
        same(KEY, got, ref, what + ' vs the grid built by hand from _generate_default_rgrid(Z)')
        assert got.size == sum(g.size for g in indep), f'{KEY} :: {what}: size differs from the grid built from the closed-form radial grid'
        pi = np.concatenate([g.points for g in indep]); wi = np.concatenate([g.weights for g in indep])
        cen = np.repeat(co, [g.size for g in indep], axis=0)
        rad = np.linalg.norm(pi - cen, axis=1)
        assert np.all(np.abs(got.points - pi).max(axis=1) <= 1e-7 * rad + 1e-300) and np.allclose(got.atweights, wi, rtol=1e-6, atol=0), (
            f'{KEY} :: {what}: points / atomic weights differ from the grid built from the closed-form radial grid rmin (i+1)^p')
        if n == 1:
            assert np.array_equal(got.aim_weights, np.ones(got.size)) and np.array_equal(got.weights, got.atweights), (
                f'{KEY} :: {what}: the atom-in-molecule weights of a one-atom molecule are not 1 (weights differ from the atomic weights)')
            assert [int(x) for x in got.indices] == [0, got.size], f'{KEY} :: {what}: index table of a one-atom molecule is {got.indices}'
        # a normalised Gaussian on every atom (exponent 2) integrates to the number of atoms within 1 %
        if ctor == 'from_preset':
            fv = sum((2.0 / math.pi) ** 1.5 * np.exp(-2.0 * ((got.points - c) ** 2).sum(axis=1)) for c in co)
            err = abs(float(got.integrate(fv)) - n) / n
            assert err <= 0.01, f'{KEY} :: {what}, preset {P["preset"]!r}: the sum of normalised Gaussians (exponent 2) integrates {err:.3%} off the total charge'
"""

SPECIAL_BODY = r"""
from grid.basegrid import OneDGrid
KEY = P['key']
atn = np.array(P['atnums']); n = len(atn)
# atom 0 at a point far from / at the origin; atom 1 exactly on a grid point of atom 0 (if asked); radial grids with a zero radius /
# a single shell; degrees per atom
co = np.array(P['coords'], dtype=float)
def rgrid(kind):
    if kind == 'zero-radius': return OneDGrid(np.array([0.0, 0.5, 1.25]), np.array([0.25, 0.5, 1.0]), (0, np.inf))
    if kind == 'one-shell': return OneDGrid(np.array([0.75]), np.array([1.5]), (0, np.inf))
    if kind == 'tiny': return OneDGrid(np.array([1e-300, 1e-50, 1e-12]), np.array([1e-300, 1e-50, 1e-12]), (0, np.inf))
    if kind == 'huge': return OneDGrid(np.array([1.0, 1e6, 1e12]), np.array([1.0, 1e6, 1e12]), (0, np.inf))
    return GaussLaguerre(4)
def atoms(co):
    return [AtomGrid(rgrid(P['rkinds'][i]), degrees=[P['degs'][i]], center=co[i], rotate=P['rots'][i]) for i in range(n)]
ats = atoms(co)
if P['on_point'] and n >= 2:
    co[1] = ats[0].points[P['on_point'] % ats[0].size]
    ats = atoms(co)
size = sum(g.size for g in ats)
rs = np.random.default_rng(P['seed'])
scale = P['scale']
A = rs.uniform(0, 1, size) * scale if P['aim'] == 'array' else None
if A is not None and size >= 3: A[0], A[size // 2], A[-1] = 0.0, 5e-324, scale
for store in (True, False):
    what = f'MolGrid(atnums={P["atnums"]}, radial grids {P["rkinds"]}, centres {co.tolist()}, aim {P["aim"]} x {scale:g}, store={store})'
    try:
        m = MolGrid(atn, ats, A if A is not None else BeckeWeights(order=3), store=store)
    except Exception as e:
        raise AssertionError(f'{KEY} :: {what} raises {type(e).__name__}: {str(e)[:100]} on atomic grids that were built')
    ind = [int(x) for x in m.indices]
    assert ind == np.concatenate([[0], np.cumsum([g.size for g in ats])]).tolist(), f'{KEY} :: {what}: index table {ind}'
    for k in range(n):
        s, e = ind[k], ind[k + 1]
        assert np.array_equal(m.points[s:e], ats[k].points) and np.array_equal(m.atweights[s:e], ats[k].weights) and np.array_equal(m.atcoords[k], ats[k].center), (
            f'{KEY} :: {what}: segment {k} is not atomic grid {k}')
        g = m.get_atomic_grid(k)
        assert np.array_equal(g.points, ats[k].points) and np.array_equal(g.weights, ats[k].weights), f'{KEY} :: {what}: get_atomic_grid({k}) is not atomic grid {k}'
    aimw = np.asarray(m.aim_weights, dtype=float)
    assert aimw.shape == (size,) and np.array_equal(m.weights, m.atweights * aimw, equal_nan=True), f'{KEY} :: {what}: weights != atweights * aim_weights'
    if A is None:
        assert np.all(np.isfinite(aimw)) and np.all(aimw >= 0) and np.all(aimw <= 1 + 1e-12), f'{KEY} :: {what}: Becke weights outside [0, 1] or not finite (min {np.nanmin(aimw)}, max {np.nanmax(aimw)})'
    nz = np.abs(m.atweights[m.atweights != 0])
    for amp in P['amps']:
        if A is not None and (amp * scale < 1e-280 or (nz.size and float(nz.min()) * scale < 1e-280)):
            continue          # aim * f or atweights * aim would be subnormal / underflow: the two evaluation orders legitimately differ there
        f = rs.uniform(-1, 1, size) * amp
        tot = float(m.integrate(f))
        parts = math.fsum(float(ats[k].integrate(aimw[ind[k]:ind[k + 1]] * f[ind[k]:ind[k + 1]])) for k in range(n))
        sc = math.fsum(np.abs(m.weights * f).tolist())
        assert abs(tot - parts) <= 1e-12 * sc + 5e-324, f'{KEY} :: {what}: integrate(f) = {tot!r} (|f| <= {amp:g}) but the atomic integrals of aim*f sum to {parts!r} (scale {sc!r})'
        assert abs(tot - math.fsum((m.weights * f).tolist())) <= 1e-12 * sc + 5e-324, f'{KEY} :: {what}: integrate(f) is not sum(weights * f) relative to its scale (|f| <= {amp:g})'
"""

# -- class 8: far-away centres: the constructors commute with an exactly representable translation -------------------------------------
TRANSLATE_BODY = r"""
KEY = P['key']
atn = np.array(P['atnums']); co = np.array(P['coords'], dtype=float); n = len(atn)
shift = np.array(P['shift'], dtype=float)
R0 = GaussLaguerre(P['nrad'])
rsec = [[0.5, 1.0][: i % 3] for i in range(n)]; dsec = [[3, 5, 7][: len(r) + 1] for r in rsec]
def make(c, store):
    if P['ctor'] == 'from_preset': return MolGrid.from_preset(atn, c, 'coarse', R0, rotate=P['rotate'], store=store)
    if P['ctor'] == 'from_size': return MolGrid.from_size(atn, c, 14, R0, rotate=P['rotate'], store=store)
    return MolGrid.from_pruned(atn, c, 1.25, rsec, dsec, rgrid=R0, rotate=P['rotate'], store=store)
def hand(c):
    if P['ctor'] == 'from_preset': return [AtomGrid.from_preset(atnum=int(atn[i]), preset='coarse', rgrid=R0, center=c[i], rotate=P['rotate']) for i in range(n)]
    if P['ctor'] == 'from_size': return [AtomGrid(R0, degrees=None, sizes=[14], center=c[i], rotate=P['rotate']) for i in range(n)]
    return [AtomGrid.from_pruned(R0, 1.25, r_sectors=rsec[i], d_sectors=dsec[i], center=c[i], rotate=P['rotate']) for i in range(n)]
a = make(co, False)
mag = float(np.max(np.abs(shift))) + float(np.max(np.abs(co))) + 30.0
for store in (False, True):
    b = make(co + shift, store)
    what = f'MolGrid.{P["ctor"]}(atnums={P["atnums"]}, store={store}) translated by {shift.tolist()}'
    same(KEY, b, MolGrid(atn, hand(co + shift), BeckeWeights(order=3), store=store), what + ' vs the grid built by hand at the translated centres')
    assert np.array_equal(a.indices, b.indices) and np.array_equal(a.atweights, b.atweights), f'{KEY} :: {what}: index table / atomic weights differ from the untranslated grid'
    assert np.array_equal(b.atcoords, co + shift), f'{KEY} :: {what}: atcoords are not the translated centres'
    dev = float(np.max(np.abs((b.points - shift) - a.points)))
    assert dev <= 8 * np.finfo(float).eps * mag, f'{KEY} :: {what}: points differ from the translated points of the untranslated grid by {dev:.3g} (rounding allows {8 * np.finfo(float).eps * mag:.3g})'
    # Becke weights depend on differences of distances: rounding of the translated points (eps * |shift|) enters, nothing else
    tol = 1e3 * np.finfo(float).eps * mag + 1e-12
    dw = float(np.max(np.abs(b.aim_weights - a.aim_weights)))
    assert dw <= tol, f'{KEY} :: {what}: atom-in-molecule weights differ from the untranslated ones by {dw:.3g} (rounding allows {tol:.3g})'
    f = np.exp(-((a.points[:, None, :] - co[None, :, :]) ** 2).sum(axis=2)).sum(axis=1)
    ia, ib = float(a.integrate(f)), float(b.integrate(f))
    assert abs(ia - ib) <= tol * abs(ia) * 10, f'{KEY} :: {what}: the integral of the (co-moving) sum of Gaussians changed from {ia!r} to {ib!r}'
"""

# -- interpolate on real atomic grids: the callable is the sum over atoms of the atomic interpolants of aim * f -----------------------
INTERP_BODY = r"""
KEY = P['key']
atn = np.array(P['atnums']); co = np.array(P['coords'], dtype=float); n = len(atn)
def atoms():
    return [AtomGrid(GaussLaguerre(P['nrad'][i]), degrees=[P['degs'][i]], center=co[i], rotate=P['rots'][i]) for i in range(n)]
ats = atoms(); size = sum(g.size for g in ats)
rs = np.random.default_rng(P['seed'])
A = rs.uniform(0.1, 1, size)
m = MolGrid(atn, ats, A.copy() if P['aim'] == 'array' else BeckeWeights(order=3), store=True)
f = np.exp(-((m.points[:, None, :] - co[None, :, :]) ** 2).sum(axis=2)).sum(axis=1) * P['amp']
pts = rs.uniform(-2, 2, (P['npts'], 3))
ind = [int(x) for x in m.indices]
aimw = np.asarray(m.aim_weights, dtype=float)
parts = [ats[k].interpolate(aimw[ind[k]:ind[k + 1]] * f[ind[k]:ind[k + 1]]) for k in range(n)]
I = m.interpolate(f)
for args in P['calls']:
    got = I(pts, *args)
    want = parts[0](pts, *args)
    for k in range(1, n): want = want + parts[k](pts, *args)
    sc = max(1e-300, float(np.max(np.abs(want)))) if np.size(want) else 1.0
    assert np.shape(got) == np.shape(want) and float(np.max(np.abs(got - want), initial=0.0)) <= 1e-12 * sc, (
        f'{KEY} :: MolGrid.interpolate(f)(points, *{args}) (atoms {P["atnums"]}) is not the sum over the atoms of AtomGrid.interpolate((aim_weights * f)[segment])(points, *{args}): '
        f'max deviation {float(np.max(np.abs(got - want), initial=0.0)):.3g} on values of size {sc:.3g}')
g0 = I(pts); g1 = I(pts, 0, False, False); g2 = I(pts, deriv=0, deriv_spherical=False, only_radial_derivs=False)
assert np.array_equal(g0, g1) and np.array_equal(g0, g2), f'{KEY} :: MolGrid.interpolate(f)(points) differs from the call with deriv=0, deriv_spherical=False, only_radial_derivs=False spelled out'
b = MolGrid(atn, atoms(), A.copy() if P['aim'] == 'array' else BeckeWeights(order=3), store=False)
try:
    b.interpolate(f); ok = True
except ValueError:
    ok = False
assert not ok, f'{KEY} :: MolGrid.interpolate without stored atomic grids does not raise ValueError'
"""

# -- class 7: both sides of the guards of the constructors ----------------------------------------------------------------------------
GUARDS_BODY = r"""
KEY = P['key']
R0 = GaussLaguerre(4)
def outcome(fn):
    try:
        fn(); return 'ok'
    except Exception as e:
        return type(e).__name__
n = P['n']
atn = np.array(P['atnums']); co = np.array(P['coords'], dtype=float)
rs = [[0.5]] * n; ds = [[3, 5]] * n
for ctor, mk in (('from_preset', lambda z, c: MolGrid.from_preset(z, c, 'coarse', R0)),
                 ('from_pruned', lambda z, c: MolGrid.from_pruned(z, c, 1.0, rs[: len(c)] if np.ndim(c) == 2 else rs, ds[: len(c)] if np.ndim(c) == 2 else ds, rgrid=R0))):
    for shape_name, c in (('ndim 0', np.float64(0.5)), ('ndim 1', co[0]), ('ndim 3', co[None, :, :])):
        r = outcome(lambda: mk(atn, c))
        assert r in ('ValueError', 'AttributeError') and r != 'ok', f'{KEY} :: MolGrid.{ctor} with atcoords of {shape_name} gives {r} instead of a rejection'
        if shape_name != 'ndim 0':
            assert r == 'ValueError', f'{KEY} :: MolGrid.{ctor} with atcoords of {shape_name}: {r} instead of ValueError'
    assert outcome(lambda: mk(atn, co)) == 'ok', f'{KEY} :: MolGrid.{ctor} rejects {n} atoms with {n} centres'
    for dn in (-1, 1):
        z2 = np.array((P['atnums'] + [1])[: n + dn])
        if len(z2) == 0: continue
        r = outcome(lambda: mk(z2, co))
        assert r == 'ValueError', f'{KEY} :: MolGrid.{ctor} with {len(z2)} atomic numbers and {n} centres gives {r} instead of ValueError'
# aim weights array one short / exact / one long; get_atomic_grid at -1, 0, n-1, n
ats = [AtomGrid(R0, degrees=[3], center=c) for c in co]; size = sum(g.size for g in ats)
for dn, want in ((-1, 'ValueError'), (0, 'ok'), (1, 'ValueError')):
    r = outcome(lambda: MolGrid(atn, ats, np.ones(size + dn)))
    assert r == want, f'{KEY} :: MolGrid(...) with an aim-weights array of size grid size{dn:+d} gives {r}, expected {want}'
for store in (True, False):
    m = MolGrid(atn, ats, np.ones(size), store=store)
    for k, want in ((-1, 'ValueError'), (0, 'ok'), (n - 1, 'ok'), (n, 'IndexError')):
        r = outcome(lambda: m.get_atomic_grid(k))
        assert r == want, f'{KEY} :: get_atomic_grid({k}) with {n} atoms (store={store}) gives {r}, expected {want}'
    for dn, want in ((-1, 'ValueError'), (0, 'ok'), (1, 'ValueError')):
        r = outcome(lambda: m.integrate(np.ones(size + dn)))
        assert r == want, f'{KEY} :: integrate of an array of size grid size{dn:+d} gives {r}, expected {want}'
# the default radial grid exists exactly for the table's atomic numbers
from grid.utils import _DEFAULT_POWER_RTRANSFORM_PARAMS as TABLE
for z in (0, 1, 57, 58, 71, 72, 82, 83):
    r = outcome(lambda: MolGrid.from_size(np.array([z]), np.zeros((1, 3)), 6))
    assert (r == 'ok') == (z in TABLE) and r in ('ok', 'ValueError'), f'{KEY} :: MolGrid.from_size([{z}], rgrid=None) gives {r}; the default radial grid table ' + ('has' if z in TABLE else 'does not have') + ' this element'
"""



# -- oracle_at for a correspondence disagreement of the interpolate ops: the sum-over-atoms clause at that input ------------------------
INTERP_AT_BODY = r"""
KEY = P['key']
class Atom:
    # a duck-typed atomic grid whose interpolant is linear in the values it is given
    def __init__(self, p, w, c):
        self.points = np.array(p, dtype=float).reshape(-1, 3); self.weights = np.array(w, dtype=float); self.center = np.array(c, dtype=float)
        self.size = self.weights.size
    def interpolate(self, vals):
        vals = np.array(vals, dtype=float)
        def low(points, deriv=0, deriv_spherical=False, only_radial_derivs=False):
            s = float(np.dot(vals, self.weights)) * (1 + deriv) + (2.0 if deriv_spherical else 0.0) + (4.0 if only_radial_derivs else 0.0)
            return s + np.asarray(points, dtype=float) @ self.center
        return low
ats = [Atom(*g) for g in P['grids']]
atn = np.array(P['atnums']); n = len(ats); size = sum(a.size for a in ats)
A = np.array(P['aim'], dtype=float); f = np.array(P['f'], dtype=float); pts = np.array(P['points'], dtype=float).reshape(-1, 3)
m = MolGrid(atn, ats, A.copy(), store=True)
ind = [int(x) for x in m.indices]
I = m.interpolate(f)
for args in ([], [0], [1], [1, True], [2, False, True], P['args']):
    got = I(pts, *args)
    want = sum(ats[k].interpolate((A * f)[ind[k]:ind[k + 1]])(pts, *args) for k in range(n))
    assert np.shape(got) == np.shape(want) and np.allclose(got, want, rtol=1e-12, atol=1e-12 * (1 + float(np.max(np.abs(want), initial=0.0)))), (
        f'{KEY} :: MolGrid.interpolate(f)(points, *{args}) on {n} atoms with {[a.size for a in ats]} points is not the sum over the atoms of '
        f'atom.interpolate((aim_weights * f)[segment])(points, *{args}): {np.asarray(got).tolist()[:4]} vs {np.asarray(want).tolist()[:4]}')
"""


def oracle_at_interp(ctx: Ctx, w):
    sizes = w.get("sizes") or []
    aim = w.get("aim_values")
    f = w.get("f") or []
    size = sum(sizes)
    if not (w.get("store") and aim is not None and len(aim) == size and len(f) == size and size > 0):
        ctx.info("oracle_at: the interpolate correspondence disagreed on an input outside the clause (no stored grids, or values / aim weights "
                 f"not of the grid's size: sizes {sizes}, len f {len(f)}); no property evaluation there")
        return
    P = dict(key="molgrid.MolGrid.interpolate:sum-over-atoms", grids=w["grids"], atnums=w["atnums"], aim=aim, f=f, points=w["points"],
             args=[int(w["args"][0])] + [bool(x) for x in w["args"][1:]] if w.get("args") else [])
    _run(ctx, INTERP_AT_BODY, P, "oracle-at:interpolate")


def _mol_params(ctx, n=None, degs=(3, 5, 7)):
    base = _base()
    rng = ctx.rng
    n = n or rng.choice([2, 2, 3])
    return dict(atnums=[rng.choice(base.ELEMENTS) for _ in range(n)], coords=base._lattice_mol(ctx, n),
                nrad=[rng.choice([3, 4, 5]) for _ in range(n)], degs=[rng.choice(list(degs)) for _ in range(n)],
                rots=[rng.choice([0, 37, rng.randrange(10 ** 6)]) for _ in range(n)], seed=rng.randrange(2 ** 31))


def _run(ctx, body, P, tag, nontrivial=True):
    base = _base()
    saved = base.KINDS_PRELUDE
    try:
        base.KINDS_PRELUDE = saved + EXT_PRELUDE
        return base._run_snippet(ctx, body, P, tag, nontrivial=nontrivial)
    finally:
        base.KINDS_PRELUDE = saved


def oracle_pairs(ctx: Ctx, budget):
    rng = ctx.rng
    large = budget == "large" or ctx.thorough
    for rep in range(6 if large else 3):
        P = _mol_params(ctx)
        n = len(P["atnums"])
        P.update(key="molgrid.MolGrid:accessors", aim=["array", "becke"][rep % 2], index=rng.randrange(n),
                 lgs=[[rng.randrange(n), rng.choice([0.8, 1.5, 2.5])], [rng.randrange(n), rng.choice([0.4, 1.1, 3.0])]],
                 order=[rng.randrange(64) for _ in range(14)])
        _run(ctx, PAIRS_BODY, P, f"oracle:accessor-pairs:{P['aim']}")


def oracle_handout(ctx: Ctx, budget):
    rng = ctx.rng
    large = budget == "large" or ctx.thorough
    seen = {}
    for rep in range(6 if large else 3):
        P = _mol_params(ctx)
        n = len(P["atnums"])
        P.update(key="molgrid.MolGrid:handed-out", aim=["array", "becke"][rep % 2], lg=[rng.randrange(n), rng.choice([0.8, 1.5, 2.5])])
        ns = _run(ctx, HANDOUT_BODY, P, f"oracle:handed-out:{P['aim']}")
        if ns is not None:
            for k, v in ns.get("ALIAS", {}).items():
                seen.setdefault(k, set()).add(v)
    table = {k: sorted(v)[0] if len(v) == 1 else "varies" for k, v in sorted(seen.items())}
    ctx.extra["handed_out_alias_table"] = {
        "label": "which handed-out arrays are views of / identical with arrays of the molecular grid or of the caller (observed, pinned tree; "
                 "asserted: setter use and in-place use of stored grids never change the molecular grid; views with store=False are reported, not asserted)",
        "table": table}
    views = [k for k, v in table.items() if v is True and ("store=False" in k and "view" in k)]
    if views:
        ctx.info("class 9 (observed, not asserted): with store=False the LocalGrid handed out by get_atomic_grid / __getitem__ holds *views* of the "
                 "molecular arrays (points[a:b], _atweights[a:b] / weights[a:b]); an in-place edit by the caller changes the molecular grid, whereas with "
                 "store=True the handed-out object is the caller's own AtomGrid and the molecular arrays are copies: " + ", ".join(views))


def _extreme_elements():
    utils = importlib.import_module("grid.utils")
    table = utils._DEFAULT_POWER_RTRANSFORM_PARAMS
    zs = sorted(table)
    crit = {
        "rmin": lambda z: table[z][0], "rmax": lambda z: table[z][1], "npt": lambda z: table[z][2],
        "ratio": lambda z: table[z][1] / table[z][0],
        "power": lambda z: math.log(table[z][1] / table[z][0]) / math.log(table[z][2]),
    }
    out = {}
    for nm, fn in crit.items():
        order = sorted(zs, key=fn)
        for z in order[:3]:
            out.setdefault(z, []).append(("min " if z == order[0] else "low ") + nm)
        for z in order[-3:]:
            out.setdefault(z, []).append(("max " if z == order[-1] else "high ") + nm)
    for z in (zs[0], zs[-1]) + tuple(z for z in zs if z + 1 not in table or z - 1 not in table):
        out.setdefault(z, []).append("edge of the table")
    return table, out


def oracle_extreme(ctx: Ctx, budget):
    """class 12: one-atom molecules and molecules of the elements whose default-radial-grid entry is extreme / at the edge of the table"""
    base = _base()
    rng = ctx.rng
    large = budget == "large" or ctx.thorough
    table, ext = _extreme_elements()
    zs = sorted(ext)
    ctx.extra["extreme_default_rgrid_elements"] = {str(z): why for z, why in sorted(ext.items())}
    todo = [[z] for z in zs]                                   # every one as a one-atom molecule
    for _ in range(len(zs) if large else 4):
        todo.append(rng.sample(zs, 2))
    todo.append([35, 34])
    for zl in todo:
        n = len(zl)
        ctors = ["from_preset", "from_size", "from_pruned"] if large else [rng.choice(["from_preset", "from_size", "from_pruned"])]
        if n == 1 and not large and zl[0] in (34, 35):
            ctors = ["from_preset", "from_size", "from_pruned"]
        P = dict(key="molgrid.MolGrid:default-rgrid:extreme-Z", atnums=zl, coords=base._lattice_mol(ctx, n, dmin=2.0) if n > 1 else [rng.choice([[0.0, 0.0, 0.0], [0.5, -1.25, 2.0]])],
                 rows={str(z): list(table[z]) for z in set(zl)}, rotate=rng.choice([0, 37]), preset="coarse", ctors=ctors)
        _run(ctx, EXTREME_BODY, P, f"oracle:extreme-Z:{'one-atom' if n == 1 else 'pair'}", nontrivial=True)


def oracle_special(ctx: Ctx, budget):
    """classes 12 and 8: zero radius / single shell / tiny / huge radial grids, an atom on a grid point of another, centres far away,
    aim weights and integrands over 24 orders of magnitude (results relative to their scale)"""
    rng = ctx.rng
    large = budget == "large" or ctx.thorough
    kinds = ["zero-radius", "one-shell", "tiny", "huge", "plain"]
    for rep in range(30 if large else 10):
        n = rng.choice([1, 2, 2, 3])
        base = _base()
        far = rng.choice([0.0, 0.0, 2.0 ** 10, 2.0 ** 20])
        co = [[x + far for x in c] for c in base._lattice_mol(ctx, n, dmin=1.5)]
        if rep % 3 == 0:
            co[0] = [0.0, 0.0, 0.0]
        P = dict(key="molgrid.MolGrid:special-points", atnums=[rng.choice(base.ELEMENTS) for _ in range(n)], coords=co,
                 rkinds=[kinds[(rep + i) % len(kinds)] for i in range(n)], degs=[rng.choice([3, 5]) for _ in range(n)],
                 rots=[rng.choice([0, 37]) for _ in range(n)], on_point=rng.choice([0, 0, 1, 7]) if far == 0.0 else 0,
                 aim=rng.choice(["array", "array", "becke"]), scale=rng.choice([1.0, 1e-12, 1e12, 1e-300]),
                 amps=[1.0, 1e-12, 1e12, 1e-300, 1e150], seed=rng.randrange(2 ** 31))
        if P["aim"] == "becke" and any(k in ("tiny",) for k in P["rkinds"]) and n > 1:
            P["aim"] = "array"      # points of several atoms within 1e-12 of a nucleus: C06's subject
        _run(ctx, SPECIAL_BODY, P, f"oracle:special:{P['aim']}:{'far' if far else 'near'}", nontrivial=n >= 2)


def oracle_translate(ctx: Ctx, budget):
    rng = ctx.rng
    large = budget == "large" or ctx.thorough
    base = _base()
    for rep in range(18 if large else 6):
        n = rng.choice([1, 2, 3])
        k = rng.choice([10, 15, 20])
        P = dict(key="molgrid.MolGrid:translation", atnums=[rng.choice(base.ELEMENTS) for _ in range(n)], coords=base._lattice_mol(ctx, n),
                 shift=[rng.choice([-1.0, 1.0]) * 2.0 ** k, rng.choice([0.0, 2.0 ** (k - 3)]), -(2.0 ** k)], nrad=rng.choice([4, 5]),
                 rotate=rng.choice([0, 37]), ctor=["from_preset", "from_size", "from_pruned"][rep % 3])
        _run(ctx, TRANSLATE_BODY, P, f"oracle:translation:{P['ctor']}:2^{k}", nontrivial=n >= 2)


def oracle_interp(ctx: Ctx, budget):
    rng = ctx.rng
    large = budget == "large" or ctx.thorough
    for rep in range(10 if large else 4):
        P = _mol_params(ctx, degs=(5, 7))
        P["nrad"] = [rng.choice([5, 6]) for _ in P["atnums"]]
        calls = [[], [0], [1], [1, True], [1, False, True], [2, False, True], [1, True, True]]
        P.update(key="molgrid.MolGrid.interpolate:sum-over-atoms", aim=["becke", "array"][rep % 2], npts=rng.choice([1, 2, 3, 4, 9]),
                 amp=rng.choice([1.0, 1e-12, 1e12]), calls=[calls[0]] + rng.sample(calls[1:], 3 if not large else 6))
        _run(ctx, INTERP_BODY, P, f"oracle:interpolate:{P['aim']}")


def oracle_guards(ctx: Ctx, budget):
    base = _base()
    for n in (1, 2, 3) if (budget == "large" or ctx.thorough) else (ctx.rng.choice([1, 2, 3]),):
        P = dict(key="molgrid.MolGrid:guards", n=n, atnums=[ctx.rng.choice(base.ELEMENTS) for _ in range(n)], coords=base._lattice_mol(ctx, n))
        _run(ctx, GUARDS_BODY, P, "oracle:guards", nontrivial=False)


ORACLE_PARTS = [("accessor-pairs", oracle_pairs), ("handed-out", oracle_handout), ("extreme-Z", oracle_extreme), ("special-points", oracle_special),
                ("translation", oracle_translate), ("interpolate", oracle_interp), ("guards", oracle_guards)]


def oracle(ctx: Ctx, budget):
    for _, fn in ORACLE_PARTS:
        fn(ctx, budget)


def corr(ctx: Ctx, mg, ag, bk, od):
    corr_interp(ctx, mg)
    corr_defaults(ctx, mg, ag, bk, od)
    corr_default_rgrid(ctx, mg)

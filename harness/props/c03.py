"""C03 — radial transforms are analytically self-consistent for all parameters."""
import importlib
import math

import numpy as np

from ..common import Ctx, b2f, close, driver_batch, f2b, fvec

LEVEL = "proof"
LEVEL_TEXT = (
    "Lean theorems over the reals, for all admissible parameters (real exponents k, m) and all interior points, about "
    "definitions that are regenerated from rtransform.py on every run (Python AST -> Gen/RTransform.lean): for each of the "
    "11 concrete classes HasDerivAt transform (deriv x) x, HasDerivAt deriv (deriv2 x) x, HasDerivAt deriv2 (deriv3 x) x "
    "(33 identities), both round trips, sign of deriv => strict monotonicity, reference end points (values, and growth "
    "beyond every bound at infinite ends), and the inverse-function derivative package g'=1/d1, g''=-d2/d1^3, "
    "g'''=(3 d2^2-d1 d3)/d1^5 instantiated for BaseTransform.deriv*_inverse and InverseRTransform.deriv*; _convert_inf on "
    "any carrier with infinity tests. Where the constructor admits parameters for which a clause is false the extra "
    "hypothesis is explicit (R>0, b>0, ExpRTransform rmin>0, LinearFinite rmin<rmax, HandyMod 2^m-1<rmax-rmin). "
    "Tie to the code: translator + correspondence of every generated definition at Float with the method it came from."
)
TECHNIQUE = ("Lean 4 / Mathlib proof (HasDerivAt combinators, inverse-function theorem, mean-value monotonicity) over "
             "definitions translated from the Python AST + differential run of the generated definitions + mpmath oracle "
             "that executes the implementation itself in 40-digit arithmetic")
GEN = ["rtransform"]

CLASSES = ["BeckeRTransform", "LinearFiniteRTransform", "IdentityRTransform", "LinearInfiniteRTransform",
           "ExpRTransform", "PowerRTransform", "HyperbolicRTransform", "MultiExpRTransform", "KnowlesRTransform",
           "HandyRTransform", "HandyModRTransform"]
LEAN_MODULES = [f"GridVerif.Props.C03.{c}" for c in CLASSES] + [
    "GridVerif.Props.C03.InverseRTransform", "GridVerif.Props.C03.ConvertInf"]

_COMMON = ["hasDerivAt_transform", "hasDerivAt_deriv", "hasDerivAt_deriv2", "inverse_transform", "transform_inverse",
           "localInverseAt", "inverse_derivs"]
_EXTRA = {
    "BeckeRTransform": ["inverse_mem", "deriv_pos", "strictMonoOn_transform", "transform_domain_lo", "tendsto_transform_domain_hi"],
    "LinearFiniteRTransform": ["inverse_mem", "deriv_pos", "strictMonoOn_transform", "transform_domain_lo", "transform_domain_hi",
                               "scalar_branch_eq"],
    "IdentityRTransform": ["deriv_pos", "strictMonoOn_transform", "transform_domain_lo", "tendsto_transform_domain_hi",
                           "scalar_branch_eq"],
    "LinearInfiniteRTransform": ["deriv_pos", "strictMonoOn_transform", "transform_domain_lo", "transform_b", "scalar_branch_eq"],
    "ExpRTransform": ["deriv_pos", "strictMonoOn_transform", "transform_domain_lo", "transform_b"],
    "PowerRTransform": ["deriv_pos", "strictMonoOn_transform", "transform_domain_lo", "transform_b"],
    "HyperbolicRTransform": ["inverse_mem", "deriv_pos", "strictMonoOn_transform", "transform_domain_lo", "tendsto_transform_pole",
                             "below_pole_of_not_raises", "scalar_not_raises"],
    "MultiExpRTransform": ["inverse_mem", "deriv_neg", "strictAntiOn_transform", "transform_domain_hi", "tendsto_transform_domain_lo"],
    "KnowlesRTransform": ["inverse_mem", "deriv_pos", "strictMonoOn_transform", "transform_domain_lo", "tendsto_transform_domain_hi",
                          "transform_apply"],
    "HandyRTransform": ["inverse_mem", "deriv_pos", "strictMonoOn_transform", "transform_domain_lo", "tendsto_transform_domain_hi"],
    "HandyModRTransform": ["inverse_mem", "deriv_pos", "strictMonoOn_transform", "transform_domain_lo", "transform_domain_hi",
                           "hasDerivAt_transform_of_ne", "hasDerivAt_deriv_of_ne", "hasDerivAt_deriv2_of_ne"],
}
THEOREMS = [f"GridVerif.C03.{c}.{t}" for c in CLASSES for t in _COMMON + _EXTRA[c]] + [
    f"GridVerif.C03.InverseRTransform.{t}" for t in
    ["methods", "deriv_raises_iff", "hasDerivAt_transform", "hasDerivAt_deriv", "hasDerivAt_deriv2", "inverse_transform",
     "transform_inverse", "inverse_derivs_of_wrapper", "strictMonoOn_transform", "strictAntiOn_transform"]] + [
    f"GridVerif.C03.ConvertInf.{t}" for t in
    ["convert_inf_finite", "convert_inf_posInf", "convert_inf_negInf", "convert_inf_scalar_spec", "convert_inf_default",
     "convert_inf_real", "convert_inf_spec"]] + [
    "GridVerif.C03.deriv_inverse_package", "GridVerif.C03.inverse_hasDerivAt₁", "GridVerif.C03.inverse_hasDerivAt₂",
    "GridVerif.C03.inverse_hasDerivAt₃"]

RULE = (
    "correspondence: every generated definition (11 classes x transform/inverse/deriv/deriv2/deriv3/deriv_inverse/"
    "deriv2_inverse/deriv3_inverse, the same 8 methods of InverseRTransform(class), scalar branches, _convert_inf, "
    "constructor guards, size guards, ZeroDivisionError guards) evaluated at Float by the driver and by the implementation on "
    "random admissible parameters (integer and non-integer exponents in [0.5, 6], trim on/off, b given or inferred), arrays "
    "of 1-4 interior points plus the reference end points, Python-float / np.float64 / array arguments; one evaluation = one "
    "(class, method, parameters, point); non-trivial = exponent non-integer or >= 3, or trim branch taken (result +-1e16), "
    "or an end point, or an inferred b, or a raise, or (classes without exponent) an array of >= 2 interior points with "
    "random parameters"
)
TRUSTED_BASE = [
    "Lean 4.33 kernel; Mathlib; axioms propext, Classical.choice, Quot.sound only (audited per theorem)",
    "translator harness/translate/rtransform.py (Python AST -> Lean text); self-checked by the correspondence of every generated definition",
    "Elem/HasInf instances at ℝ (Lemmas/ElemReal.lean, Lemmas/RTransform.lean): which real function each numpy name denotes; no real is infinite",
    "statements in Props/C03/*.lean and their reading of the property (interior = open interval between the generated domain ends; "
    "HyperbolicRTransform on its domain of use (0, 1/b); b-scaled maps: reference points 0 and b)",
    "Lean compiler/runtime for the Float instance (driver), libm pow/log/exp vs numpy's (tolerance 1e-10 relative)",
]
ASSUMPTIONS = [
    "IEEE rounding is not modelled: equalities are over ℝ, the correspondence uses rtol 1e-10 (conditioning-limited points near the ends excluded)",
    "the state machine of the inferred scale b (set once from the first array) belongs to C19; here b is a parameter once set",
    "array semantics of numpy (element-wise arithmetic, np.any over elements) as modelled element-wise",
]

METHODS = ["transform", "inverse", "deriv", "deriv2", "deriv3", "deriv_inverse", "deriv2_inverse", "deriv3_inverse"]
FWD = {"transform", "deriv", "deriv2", "deriv3"}
HAS_TRIM = {"BeckeRTransform", "MultiExpRTransform", "KnowlesRTransform", "HandyRTransform", "HandyModRTransform"}
B_SCALED = {"LinearInfiniteRTransform", "ExpRTransform", "PowerRTransform"}
FINITE_DOMAIN = {"BeckeRTransform", "LinearFiniteRTransform", "MultiExpRTransform", "KnowlesRTransform", "HandyRTransform",
                 "HandyModRTransform"}


def rt():
    return importlib.import_module("grid.rtransform")


# ----------------------------------------------------------------------------
# parameter generation
# ----------------------------------------------------------------------------
def _expo(rng):
    """integer (Python int) or non-integer exponent in [0.5, 6]"""
    u = rng.random()
    if u < 0.4:
        return rng.choice([1, 2, 3, 4, 5, 6])
    if u < 0.5:
        return float(rng.choice([1, 2, 3, 4, 5, 6]))
    return round(rng.uniform(0.5, 6.0), rng.choice([1, 2, 6]))


def gen_params(cls, rng):
    """-> (positional numeric parameters as given to the constructor, trim flag or None)"""
    rmin = rng.choice([0.0, 1e-3, 0.1, round(rng.uniform(0.0, 2.0), 3)])
    R = rng.choice([0.5, 1.0, 1.5, round(rng.uniform(0.1, 5.0), 3)])
    trim = rng.random() < 0.6
    if cls in ("BeckeRTransform", "MultiExpRTransform"):
        return [rmin, R], trim
    if cls == "LinearFiniteRTransform":
        return [rmin, rmin + round(rng.uniform(0.5, 20.0), 3)], None
    if cls == "IdentityRTransform":
        return [], None
    if cls in B_SCALED:
        if cls != "LinearInfiniteRTransform" and rmin == 0.0:
            rmin = 1e-2
        return [rmin, rmin + round(rng.uniform(0.5, 20.0), 3), rng.choice([1.0, 10.0, round(rng.uniform(0.5, 50.0), 2)])], None
    if cls == "HyperbolicRTransform":
        return [round(rng.uniform(0.1, 5.0), 3), rng.choice([1e-3, 0.01, 0.05, round(rng.uniform(1e-3, 0.1), 4)])], None
    if cls in ("KnowlesRTransform", "HandyRTransform"):
        return [rmin, R, _expo(rng)], trim
    if cls == "HandyModRTransform":
        m = _expo(rng)
        gap = 2.0 ** m - 1
        return [rmin, rmin + gap + round(rng.uniform(0.2, 30.0), 3), m], trim
    raise KeyError(cls)


def construct(cls, ps, trim, b_none=False):
    C = getattr(rt(), cls)
    args = list(ps)
    if b_none:
        args = args[:2]
    if cls in HAS_TRIM:
        return C(*args, trim_inf=bool(trim))
    return C(*args)


def interior_points(cls, ps, rng, n):
    if cls in FINITE_DOMAIN:
        return [rng.choice([0.0, 0.5, -0.5, round(rng.uniform(-0.99, 0.99), 3), rng.uniform(-0.999, 0.999)]) for _ in range(n)]
    if cls == "HyperbolicRTransform":
        top = 0.98 / ps[1]
        return [rng.uniform(0.0, 1.0) * top for _ in range(n)]
    if cls in B_SCALED:
        return [rng.uniform(0.01, 2.0) * ps[2] for _ in range(n)]
    return [rng.uniform(0.01, 30.0) for _ in range(n)]


def end_points(cls, ps):
    if cls in FINITE_DOMAIN:
        return [-1.0, 1.0]
    if cls in B_SCALED:
        return [0.0, float(ps[2])]
    return [0.0]


def exponent_of(cls, ps):
    if cls in ("KnowlesRTransform", "HandyRTransform", "HandyModRTransform"):
        return float(ps[2])
    if cls == "PowerRTransform":
        return (math.log(ps[1]) - math.log(ps[0])) / math.log(ps[2] + 1)
    return None


def _impl_call(T, meth, arg):
    """-> ('ok', values) | (error tag, None)"""
    try:
        v = getattr(T, meth)(arg)
    except ValueError:
        return "value-error", None
    except ZeroDivisionError:
        return "zero-division-error", None
    except TypeError:
        return "type-error", None
    return "ok", v


def _vals(v):
    return [float(u) for u in np.atleast_1d(np.asarray(v, dtype=float)).ravel()]


def _line(op, cls, meth, trim, size, ps, x):
    return f"C03.{op} {cls} {meth} {1 if trim else 0} {size} {fvec([float(p) for p in ps])} {f2b(x)}"


# ----------------------------------------------------------------------------
# correspondence
# ----------------------------------------------------------------------------
def corr(ctx: Ctx):
    rng = ctx.rng
    mod = rt()
    nsets = ctx.n(180, 4500)
    cases = []      # (op, cls, ps, trim, meth, xs, impl-result, flags)
    for cls in CLASSES:
        for i in range(nsets):
            ps, trim = gen_params(cls, rng)
            T = construct(cls, ps, trim)
            npts = rng.choice([1, 2, 3, 4])
            xs = interior_points(cls, ps, rng, npts)
            use_ends = rng.random() < 0.25
            if use_ends:
                xs = xs + end_points(cls, ps)
            wrap = rng.random() < 0.3
            TT = mod.InverseRTransform(T) if wrap else T
            # arguments in the codomain: images of the interior points (computed by the implementation)
            with np.errstate(all="ignore"):
                rs = _vals(T.transform(np.array(xs)))
            for meth in METHODS:
                fwd = (meth in FWD) != wrap
                arg = xs if fwd else rs
                with np.errstate(all="ignore"):
                    tag, v = _impl_call(TT, meth, np.array(arg, dtype=float))
                cases.append(("evalinv" if wrap else "eval", cls, ps, trim, meth, arg, (tag, None if v is None else _vals(v)),
                              dict(ends=use_ends, nint=npts)))
            # scalar arguments (np.float64 and Python float) must be accepted and agree with the array branch
            meth = rng.choice(METHODS)
            fwd = (meth in FWD) != wrap
            a0 = (xs if fwd else rs)[0]
            with np.errstate(all="ignore"):
                ta, va = _impl_call(TT, meth, np.array([a0]))
                for kind, sc in (("np.float64", np.float64(a0)), ("float", float(a0))):
                    try:
                        ts, vs = _impl_call(TT, meth, sc)
                    except Exception as e:  # noqa: BLE001 - a valid scalar argument must be accepted
                        ts, vs = type(e).__name__, None
                    ctx.count([cls, meth, ps, trim, kind, a0], nontrivial=False, tag="scalar-vs-array")
                    if ts != ta or (ta == "ok" and not close(_vals(vs)[0], _vals(va)[0], rtol=1e-12, atol=1e-13)):
                        ctx.fail("corr", f"scalar:{cls}.{meth}", f"{cls}{tuple(ps)}.{meth}: {kind} argument {a0!r} gives "
                                 f"{ts} {None if vs is None else _vals(vs)}, one-element array gives {ta} {None if va is None else _vals(va)}",
                                 witness={"class": cls, "params": ps, "trim": trim, "method": meth, "x": a0})
    # one driver batch
    lines, index = [], []
    for ci, (op, cls, ps, trim, meth, arg, res, fl) in enumerate(cases):
        for x in arg:
            lines.append(_line(op, cls, meth, trim, len(arg), ps, x))
            index.append(ci)
    answers = driver_batch(lines)
    per_case = {}
    for ci, a in zip(index, answers):
        per_case.setdefault(ci, []).append(a)
    for ci, (op, cls, ps, trim, meth, arg, (tag, vals), fl) in enumerate(cases):
        ans = per_case[ci]
        e = exponent_of(cls, ps)
        for j, (x, a) in enumerate(zip(arg, ans)):
            is_end = fl["ends"] and j >= fl["nint"]
            toks = a.split()
            mval = b2f(toks[1]) if toks[0] == "ok" and len(toks) == 2 else None
            trimmed = mval is not None and abs(mval) == 1e16
            nontriv = bool((e is not None and (e != int(e) or e >= 3)) or is_end or trimmed
                           or (e is None and fl["nint"] >= 2 and cls != "IdentityRTransform"))
            ctx.count([op, cls, meth, [float(p) for p in ps], trim, x], nontrivial=nontriv,
                      tag=f"{cls}:{'inv:' if op == 'evalinv' else ''}{'end' if is_end else 'int'}")
            # conditioning: pow of two libraries may differ by an ulp, which decides inf/nan/finite exactly at a pole
            exact_end = cls == "KnowlesRTransform" and meth == ("inverse" if op == "evalinv" else "transform")
            if is_end and cls in ("KnowlesRTransform", "HandyModRTransform", "HandyRTransform") and e != int(e) and not exact_end:
                ctx.tagc("end-point-noninteger-exponent-not-compared")
                continue
            if tag == "zero-division-error":
                # np.any(d1 == 0): the call raises as soon as one element has a vanishing first derivative
                ok = tag in ans
                iv = tag
            elif tag != "ok":
                ok = a == tag
                iv = tag
            else:
                iv = vals[j]
                # values in the x-domain (`inverse`) come out of a cancellation of O(1) terms
                atol = 1e-12 if meth == ("transform" if op == "evalinv" else "inverse") else 0.0
                ok = mval is not None and (close(iv, mval, rtol=1e-10, atol=atol) or (is_end and _both_huge(iv, mval)))
            if not ok and tag == "ok" and mval is not None and not is_end:
                ok = _within_rounding_noise(ctx, mod, op, cls, ps, trim, meth, x, iv, mval)
            if not ok:
                ctx.fail("corr", f"{op}:{cls}.{meth}", f"{'InverseRTransform of ' if op == 'evalinv' else ''}{cls}{tuple(ps)} trim={trim} "
                         f"{meth}({x!r}) [array of {len(arg)}]: implementation {iv!r}, generated model {a if mval is None else mval!r}",
                         witness={"class": cls, "params": ps, "trim": trim, "method": meth, "x": x, "wrapped": op == "evalinv",
                                  "impl": iv, "model": a if mval is None else mval})
    _corr_guards(ctx, mod)
    _corr_scalar_and_convinf(ctx, mod)
    _corr_inferred_b(ctx, mod)


def _within_rounding_noise(ctx, mod, op, cls, ps, trim, meth, x, iv, mval):
    """A disagreement beyond rtol at an ill-conditioned point (e.g. `1 - exp(-1e-8)`): measure the rounding noise of the
    implementation itself there, by running the same implementation code in 40-digit arithmetic, and accept the model
    value if it is within 100x that noise.  A changed coefficient moves the value by far more than the noise."""
    try:
        T = construct_hp(cls, ps, trim)
        if op == "evalinv":
            T = mod.InverseRTransform(T)
        with np.errstate(all="ignore"):
            ref = hp_call(T, meth, x)
    except Exception:  # noqa: BLE001
        return False
    if not mpmath.isfinite(ref) or ref == 0:
        return False
    noise = abs((mpmath.mpf(iv) - ref) / ref)
    ctx.tagc("conditioning-fallback")
    return bool(noise < 1e-5 and abs((mpmath.mpf(mval) - ref) / ref) <= max(mpmath.mpf(1e-10), 100 * noise))


def _both_huge(a, b):
    """at a pole the last bits decide between inf, 1e16 and a huge finite number"""
    def huge(v):
        return v != v or abs(v) >= 1e15
    return huge(a) and huge(b)


def _corr_guards(ctx, mod):
    """constructor guards, size guard of HyperbolicRTransform, ZeroDivisionError guards"""
    rng = ctx.rng
    lines, want, info = [], [], []
    pool = [-1.0, 0.0, 1e-3, 0.5, 1.0, 2.0, 3.5, -0.5]
    for cls in CLASSES:
        if cls == "IdentityRTransform":
            continue
        arity = {"BeckeRTransform": 2, "LinearFiniteRTransform": 2, "MultiExpRTransform": 2, "HyperbolicRTransform": 2}.get(cls, 3)
        for _ in range(ctx.n(40, 400)):
            ps = [rng.choice(pool) for _ in range(arity)]
            try:
                construct(cls, ps, True)
                w = "ok 1"
            except ValueError:
                w = "ok 0"
            lines.append(f"C03.admissible {cls} 1 {fvec(ps)}")
            want.append(w)
            info.append((cls, ps))
    ans = driver_batch(lines)
    for a, w, (cls, ps) in zip(ans, want, info):
        ctx.count(["admissible", cls, ps], nontrivial=(w == "ok 0"), tag="guard:" + ("accept" if w == "ok 1" else "reject"))
        if a != w:
            ctx.fail("corr", f"admissible:{cls}", f"{cls}{tuple(ps)}: constructor {'accepts' if w == 'ok 1' else 'raises ValueError'}, "
                     f"generated Admissible says {a}", witness={"class": cls, "params": ps})
    # size guard
    lines, want, info = [], [], []
    for _ in range(ctx.n(30, 300)):
        a_, b_ = round(rng.uniform(0.1, 3.0), 3), rng.choice([0.01, 0.05, 0.1, 0.25, 1.0 / 3, 0.5])
        n = rng.randrange(1, 14)
        T = mod.HyperbolicRTransform(a_, b_)
        meth = rng.choice(METHODS)
        xs = np.arange(n, dtype=float)
        with np.errstate(all="ignore"):
            tag, v = _impl_call(T, meth, xs)
        j = rng.randrange(n)
        lines.append(_line("eval", "HyperbolicRTransform", meth, False, n, [a_, b_], float(xs[j])))
        want.append((tag, None if v is None else _vals(v)[j]))
        info.append((a_, b_, n, meth, j))
    for a, (tag, v), inf in zip(driver_batch(lines), want, info):
        ctx.count(["size-guard", inf], nontrivial=(tag != "ok"), tag="hyperbolic-size:" + tag)
        ok = (a == tag) if tag != "ok" else (a.startswith("ok ") and close(v, b2f(a.split()[1]), rtol=1e-10))
        if not ok:
            ctx.fail("corr", "eval:HyperbolicRTransform.size-guard", f"HyperbolicRTransform({inf[0]}, {inf[1]}).{inf[3]}(arange({inf[2]}))[{inf[4]}]: "
                     f"implementation {tag} {v!r}, model {a}", witness={"a": inf[0], "b": inf[1], "size": inf[2], "method": inf[3]})
    # ZeroDivisionError guards: first derivative identically zero
    zcases = [("LinearFiniteRTransform", [1.0, 1.0], None, 1.0), ("HandyModRTransform", [0.5, 0.5, 2], True, 0.5),
              ("BeckeRTransform", [0.1, 0.0], True, 0.1), ("HandyModRTransform", [0.0, 3.0, 2], False, 1.0)]
    lines, want, info = [], [], []
    for cls, ps, trim, r in zcases:
        T = construct(cls, ps, trim)
        for wrap in (False, True):
            TT = mod.InverseRTransform(T) if wrap else T
            for meth in (["deriv", "deriv2", "deriv3"] if wrap else ["deriv_inverse", "deriv2_inverse", "deriv3_inverse"]):
                with np.errstate(all="ignore"):
                    tag, v = _impl_call(TT, meth, np.array([r]))
                lines.append(_line("evalinv" if wrap else "eval", cls, meth, trim, 1, ps, r))
                want.append((tag, None if v is None else _vals(v)[0]))
                info.append((cls, ps, meth, wrap))
    for a, (tag, v), inf in zip(driver_batch(lines), want, info):
        ctx.count(["zero-division", inf], nontrivial=True, tag="zero-division:" + tag)
        good = (a == tag) if tag != "ok" else (a.startswith("ok ") and close(v, b2f(a.split()[1]), rtol=1e-10))
        if not good:
            ctx.fail("corr", f"eval:{inf[0]}.{inf[2]}:zero-division", f"{inf[0]}{tuple(inf[1])} {'wrapped ' if inf[3] else ''}{inf[2]}: "
                     f"implementation {tag}, model {a}", witness={"class": inf[0], "params": inf[1], "method": inf[2]})


def describe_scalar_classes():
    """classes whose deriv/deriv2/deriv3 have an `isinstance(x, Number)` branch in the source (from the translator)"""
    from ..translate import rtransform as tr
    d = tr.describe()
    return [c for c in CLASSES if {"deriv", "deriv2", "deriv3"} <= set(d[c]["scalar"])]


def _corr_scalar_and_convinf(ctx, mod):
    rng = ctx.rng
    # scalar-branch definitions of the model (LinearFinite, Identity)
    lines, want, info = [], [], []
    for cls in describe_scalar_classes():
        for _ in range(ctx.n(10, 100)):
            ps, _ = gen_params(cls, rng)
            T = construct(cls, ps, None)
            x = rng.uniform(-0.9, 0.9) if cls == "LinearFiniteRTransform" else rng.uniform(0.1, 9.0)
            for meth in ("deriv", "deriv2", "deriv3"):
                lines.append(f"C03.scalar {cls} {meth} 0 {fvec(ps)} {f2b(x)}")
                want.append((float(getattr(T, meth)(float(x))), float(np.asarray(getattr(T, meth)(np.array([x])))[0])))
                info.append((cls, ps, meth, x))
    for a, (ws, wa), inf in zip(driver_batch(lines), want, info):
        ctx.count(["scalar-branch", inf], nontrivial=False, tag="scalar-branch")
        if not (a.startswith("ok ") and close(ws, b2f(a.split()[1]), rtol=1e-13) and close(ws, wa, rtol=1e-13)):
            ctx.fail("corr", f"scalar:{inf[0]}.{inf[2]}", f"{inf[0]}{tuple(inf[1])}.{inf[2]}({inf[3]!r}): scalar branch {ws!r}, "
                     f"array branch {wa!r}, model scalar branch {a}", witness={"class": inf[0], "params": inf[1], "x": inf[3]})
    # _convert_inf, both branches, default and explicit replacement
    T = mod.BeckeRTransform(0.0, 1.0)
    vals = [1.5, -3.0, 0.0, float("inf"), float("-inf"), float("nan"), 1e16, -1e16, 1e300, rng.uniform(-5, 5)]
    lines, want = [], []
    for v in vals:
        for rep in (None, 7.5):
            arr = T._convert_inf(np.array([v])) if rep is None else T._convert_inf(np.array([v]), rep)
            sc = T._convert_inf(float(v)) if rep is None else T._convert_inf(float(v), rep)
            for br, w in (("array", float(arr[0])), ("scalar", float(sc))):
                lines.append(f"C03.convinf {br} {f2b(v)}" if rep is None else f"C03.convinf2 {br} {f2b(v)} {f2b(rep)}")
                want.append((v, rep, br, w))
    for a, (v, rep, br, w) in zip(driver_batch(lines), want):
        ctx.count(["convert_inf", br, v, rep], nontrivial=math.isinf(v), tag="convert_inf:" + br)
        if not (a.startswith("ok ") and close(w, b2f(a.split()[1]), rtol=0)):
            ctx.fail("corr", "convert_inf", f"_convert_inf({v!r}, {rep!r}) {br} branch: implementation {w!r}, model {a}",
                     witness={"value": v, "replace_inf": rep, "branch": br})


def _corr_inferred_b(ctx, mod):
    """b=None: the first array sets b = max(array); afterwards the object behaves as the model with that b."""
    rng = ctx.rng
    lines, want, info = [], [], []
    for cls in sorted(B_SCALED):
        for _ in range(ctx.n(12, 150)):
            ps, _ = gen_params(cls, rng)
            T = construct(cls, ps, None, b_none=True)
            first = np.array(sorted(rng.uniform(0.1, 40.0) for _ in range(rng.choice([2, 3, 5]))))
            m0 = rng.choice(["transform", "deriv", "inverse"])
            with np.errstate(all="ignore"):
                getattr(T, m0)(first)
            b = float(np.max(first))
            if T.b != b:
                ctx.fail("corr", f"inferred-b:{cls}", f"{cls}: b inferred as {T.b!r}, max of the first array is {b!r}")
            meth = rng.choice(METHODS)
            x = rng.uniform(0.05, 1.5) * b if meth in FWD else rng.uniform(ps[0] * 1.01, ps[1] * 1.5)
            with np.errstate(all="ignore"):
                tag, v = _impl_call(T, meth, np.array([x]))
            lines.append(_line("eval", cls, meth, False, 1, [ps[0], ps[1], b], x))
            want.append((tag, None if v is None else _vals(v)[0]))
            info.append((cls, ps[:2], b, meth, x))
    for a, (tag, v), inf in zip(driver_batch(lines), want, info):
        ctx.count(["inferred-b", inf], nontrivial=True, tag="inferred-b")
        ok = a == tag if tag != "ok" else (a.startswith("ok ") and close(v, b2f(a.split()[1]), rtol=1e-10))
        if not ok:
            ctx.fail("corr", f"eval:{inf[0]}.{inf[3]}:inferred-b", f"{inf[0]}{tuple(inf[1])} with inferred b={inf[2]!r}: {inf[3]}({inf[4]!r}) "
                     f"implementation {tag} {v!r}, model {a}", witness={"class": inf[0], "params": inf[1], "b": inf[2], "x": inf[4]})


# ----------------------------------------------------------------------------
# oracle: the implementation itself, executed in 40-digit arithmetic
# ----------------------------------------------------------------------------
HP_SRC = '''
import mpmath
mpmath.mp.dps = 40
class HP:
    """40-digit number that numpy's object-dtype ufuncs can drive (np.log -> .log(), ** -> __pow__ ...)."""
    __slots__ = ("v",)
    def __init__(s, v): s.v = v.v if isinstance(v, HP) else mpmath.mpf(v)
    @staticmethod
    def _c(o): return o.v if isinstance(o, HP) else mpmath.mpf(float(o)) if not isinstance(o, (int, mpmath.mpf)) else mpmath.mpf(o)
    def _arr(o): return hasattr(o, "__array__")          # let numpy broadcast: HP (op) ndarray
    def __add__(s, o): return NotImplemented if HP._arr(o) else HP(s.v + HP._c(o))
    __radd__ = __add__
    def __sub__(s, o): return NotImplemented if HP._arr(o) else HP(s.v - HP._c(o))
    def __rsub__(s, o): return HP(HP._c(o) - s.v)
    def __mul__(s, o): return NotImplemented if HP._arr(o) else HP(s.v * HP._c(o))
    __rmul__ = __mul__
    def __truediv__(s, o):
        if HP._arr(o): return NotImplemented
        d = HP._c(o)
        if d == 0:
            return HP(mpmath.nan if s.v == 0 else mpmath.inf * mpmath.sign(s.v) * (1 if not mpmath.isinf(d) else 1))
        return HP(s.v / d)
    def __rtruediv__(s, o):
        n = HP._c(o)
        if s.v == 0:
            return HP(mpmath.nan if n == 0 else mpmath.inf * mpmath.sign(n))
        return HP(n / s.v)
    def __pow__(s, o):
        if HP._arr(o): return NotImplemented
        e = HP._c(o)
        if s.v == 0:
            return HP(0 if e > 0 else (1 if e == 0 else mpmath.inf))
        if s.v < 0 and e != int(e):
            return HP(mpmath.nan)
        return HP(mpmath.power(s.v, e))
    def __rpow__(s, o): return HP(mpmath.power(HP._c(o), s.v))
    def __neg__(s): return HP(-s.v)
    def __pos__(s): return s
    def __abs__(s): return HP(abs(s.v))
    def __float__(s): return float(s.v)
    def __lt__(s, o): return s.v < HP._c(o)
    def __le__(s, o): return s.v <= HP._c(o)
    def __gt__(s, o): return s.v > HP._c(o)
    def __ge__(s, o): return s.v >= HP._c(o)
    def __eq__(s, o): return s.v == HP._c(o)
    def __ne__(s, o): return s.v != HP._c(o)
    def __hash__(s): return hash(s.v)
    def log(s): return HP(mpmath.log(s.v) if s.v > 0 else (-mpmath.inf if s.v == 0 else mpmath.nan))
    def exp(s): return HP(mpmath.exp(s.v))
    def sqrt(s): return HP(mpmath.sqrt(s.v))
    def __repr__(s): return "HP(%s)" % mpmath.nstr(s.v, 20)
def hp_arr(x):
    import numpy as np
    a = np.empty(1, dtype=object); a[0] = HP(x); return a
def hp_call(T, meth, x):
    """method `meth` of the transform object T (built with HP parameters) at the 40-digit point x -> mpf"""
    r = getattr(T, meth)(hp_arr(x))[0]
    return r.v if isinstance(r, HP) else mpmath.mpf(r)
'''
_ns = {}
exec(HP_SRC, _ns)
HP, hp_call = _ns["HP"], _ns["hp_call"]
mpmath = _ns["mpmath"]


def construct_hp(cls, ps, trim):
    C = getattr(rt(), cls)
    args = [HP(p) for p in ps]
    if cls in HAS_TRIM:
        return C(*args, trim_inf=bool(trim))
    return C(*args)


SNIPPET = HP_SRC + '''
import warnings; warnings.filterwarnings('ignore')
import numpy as np
from grid import rtransform as rt
cls, ps, trim, meth, x, order, base = {cls!r}, {ps!r}, {trim!r}, {meth!r}, {x!r}, {order}, {base!r}
C = getattr(rt, cls)
kw = dict(trim_inf=trim) if trim is not None else dict()
T = C(*[HP(p) for p in ps], **kw)          # the implementation, executed in 40-digit arithmetic
Tf = C(*ps, **kw)                          # the implementation in double precision
num = mpmath.diff(lambda y: hp_call(T, base, y), mpmath.mpf(x), order)     # numerical derivative of `base`
got = float(np.asarray(getattr(Tf, meth)(np.array([x])), dtype=float).ravel()[0])
assert abs(got - num) <= 1e-7 * max(abs(num), 1e-12), f'{{cls}}{{tuple(ps)}}.{{meth}}({{x}}) = {{got}}, numerical derivative of order {{order}} of {{base}} = {{mpmath.nstr(num, 15)}}'
'''

SNIPPET_END = '''import warnings; warnings.filterwarnings('ignore')
import numpy as np
from grid import rtransform as rt
cls, ps, trim, x, want = {cls!r}, {ps!r}, {trim!r}, {x!r}, float({want!r})
kw = dict(trim_inf=trim) if trim is not None else dict()
got = float(getattr(rt, cls)(*ps, **kw).transform(np.array([x]))[0])
assert got == want or abs(got - want) <= 1e-12 * max(1.0, abs(want)), f'{{cls}}{{tuple(ps)}} trim={{trim}}: transform({{x}}) = {{got}}, codomain end {{want}}'
'''

SNIPPET_SCALAR = '''import warnings; warnings.filterwarnings('ignore')
import numpy as np
from grid import rtransform as rt
cls, ps, meths, x = {cls!r}, {ps!r}, {meths!r}, {x!r}
T = getattr(rt, cls)(*ps)
bad = []
for m in meths:
    want = float(np.asarray(getattr(T, m)(np.array([x]))).ravel()[0])
    try:
        got = float(np.asarray(getattr(T, m)(x)).ravel()[0])
        if abs(got - want) > 1e-12 * max(1.0, abs(want)): bad.append((m, got, want))
    except Exception as e:
        bad.append((m, type(e).__name__))
assert not bad, f'{{cls}}{{tuple(ps)}} with the Python float {{x}}: {{bad}}'
'''


def _grid(cls, budget, rng):
    """parameter grid of the oracle"""
    out = []
    expo = [1, 2, 3, 4, 0.5, 2.5, 3.7, 6] if budget == "small" else [1, 2, 3, 4, 5, 6, 0.5, 0.7, 1.5, 2.5, 3.3, 3.7, 4.5, 5.9, 6.0]
    rmins = [0.0, 0.1] if budget == "small" else [0.0, 1e-3, 0.1, 1.7]
    Rs = [1.5] if budget == "small" else [0.3, 1.0, 1.5, 4.0]
    if cls in ("BeckeRTransform", "MultiExpRTransform"):
        out = [([a, R], tr) for a in rmins for R in Rs for tr in (True, False)]
    elif cls == "LinearFiniteRTransform":
        out = [([a, a + d], None) for a in rmins for d in (0.5, 7.0)]
    elif cls == "IdentityRTransform":
        out = [([], None)]
    elif cls in B_SCALED:
        out = [([max(a, 0.01) if cls != "LinearInfiniteRTransform" else a, max(a, 0.01) + d, b], None)
               for a in rmins for d in (0.9, 12.0) for b in (1.0, 7.5, 30.0)]
    elif cls == "HyperbolicRTransform":
        out = [([a, b], None) for a in (0.3, 2.0) for b in (1e-3, 0.02, 0.1)]
    elif cls in ("KnowlesRTransform", "HandyRTransform"):
        out = [([a, R, e], tr) for a in rmins[:2] for R in Rs for e in expo for tr in (True,)]
    elif cls == "HandyModRTransform":
        out = [([a, a + 2.0 ** e - 1 + d, e], True) for a in rmins[:2] for e in expo for d in (0.3, 5.0, 40.0)]
    if budget == "small" and len(out) > 10:
        keep = out[:2] + rng.sample(out[2:], 8)
        # the m >= 3 cases always stay (that is where the repaired defect lived)
        keep += [o for o in out if len(o[0]) == 3 and o[0][2] in (3, 3.7, 2.5) and o not in keep][:6]
        out = keep
    return out


def _xs_for(cls, ps, budget):
    if cls in FINITE_DOMAIN:
        return [-0.6, 0.3] if budget == "small" else [-0.95, -0.6, -0.1, 0.3, 0.8, 0.97]
    if cls == "HyperbolicRTransform":
        return [f / ps[1] for f in ((0.2, 0.7) if budget == "small" else (0.05, 0.2, 0.5, 0.7, 0.95))]
    if cls in B_SCALED:
        return [f * ps[2] for f in ((0.3, 1.4) if budget == "small" else (0.05, 0.3, 1.0, 1.4, 3.0))]
    return [0.4, 9.0]


def oracle(ctx: Ctx, budget: str):
    rng = ctx.rng
    mod = rt()
    mp = mpmath
    for cls in CLASSES:
        for ps, trim in _grid(cls, budget, rng):
            try:
                Tf = construct(cls, ps, trim)
                T = construct_hp(cls, ps, trim)
            except ValueError:
                continue
            key = f"rtransform.{cls}"
            xs = _xs_for(cls, ps, budget)
            sign = -1 if cls == "MultiExpRTransform" else 1
            prev = None
            for x in sorted(xs):
                xm = mp.mpf(x)
                with np.errstate(all="ignore"):
                    # (1) derivative methods = derivatives of the forward map (numerical differentiation of the
                    #     implementation's own `transform`, run in 40-digit arithmetic)
                    for order, meth in ((1, "deriv"), (2, "deriv2"), (3, "deriv3")):
                        num = mp.diff(lambda y: hp_call(T, "transform", y), xm, order)
                        got = _vals(getattr(Tf, meth)(np.array([x])))[0]
                        if not abs(got - num) <= 1e-7 * max(abs(num), 1e-12):
                            ctx.fail("oracle", f"{key}.{meth}", f"{cls}{tuple(ps)}.{meth}({x}) = {got!r}, but the order-{order} derivative of "
                                     f"transform there is {mp.nstr(num, 15)}",
                                     witness={"class": cls, "params": ps, "x": x, "method": meth, "got": got, "want": float(num)},
                                     snippet=SNIPPET.format(cls=cls, ps=list(ps), trim=trim, meth=meth, x=x, order=order, base="transform"))
                    # (2) round trips, in 40 digits (formulas are exact inverses) and in double precision
                    r = hp_call(T, "transform", xm)
                    back = hp_call(T, "inverse", r)
                    if not abs(back - xm) <= mp.mpf(10) ** -25 * max(1, abs(xm)):
                        ctx.fail("oracle", f"{key}.inverse", f"{cls}{tuple(ps)}: inverse(transform({x})) = {mp.nstr(back, 20)} in 40-digit arithmetic",
                                 witness={"class": cls, "params": ps, "x": x})
                    rf = _vals(Tf.transform(np.array([x])))[0]
                    fwd = hp_call(T, "transform", hp_call(T, "inverse", mp.mpf(rf)))
                    if not abs(fwd - rf) <= mp.mpf(10) ** -25 * max(1, abs(rf)):
                        ctx.fail("oracle", f"{key}.transform", f"{cls}{tuple(ps)}: transform(inverse({rf})) = {mp.nstr(fwd, 20)} in 40-digit arithmetic",
                                 witness={"class": cls, "params": ps, "r": rf})
                    bf = _vals(Tf.inverse(Tf.transform(np.array([x]))))[0]
                    if not close(bf, x, rtol=1e-8, atol=1e-9):
                        ctx.fail("oracle", f"{key}.inverse", f"{cls}{tuple(ps)}: inverse(transform({x})) = {bf!r} in double precision",
                                 witness={"class": cls, "params": ps, "x": x})
                    # (3) inverse-derivative methods = derivatives of the inverse map
                    for order, meth in ((1, "deriv_inverse"), (2, "deriv2_inverse"), (3, "deriv3_inverse")):
                        num = mp.diff(lambda y: hp_call(T, "inverse", y), mp.mpf(rf), order)
                        got = _vals(getattr(Tf, meth)(np.array([rf])))[0]
                        gi = _vals(getattr(mod.InverseRTransform(Tf), meth.replace("_inverse", ""))(np.array([rf])))[0]
                        for who, g in ((f"{cls}.{meth}", got), (f"InverseRTransform({cls}).{meth.replace('_inverse', '')}", gi)):
                            if not abs(g - num) <= 1e-6 * max(abs(num), 1e-12):
                                ctx.fail("oracle", f"{key}.{meth}", f"{who}({rf}) with parameters {tuple(ps)} = {g!r}, but the order-{order} "
                                         f"derivative of inverse there is {mp.nstr(num, 15)}",
                                         witness={"class": cls, "params": ps, "r": rf, "method": meth, "got": g, "want": float(num)},
                                         snippet=SNIPPET.format(cls=cls, ps=list(ps), trim=trim, meth=meth, x=rf, order=order, base="inverse"))
                    # (4) monotone on the domain of use
                    if prev is not None and not (sign * (r - prev) > 0):
                        ctx.fail("oracle", f"{key}.monotone", f"{cls}{tuple(ps)}: transform is not strictly {'de' if sign < 0 else 'in'}creasing "
                                 f"between consecutive grid points up to {x}", witness={"class": cls, "params": ps, "x": x})
                    prev = r
            _oracle_end_points(ctx, cls, ps, trim, Tf, T)
    _oracle_knowles_end_point(ctx, mod, budget)
    _oracle_scalar_arguments(ctx, mod)
    _oracle_excluded_parameters(ctx, mod)


def _oracle_end_points(ctx, cls, ps, trim, Tf, T):
    key = f"rtransform.{cls}.endpoints"
    inf = float("inf")
    with np.errstate(all="ignore"):
        lo_d, hi_d = Tf.domain
        lo_c, hi_c = Tf.codomain
        if cls in B_SCALED:
            pts = [(0.0, float(lo_c)), (float(ps[2]), float(hi_c))]
        elif cls == "HyperbolicRTransform":
            pts = [(0.0, 0.0)]
        elif cls == "MultiExpRTransform":
            pts = [(float(hi_d), float(lo_c)), (float(lo_d), float(hi_c))]
        elif cls == "IdentityRTransform":
            pts = [(0.0, 0.0)]
        else:
            pts = [(float(lo_d), float(lo_c)), (float(hi_d), float(hi_c))]
        for x, want in pts:
            got = _vals(Tf.transform(np.array([x])))[0]
            if want == inf:
                # every pole of these maps is reached exactly in floating point (division by an exact zero, log of an
                # exact zero): the property asks for inf, or 1e16 when trimming
                want_txt = "1e16" if trim else "inf"
                ok = got == (1e16 if trim else inf)
                exact = None
            else:
                exact = float(hp_call(T, "transform", x))
                ok = close(got, want, rtol=1e-12, atol=1e-12) and close(exact, want, rtol=1e-30, atol=1e-30)
                want_txt = repr(want)
            if not ok:
                ctx.fail("oracle", key, f"{cls}{tuple(ps)} trim={trim}: transform({x}) = {got!r}"
                         + (f" (40-digit: {exact!r})" if exact is not None else "") + f", the codomain end is {want_txt}",
                         witness={"class": cls, "params": ps, "trim": trim, "x": x, "got": got},
                         snippet=SNIPPET_END.format(cls=cls, ps=list(ps), trim=trim, x=x, want=(1e16 if trim else inf) if want == inf else want))


def _oracle_knowles_end_point(ctx, mod, budget):
    """x = 1 must map to inf (1e16 when trimming) for every exponent, half-integers included."""
    ks = [0.5, 1.5, 2.5, 4.5, 5.5, 1.2, 2.2, 3.3, 3.7, 1, 2, 3, 6]
    if budget == "large":
        ks += [round(0.5 + 0.1 * i, 1) for i in range(56)]
    for k in ks:
        for trim in (True, False):
            ps = [0.1, 1.5, k]
            with np.errstate(all="ignore"):
                T = mod.KnowlesRTransform(*ps, trim_inf=trim)
                want = 1e16 if trim else float("inf")
                for how, got in (("array", _vals(T.transform(np.array([0.3, 1.0])))[1]), ("float", _vals(T.transform(1.0))[0])):
                    if got != want:
                        ctx.fail("oracle", "rtransform.KnowlesRTransform.endpoints", f"KnowlesRTransform{tuple(ps)} trim={trim}: transform(1.0) "
                                 f"[{how}] = {got!r}, the codomain end is {want!r}", witness={"params": ps, "trim": trim, "got": got},
                                 snippet=SNIPPET_END.format(cls="KnowlesRTransform", ps=ps, trim=trim, x=1.0, want=want))


def _oracle_scalar_arguments(ctx, mod):
    """'scalar or array': a Python float argument must be accepted and agree with the one-element array."""
    for cls in CLASSES:
        ps, _ = {"HyperbolicRTransform": ([1.5, 0.01], None), "HandyModRTransform": ([0.1, 20.0, 3], True)}.get(
            cls, gen_params(cls, ctx.rng))
        if cls in B_SCALED:
            ps = [0.1, 5.0, 3.0]
        Tf = construct(cls, ps, True)
        x = 0.3 if cls in FINITE_DOMAIN else 2.5
        bad = []
        with np.errstate(all="ignore"):
            r = _vals(Tf.transform(np.array([x])))[0]
            for meth in METHODS:
                a = x if meth in FWD else r
                want = _vals(getattr(Tf, meth)(np.array([a])))[0]
                try:
                    got = _vals(getattr(Tf, meth)(float(a)))[0]
                    if not close(got, want, rtol=1e-12):
                        bad.append(f"{meth}: {got!r} vs array {want!r}")
                except Exception as e:  # noqa: BLE001 - any exception on a valid scalar is the failure looked for
                    bad.append(f"{meth}: {type(e).__name__}")
        if bad:
            ctx.fail("oracle", f"rtransform.{cls}.scalar", f"{cls}{tuple(ps)} does not accept the Python float {x} (scalar argument): " + "; ".join(bad),
                     witness={"class": cls, "params": ps, "x": x, "failures": bad},
                     snippet=SNIPPET_SCALAR.format(cls=cls, ps=list(ps), meths=[b.split(":")[0] for b in bad], x=x))


def _oracle_excluded_parameters(ctx, mod):
    """Parameters the constructor admits but the theorems exclude by an explicit hypothesis: run the code there and
    say what it does (information only)."""
    def show(T, meth, x):
        with np.errstate(all="ignore"):
            try:
                return repr(_vals(getattr(T, meth)(np.array([x])))[0])
            except Exception as e:  # noqa: BLE001
                return type(e).__name__
    T = mod.ExpRTransform(0.0, 1.0, b=1.0)
    ctx.info("excluded (hypothesis 0 < rmin): ExpRTransform(rmin=0, rmax=1, b=1) is accepted; transform(0.5) = "
             f"{show(T, 'transform', 0.5)}, deriv(0.5) = {show(T, 'deriv', 0.5)}, inverse(0.5) = {show(T, 'inverse', 0.5)}")
    T = mod.BeckeRTransform(0.1, -1.5)
    ctx.info(f"excluded (hypothesis 0 < R): BeckeRTransform(0.1, R=-1.5) is accepted; transform(0.3) = {show(T, 'transform', 0.3)} "
             f"(below rmin, decreasing), deriv(0.3) = {show(T, 'deriv', 0.3)}")
    T = mod.HandyRTransform(0.1, -1.5, 2.5)
    ctx.info(f"excluded (hypothesis 0 < R): HandyRTransform(0.1, R=-1.5, m=2.5) is accepted; inverse(transform(0.3)) = "
             f"{show(T, 'inverse', _vals(T.transform(np.array([0.3])))[0])}")
    T = mod.HandyModRTransform(0.1, 3.1, 3)
    ctx.info("excluded (hypothesis 2^m - 1 < rmax - rmin): HandyModRTransform(0.1, 3.1, m=3) is accepted (rmax-rmin = 3 < 7): "
             f"transform(-0.5) = {show(T, 'transform', -0.5)}, transform(0.2) = {show(T, 'transform', 0.2)}, transform(0.9) = "
             f"{show(T, 'transform', 0.9)} (pole inside the domain, not monotone); HandyModRTransform(0.5, 0.5, 2).deriv(0.3) = "
             f"{show(mod.HandyModRTransform(0.5, 0.5, 2), 'deriv', 0.3)} (constant map)")
    T = mod.LinearFiniteRTransform(2.0, 1.0)
    ctx.info(f"excluded (hypothesis rmin < rmax): LinearFiniteRTransform(2, 1) is accepted; deriv(0.0) = {show(T, 'deriv', 0.0)} (decreasing)")
    T = mod.PowerRTransform(0.1, 5.0, b=-0.5)
    ctx.info(f"excluded (hypothesis 0 < b): PowerRTransform(0.1, 5, b=-0.5) is accepted; transform(0.3) = {show(T, 'transform', 0.3)}, "
             f"deriv(0.3) = {show(T, 'deriv', 0.3)} (decreasing)")
    T = mod.HyperbolicRTransform(1.0, 0.1)
    ctx.info("declared domain (0, inf) of HyperbolicRTransform(1, 0.1) beyond the pole 1/b = 10: transform(np.array([20.0])) = "
             f"{show(T, 'transform', 20.0)} (negative); the theorems are on the domain of use (0, 1/b)")

"""C03 — radial transforms are analytically self-consistent for all parameters."""
import importlib
import math
import sys

import numpy as np

from ..common import Ctx, b2f, close, driver_batch, f2b, fvec
from . import c03_ext, c03_r3, c03_r4, c03_r5

LEVEL = "proof"
LEVEL_TEXT = (
    "Lean theorems over the reals, for all admissible parameters (real exponents k, m) and all interior points, about "
    "definitions that are regenerated from rtransform.py on every run (Python AST -> Gen/RTransform.lean): for each of the "
    "11 concrete classes HasDerivAt transform (deriv x) x, HasDerivAt deriv (deriv2 x) x, HasDerivAt deriv2 (deriv3 x) x "
    "(33 identities), both round trips, sign of deriv => strict monotonicity, reference end points (values, and growth "
    "beyond every bound at infinite ends), and the inverse-function derivative package g'=1/d1, g''=-d2/d1^3, "
    "g'''=(3 d2^2-d1 d3)/d1^5 instantiated for BaseTransform.deriv*_inverse and InverseRTransform.deriv*; _convert_inf on "
    "any carrier with infinity tests. Where the constructor admits parameters for which a clause is false the extra "
    "hypothesis is explicit (R>0, b>0, ExpRTransform rmin>0, LinearFinite rmin<rmax, HandyMod 2^m-1<rmax-rmin). "
    "Tie to the code: translator + correspondence of every generated definition at Float with the method it came from. "
    "Round 2: the static helper BeckeRTransform.find_parameter is translated (Python indexing, // and %) and proved to return "
    "(radius-rmin)(1-mid)/(1+mid) at the middle value of the array, to raise ValueError iff rmin > radius and IndexError iff the "
    "array is empty, to make the Becke map send the middle value to radius and (ascending array) half of the points within "
    "radius; trimming: for every one of the 11 call sites of _convert_inf and every carrier (Float included) the trimmed method "
    "returns the untrimmed value itself unless it is +-inf (any magnitude), and +-1e16 otherwise; on XReal (exact reals extended "
    "by IEEE +-inf/nan) finite values of every magnitude pass _convert_inf, both branches agree, and the forward map AT the "
    "singular end is inf, trimmed to 1e16 (Becke, MultiExp, Knowles, Handy; Becke also deriv); InverseRTransform(T) is a "
    "transform for each of the 11 classes (generated domain/codomain swap, derivative package, round trip, no "
    "ZeroDivisionError, sign of the Jacobian, image inside the codomain); Jacobian limits at the singular end (Becke, MultiExp). "
    "Round 3: set_maximum_parameter_b of the three b-scaled maps and the power < 2 warning of PowerRTransform.transform are translated "
    "statement by statement; the guard window is the regenerated constant (raises iff |max(x)| < the double 1e-16, which is 1e-16 to "
    "1e-32), an accepted grid in [0, inf) gives b > 0 and the map with that b sends 0 to rmin and b to rmax; once set, b never changes; "
    "a rejected grid leaves b = None (the check precedes the assignment, repair 92a7e5b: setb_rejected_keeps_none); "
    "deriv_inverse / deriv2_inverse / deriv3_inverse raise exactly when the first derivative at the preimage is 0 (no non-zero value "
    "of any magnitude is rejected) and never where the inverse-function package applies; the warning is issued iff rmax < rmin (b+1)^2."
)
TECHNIQUE = ("Lean 4 / Mathlib proof (HasDerivAt combinators, inverse-function theorem, mean-value monotonicity) over "
             "definitions translated from the Python AST + differential run of the generated definitions + mpmath oracle "
             "that executes the implementation itself in 40-digit arithmetic")
GEN = ["rtransform"]

CLASSES = ["BeckeRTransform", "LinearFiniteRTransform", "IdentityRTransform", "LinearInfiniteRTransform",
           "ExpRTransform", "PowerRTransform", "HyperbolicRTransform", "MultiExpRTransform", "KnowlesRTransform",
           "HandyRTransform", "HandyModRTransform"]
LEAN_MODULES = [f"GridVerif.Props.C03.{c}" for c in CLASSES] + [
    "GridVerif.Props.C03.InverseRTransform", "GridVerif.Props.C03.ConvertInf",
    "GridVerif.Props.C03.FindParameter", "GridVerif.Props.C03.Trimming", "GridVerif.Props.C03.Composition",
    "GridVerif.Props.C03.DerivEnds", "GridVerif.Props.C03.Thresholds"]

_COMMON = ["hasDerivAt_transform", "hasDerivAt_deriv", "hasDerivAt_deriv2", "inverse_transform", "transform_inverse",
           "localInverseAt", "inverse_derivs"]
_EXTRA = {
    "BeckeRTransform": ["inverse_mem", "deriv_pos", "strictMonoOn_transform", "transform_domain_lo", "tendsto_transform_domain_hi"],
    "LinearFiniteRTransform": ["inverse_mem", "deriv_pos", "strictMonoOn_transform", "transform_domain_lo", "transform_domain_hi",
                               "scalar_branch_eq"],
    "IdentityRTransform": ["deriv_pos", "strictMonoOn_transform", "transform_domain_lo", "tendsto_transform_domain_hi",
                           "scalar_branch_eq"],
    "LinearInfiniteRTransform": ["deriv_pos", "strictMonoOn_transform", "transform_domain_lo", "transform_b", "scalar_branch_eq"],
    "ExpRTransform": ["deriv_pos", "strictMonoOn_transform", "transform_domain_lo", "transform_b"],
    "PowerRTransform": ["deriv_pos", "strictMonoOn_transform", "transform_domain_lo", "transform_b"],
    "HyperbolicRTransform": ["inverse_mem", "deriv_pos", "strictMonoOn_transform", "transform_domain_lo", "tendsto_transform_pole",
                             "below_pole_of_not_raises", "scalar_not_raises"],
    "MultiExpRTransform": ["inverse_mem", "deriv_neg", "strictAntiOn_transform", "transform_domain_hi", "tendsto_transform_domain_lo"],
    "KnowlesRTransform": ["inverse_mem", "deriv_pos", "strictMonoOn_transform", "transform_domain_lo", "tendsto_transform_domain_hi",
                          "transform_apply"],
    "HandyRTransform": ["inverse_mem", "deriv_pos", "strictMonoOn_transform", "transform_domain_lo", "tendsto_transform_domain_hi"],
    "HandyModRTransform": ["inverse_mem", "deriv_pos", "strictMonoOn_transform", "transform_domain_lo", "transform_domain_hi",
                           "hasDerivAt_transform_of_ne", "hasDerivAt_deriv_of_ne", "hasDerivAt_deriv2_of_ne"],
}
THEOREMS = [f"GridVerif.C03.{c}.{t}" for c in CLASSES for t in _COMMON + _EXTRA[c]] + [
    f"GridVerif.C03.InverseRTransform.{t}" for t in
    ["methods", "deriv_raises_iff", "hasDerivAt_transform", "hasDerivAt_deriv", "hasDerivAt_deriv2", "inverse_transform",
     "transform_inverse", "inverse_derivs_of_wrapper", "strictMonoOn_transform", "strictAntiOn_transform"]] + [
    f"GridVerif.C03.ConvertInf.{t}" for t in
    ["convert_inf_finite", "convert_inf_posInf", "convert_inf_negInf", "convert_inf_scalar_spec", "convert_inf_default",
     "convert_inf_real", "convert_inf_spec"]] + [
    "GridVerif.C03.deriv_inverse_package", "GridVerif.C03.inverse_hasDerivAt₁", "GridVerif.C03.inverse_hasDerivAt₂",
    "GridVerif.C03.inverse_hasDerivAt₃"] + [
    # round 2: the static helper find_parameter (generated definition)
    f"GridVerif.C03.FindParameter.{t}" for t in
    ["find_parameter_eq", "find_parameter_raises_iff", "find_parameter_isSome_iff", "find_parameter_maps_mid_to_radius",
     "find_parameter_pos", "midValue_splits", "find_parameter_half_within"]] + [
    # round 2: trimming — every call site of _convert_inf, every carrier; XReal (exact reals + IEEE inf/nan)
    f"GridVerif.C03.Trim.{t}" for t in
    ["becke_transform_of_not_inf", "becke_transform_of_posInf", "becke_transform_of_negInf", "becke_deriv_of_not_inf", "becke_deriv_of_posInf", "becke_deriv_of_negInf", "multiExp_transform_of_not_inf", "multiExp_transform_of_posInf", "multiExp_transform_of_negInf", "knowles_transform_of_not_inf", "knowles_transform_of_posInf", "knowles_transform_of_negInf", "knowles_deriv_of_not_inf", "knowles_deriv_of_posInf", "knowles_deriv_of_negInf", "handy_transform_of_not_inf", "handy_transform_of_posInf", "handy_transform_of_negInf", "handy_deriv_of_not_inf", "handy_deriv_of_posInf", "handy_deriv_of_negInf", "handy_deriv2_of_not_inf", "handy_deriv2_of_posInf", "handy_deriv2_of_negInf", "handy_deriv3_of_not_inf", "handy_deriv3_of_posInf", "handy_deriv3_of_negInf", "handyMod_transform_of_not_inf", "handyMod_transform_of_posInf", "handyMod_transform_of_negInf", "handyMod_deriv_of_not_inf", "handyMod_deriv_of_posInf", "handyMod_deriv_of_negInf"] + ["convert_inf_fin", "convert_inf_scalar_fin", "convert_inf_special", "convert_inf_default_special", "convert_inf_scalar_eq_array", "convert_inf_does_not_cap", "becke_transform_fin", "becke_deriv_fin", "becke_transform_domain_hi", "becke_deriv_domain_hi", "multiExp_transform_domain_lo", "knowles_transform_domain_hi", "handy_transform_domain_hi"]] + [
    # round 2: InverseRTransform(T) is a transform, for every class (domain/codomain swap, derivative package, sign, image)
    f"GridVerif.C03.Composition.{t}" for t in
    ["domain_swap", "ofLocalInverse", "becke", "linearFinite", "identity", "linearInfinite", "exp", "power", "hyperbolic", "multiExp",
     "knowles", "handy", "handyMod", "linearInfinite_inverse_pos", "exp_inverse_pos", "power_inverse_pos"]] + [
    "GridVerif.C03.DerivEnds.becke_tendsto_deriv_domain_hi", "GridVerif.C03.DerivEnds.multiExp_tendsto_deriv_domain_lo"] + [
    # round 3: the hard-coded thresholds as regenerated (set_maximum_parameter_b guard window, == 0 guards, power < 2 warning)
    f"GridVerif.C03.Thresholds.{t}" for t in
    ["bGuard_pos", "bGuard_window", "linearInfinite_setb_raises_iff", "exp_setb_raises_iff", "power_setb_raises_iff",
     "setb_noop_once_set", "setb_first_grid", "setb_rejected_keeps_none", "setb_none_iff_raises", "inferred_b_ge_guard", "linearInfinite_inferred_end_points",
     "exp_inferred_end_points", "power_inferred_end_points", "deriv_inverse_raises_iff", "deriv2_inverse_raises_iff",
     "deriv3_inverse_raises_iff", "inverse_derivs_do_not_raise", "power_transform_warns_iff_power", "power_transform_warns_iff",
     "power_transform_warn_stacklevel"]]

RULE = (
    "correspondence: every generated definition (11 classes x transform/inverse/deriv/deriv2/deriv3/deriv_inverse/"
    "deriv2_inverse/deriv3_inverse, the same 8 methods of InverseRTransform(class), scalar branches, _convert_inf, "
    "constructor guards, size guards, ZeroDivisionError guards) evaluated at Float by the driver and by the implementation on "
    "random admissible parameters (integer and non-integer exponents in [0.5, 6], trim on/off, b given or inferred), arrays "
    "of 1-4 interior points plus the reference end points, Python-float / np.float64 / array arguments; one evaluation = one "
    "(class, method, parameters, point); non-trivial = exponent non-integer or >= 3, or trim branch taken (result +-1e16), "
    "or an end point, or an inferred b, or a raise, or (classes without exponent) an array of >= 2 interior points with "
    "random parameters; round 2: BeckeRTransform.find_parameter on arrays of 0..41 points (ascending, unsorted, repeated, with "
    "+-1, float32/int/read-only/strided, scalar arguments int/float32, rejected rmin > radius, each call twice), the declared "
    "domain/codomain of every class and of its InverseRTransform, and every method that calls _convert_inf at parameters "
    "R, rmax up to 1e250 and points 1e-3 .. 1 ulp from the singular end and on it (finite values above 1e16 with trimming on, "
    "+-inf, +-1e16 all occur in every run; a run where they do not is a failure), _convert_inf on magnitudes 5e-324 .. 1.8e308; "
    "round 2, generators: replayable call scripts (python source) = (i) every argument kind (float64/int64/int32/bool/float32 arrays, "
    "2-D, 0-d, non-contiguous, reversed view, read-only, repeated values, Python float/int, np.float64/np.float32/np.int64 scalars) x "
    "every method on objects whose parameters are Python ints / np.int64 / np.int32 / np.float64 / np.float32 / floats, positional / "
    "keyword / default trim_inf, plain and wrapped in InverseRTransform; (ii) extreme parameters (rmin = 0, R up to 1e6, exponents in "
    "[0.5, 8], Power exponent up to ~1e4) with points next to both ends (1-1e-4 .. nextafter(1,0), -1+1e-12 ..) and their images; "
    "(iii) state: two objects sharing leading parameters, same array twice, same size other values, in-place edit of the same array "
    "object, temporaries, rebuilt objects, scalars in between, b explicit and inferred from the first array; every element compared with "
    "the stateless generated model (rtol 1e-10; single-precision computations 2e-3; ill-conditioned points judged against the 40-digit "
    "run); all counted non-trivial; "
    "round 3 (c03_r3.py): every hard-coded threshold from both sides within 1 ulp / 1 % / a factor 100 (|max(x)| vs 1e-16 of "
    "set_maximum_parameter_b directly and through 4 methods, b None or set; power vs 2 of the PowerRTransform warning incl. category and "
    "attributed stack frame; constructor guards at +-5e-324, +-1e-300, -0.0, neighbouring doubles of 1; b (size-1) vs 1 of "
    "HyperbolicRTransform; method values 0.01 .. 100 x 1e16 and exactly 1e16 with trimming on), parameters scaled by 2^-100 .. 2^100, "
    "intervals rmax - rmin = 2^-26 rmin, HandyMod 2^-13 .. 2^40 off its bound, points scale x 10^-14 .. 10^3, every method as the first call on a "
    "fresh b=None object, set_maximum_parameter_b as a public method before / between calls, the returned array overwritten by the caller "
    "before the call is repeated; all counted non-trivial except the already-set no-op cases; "
    "round 4 (c03_r4.py): every method of every class (plain and wrapped) at the ends of the declared domain / codomain, +inf where an "
    "interval is half-infinite, neighbouring doubles, +-0.0, 5e-324, 1e300, +-1e16, b, the hyperbolic pole, for parameters with the codomain "
    "below 1, above 1 and straddling 1 (IEEE special values compared exactly; points outside the closed declared intervals are not inputs); "
    "argument shapes (1,), (2,), (1,2), (2,1), (1,3), (3,2), (2,1,3), (1,1), a transposed view, and such a shape as the first grid of a b=None "
    "object; oracle-only parts (reference-free): parameters of kind np.float64 / np.float32 / np.int64 / np.int32 / int, integer-valued and not, "
    "trim_inf as bool / np.bool_ / int, b taken from int / bool / float32 / read-only / strided / negative-stride / Fortran / 0-d grids, every "
    "spelling of constructor and method call, one view of a larger array for every method in turn, calls that raise followed by every method; "
    "round 5 (c03_r5.py, oracle only): arguments of 1025 .. 65537 points (thorough: 2^19+1, 1000003) against the split argument, descending / "
    "shuffled arguments, longdouble / float16 / float32 / int8..int64 / uint8 arrays given directly (argument unchanged, second call equal), "
    "b given or fixed by a first grid on grids far beyond b against the closed form, the same array object edited in place between two "
    "calls, two instances differing in one thing used alternately in either order"
)
TRUSTED_BASE = [
    "Lean 4.33 kernel; Mathlib; axioms propext, Classical.choice, Quot.sound only (audited per theorem)",
    "translator harness/translate/rtransform.py (Python AST -> Lean text); self-checked by the correspondence of every generated definition",
    "Elem/HasInf instances at ℝ (Lemmas/ElemReal.lean, Lemmas/RTransform.lean): which real function each numpy name denotes; no real is infinite",
    "statements in Props/C03/*.lean and their reading of the property (interior = open interval between the generated domain ends; "
    "HyperbolicRTransform on its domain of use (0, 1/b); b-scaled maps: reference points 0 and b)",
    "Lean compiler/runtime for the Float instance (driver), libm pow/log/exp vs numpy's (tolerance 1e-10 relative)",
    "XReal (Lemmas/XReal.lean): the reading of IEEE-754 special values over exact reals (x/0 = +-inf, 0/0 = inf-inf = 0*inf = nan, "
    "comparisons with nan false, log 0 = -inf, one unsigned zero dividing like +0); finite arithmetic is exact (no rounding, no overflow)",
    "pyIndex / Int.fdiv / Int.fmod (Model/RTransform.lean, Lean core) as the meaning of Python's a[i], //, % in find_parameter; tied by correspondence",
    "round 3: `x_max` of the generated set_maximum_parameter_b stands for np.max(x); `self.b` after `self._b = np.max(x)` is read as that value; "
    "the warning message text is not carried (condition, category and stacklevel are); tied by correspondence (C03.setb, C03.warns)",
]
ASSUMPTIONS = [
    "IEEE rounding is not modelled: equalities are over ℝ, the correspondence uses rtol 1e-10 (conditioning-limited points near the ends excluded)",
    "the state machine of the inferred scale b (set once from the first array) belongs to C19; here b is a parameter once set",
    "array semantics of numpy (element-wise arithmetic, np.any over elements) as modelled element-wise",
    "single-precision inputs (float32 arrays / float32 parameters with Python-scalar or bool arguments) are evaluated by NumPy in float32; "
    "compared at 2e-3 at well-conditioned points only; NumPy fixed-width integer parameters / integer-typed x with integer exponents "
    "(overflow, 'Integers to negative integer powers') are reported as information, the theorems are about real parameters",
]

METHODS = ["transform", "inverse", "deriv", "deriv2", "deriv3", "deriv_inverse", "deriv2_inverse", "deriv3_inverse"]
FWD = {"transform", "deriv", "deriv2", "deriv3"}
HAS_TRIM = {"BeckeRTransform", "MultiExpRTransform", "KnowlesRTransform", "HandyRTransform", "HandyModRTransform"}
B_SCALED = {"LinearInfiniteRTransform", "ExpRTransform", "PowerRTransform"}
FINITE_DOMAIN = {"BeckeRTransform", "LinearFiniteRTransform", "MultiExpRTransform", "KnowlesRTransform", "HandyRTransform",
                 "HandyModRTransform"}


def rt():
    return importlib.import_module("grid.rtransform")


# ----------------------------------------------------------------------------
# parameter generation
# ----------------------------------------------------------------------------
def _expo(rng):
    """integer (Python int) or non-integer exponent in [0.5, 6]"""
    u = rng.random()
    if u < 0.4:
        return rng.choice([1, 2, 3, 4, 5, 6])
    if u < 0.5:
        return float(rng.choice([1, 2, 3, 4, 5, 6]))
    return round(rng.uniform(0.5, 6.0), rng.choice([1, 2, 6]))


def gen_params(cls, rng):
    """-> (positional numeric parameters as given to the constructor, trim flag or None)"""
    rmin = rng.choice([0.0, 1e-3, 0.1, round(rng.uniform(0.0, 2.0), 3)])
    R = rng.choice([0.5, 1.0, 1.5, round(rng.uniform(0.1, 5.0), 3)])
    trim = rng.random() < 0.6
    if cls in ("BeckeRTransform", "MultiExpRTransform"):
        return [rmin, R], trim
    if cls == "LinearFiniteRTransform":
        return [rmin, rmin + round(rng.uniform(0.5, 20.0), 3)], None
    if cls == "IdentityRTransform":
        return [], None
    if cls in B_SCALED:
        if cls != "LinearInfiniteRTransform" and rmin == 0.0:
            rmin = 1e-2
        return [rmin, rmin + round(rng.uniform(0.5, 20.0), 3), rng.choice([1.0, 10.0, round(rng.uniform(0.5, 50.0), 2)])], None
    if cls == "HyperbolicRTransform":
        return [round(rng.uniform(0.1, 5.0), 3), rng.choice([1e-3, 0.01, 0.05, round(rng.uniform(1e-3, 0.1), 4)])], None
    if cls in ("KnowlesRTransform", "HandyRTransform"):
        return [rmin, R, _expo(rng)], trim
    if cls == "HandyModRTransform":
        m = _expo(rng)
        gap = 2.0 ** m - 1
        return [rmin, rmin + gap + round(rng.uniform(0.2, 30.0), 3), m], trim
    raise KeyError(cls)


def construct(cls, ps, trim, b_none=False):
    C = getattr(rt(), cls)
    args = list(ps)
    if b_none:
        args = args[:2]
    if cls in HAS_TRIM:
        return C(*args, trim_inf=bool(trim))
    return C(*args)


def interior_points(cls, ps, rng, n):
    if cls in FINITE_DOMAIN:
        return [rng.choice([0.0, 0.5, -0.5, round(rng.uniform(-0.99, 0.99), 3), rng.uniform(-0.999, 0.999)]) for _ in range(n)]
    if cls == "HyperbolicRTransform":
        top = 0.98 / ps[1]
        return [rng.uniform(0.0, 1.0) * top for _ in range(n)]
    if cls in B_SCALED:
        return [rng.uniform(0.01, 2.0) * ps[2] for _ in range(n)]
    return [rng.uniform(0.01, 30.0) for _ in range(n)]


def end_points(cls, ps):
    if cls in FINITE_DOMAIN:
        return [-1.0, 1.0]
    if cls in B_SCALED:
        return [0.0, float(ps[2])]
    return [0.0]


def exponent_of(cls, ps):
    if cls in ("KnowlesRTransform", "HandyRTransform", "HandyModRTransform"):
        return float(ps[2])
    if cls == "PowerRTransform":
        return (math.log(ps[1]) - math.log(ps[0])) / math.log(ps[2] + 1)
    return None


def _impl_call(T, meth, arg):
    """-> ('ok', values) | (error tag, None)"""
    try:
        v = getattr(T, meth)(arg)
    except ValueError:
        return "value-error", None
    except ZeroDivisionError:
        return "zero-division-error", None
    except TypeError:
        return "type-error", None
    return "ok", v


def _vals(v):
    return [float(u) for u in np.atleast_1d(np.asarray(v, dtype=float)).ravel()]


def _line(op, cls, meth, trim, size, ps, x):
    return f"C03.{op} {cls} {meth} {1 if trim else 0} {size} {fvec([float(p) for p in ps])} {f2b(x)}"


# ----------------------------------------------------------------------------
# correspondence
# ----------------------------------------------------------------------------
def _corr_cases_one(ctx, mod, cls, rng, cases):
    """the implementation's answers for one random parameter set of `cls` (all 8 methods, plain or wrapped)"""
    ps, trim = gen_params(cls, rng)
    T = construct(cls, ps, trim)
    npts = rng.choice([1, 2, 3, 4])
    xs = interior_points(cls, ps, rng, npts)
    use_ends = rng.random() < 0.25
    if use_ends:
        xs = xs + end_points(cls, ps)
    wrap = rng.random() < 0.3
    TT = mod.InverseRTransform(T) if wrap else T
    # arguments in the codomain: images of the interior points (computed by the implementation)
    with np.errstate(all="ignore"):
        rs = _vals(T.transform(np.array(xs)))
    for meth in METHODS:
        fwd = (meth in FWD) != wrap
        arg = xs if fwd else rs
        with np.errstate(all="ignore"):
            tag, v = _impl_call(TT, meth, np.array(arg, dtype=float))
        cases.append(("evalinv" if wrap else "eval", cls, ps, trim, meth, arg, (tag, None if v is None else _vals(v)),
                      dict(ends=use_ends, nint=npts)))
    # scalar arguments (np.float64 and Python float) must be accepted and agree with the array branch
    meth = rng.choice(METHODS)
    fwd = (meth in FWD) != wrap
    a0 = (xs if fwd else rs)[0]
    with np.errstate(all="ignore"):
        ta, va = _impl_call(TT, meth, np.array([a0]))
        for kind, sc in (("np.float64", np.float64(a0)), ("float", float(a0))):
            try:
                ts, vs = _impl_call(TT, meth, sc)
            except Exception as e:  # noqa: BLE001 - a valid scalar argument must be accepted
                ts, vs = type(e).__name__, None
            ctx.count([cls, meth, ps, trim, kind, a0], nontrivial=False, tag="scalar-vs-array")
            if ts != ta or (ta == "ok" and not close(_vals(vs)[0], _vals(va)[0], rtol=1e-12, atol=1e-13)):
                ctx.fail("corr", f"scalar:{cls}.{meth}", f"{cls}{tuple(ps)}.{meth}: {kind} argument {a0!r} gives "
                         f"{ts} {None if vs is None else _vals(vs)}, one-element array gives {ta} {None if va is None else _vals(va)}",
                         witness={"class": cls, "params": ps, "trim": trim, "method": meth, "x": a0})


def corr(ctx: Ctx):
    rng = ctx.rng
    mod = rt()

    def main():
        nsets = ctx.n(180, 4500)
        cases = []      # (op, cls, ps, trim, meth, xs, impl-result, flags)
        for cls in CLASSES:
            for i in range(nsets):
                try:
                    _corr_cases_one(ctx, mod, cls, rng, cases)
                except Exception as e:  # noqa: BLE001 - the library raised on admissible parameters / points of the domain
                    ctx.fail("corr", f"eval:{cls}:raises", f"{cls}: building the cases raised {type(e).__name__}: {str(e)[:200]}")
        # one driver batch
        lines, index = [], []
        for ci, (op, cls, ps, trim, meth, arg, res, fl) in enumerate(cases):
            for x in arg:
                lines.append(_line(op, cls, meth, trim, len(arg), ps, x))
                index.append(ci)
        answers = driver_batch(lines)
        per_case = {}
        for ci, a in zip(index, answers):
            per_case.setdefault(ci, []).append(a)
        for ci, (op, cls, ps, trim, meth, arg, (tag, vals), fl) in enumerate(cases):
            ans = per_case[ci]
            e = exponent_of(cls, ps)
            for j, (x, a) in enumerate(zip(arg, ans)):
                is_end = fl["ends"] and j >= fl["nint"]
                toks = a.split()
                mval = b2f(toks[1]) if toks[0] == "ok" and len(toks) == 2 else None
                trimmed = mval is not None and abs(mval) == 1e16
                nontriv = bool((e is not None and (e != int(e) or e >= 3)) or is_end or trimmed
                               or (e is None and fl["nint"] >= 2 and cls != "IdentityRTransform"))
                ctx.count([op, cls, meth, [float(p) for p in ps], trim, x], nontrivial=nontriv,
                          tag=f"{cls}:{'inv:' if op == 'evalinv' else ''}{'end' if is_end else 'int'}")
                # conditioning: pow of two libraries may differ by an ulp, which decides inf/nan/finite exactly at a pole
                exact_end = cls == "KnowlesRTransform" and meth == ("inverse" if op == "evalinv" else "transform")
                if is_end and cls in ("KnowlesRTransform", "HandyModRTransform", "HandyRTransform") and e != int(e) and not exact_end:
                    ctx.tagc("end-point-noninteger-exponent-not-compared")
                    continue
                if tag == "zero-division-error":
                    # np.any(d1 == 0): the call raises as soon as one element has a vanishing first derivative
                    ok = tag in ans
                    iv = tag
                elif tag != "ok":
                    ok = a == tag
                    iv = tag
                else:
                    iv = vals[j]
                    # values in the x-domain (`inverse`) come out of a cancellation of O(1) terms
                    atol = 1e-12 if meth == ("transform" if op == "evalinv" else "inverse") else 0.0
                    ok = mval is not None and (close(iv, mval, rtol=1e-10, atol=atol) or (is_end and _both_huge(iv, mval)))
                if not ok and tag == "ok" and mval is not None and not is_end:
                    ok = _within_rounding_noise(ctx, mod, op, cls, ps, trim, meth, x, iv, mval)
                    if not ok and _noise_verdict(cls, ps, trim, op == "evalinv", meth, x, iv, mval) == "ill":
                        # both double evaluations are off the 40-digit value (residue of an exact cancellation, e.g. the third
                        # derivative of the inverse Handy map with m = 0.5 vanishes at x = 0): nothing to compare
                        ctx.tagc("ill-conditioned-point-not-compared")
                        ok = True
                if not ok:
                    ctx.fail("corr", f"{op}:{cls}.{meth}", f"{'InverseRTransform of ' if op == 'evalinv' else ''}{cls}{tuple(ps)} trim={trim} "
                             f"{meth}({x!r}) [array of {len(arg)}]: implementation {iv!r}, generated model {a if mval is None else mval!r}",
                             witness={"class": cls, "params": ps, "trim": trim, "method": meth, "x": x, "wrapped": op == "evalinv",
                                      "impl": iv, "model": a if mval is None else mval})
    c03_r3.run_parts([
        main,
        lambda: _corr_guards(ctx, mod),
        lambda: _corr_round2(ctx, mod),      # before the parts that consult the translator (which raises on source it cannot carry)
        lambda: _corr_scalar_and_convinf(ctx, mod),
        lambda: _corr_inferred_b(ctx, mod),
        lambda: c03_ext.corr_ext(ctx, CLASSES, gen_params, construct, _within_rounding_noise, end_points),
        lambda: c03_r3.corr_r3(ctx, sys.modules[__name__]),
        lambda: c03_r4.corr_r4(ctx, sys.modules[__name__])])


def _within_rounding_noise(ctx, mod, op, cls, ps, trim, meth, x, iv, mval):
    """A disagreement beyond rtol at an ill-conditioned point (e.g. `1 - exp(-1e-8)`): measure the rounding noise of the
    implementation itself there, by running the same implementation code in 40-digit arithmetic, and accept the model
    value if it is within 100x that noise.  A changed coefficient moves the value by far more than the noise."""
    try:
        T = construct_hp(cls, ps, trim)
        if op == "evalinv":
            T = mod.InverseRTransform(T)
        with np.errstate(all="ignore"):
            ref = hp_call(T, meth, x)
    except Exception:  # noqa: BLE001
        return False
    if ref == 0:
        # the exact value vanishes (e.g. the third derivative of the inverse Handy map with m = 0.5 at x = 0): both double
        # evaluations leave rounding residue of a cancellation
        return abs(iv) <= 1e-9 and abs(mval) <= 1e-9
    if not mpmath.isfinite(ref):
        return False
    noise = abs((mpmath.mpf(iv) - ref) / ref)
    ctx.tagc("conditioning-fallback")
    return bool(noise < 1e-5 and abs((mpmath.mpf(mval) - ref) / ref) <= max(mpmath.mpf(1e-10), 100 * noise))


def _both_huge(a, b):
    """at a pole the last bits decide between inf, 1e16 and a huge finite number"""
    def huge(v):
        return v != v or abs(v) >= 1e15
    return huge(a) and huge(b)


def _corr_guards(ctx, mod):
    """constructor guards, size guard of HyperbolicRTransform, ZeroDivisionError guards"""
    rng = ctx.rng
    lines, want, info = [], [], []
    pool = [-1.0, 0.0, 1e-3, 0.5, 1.0, 2.0, 3.5, -0.5]
    for cls in CLASSES:
        if cls == "IdentityRTransform":
            continue
        arity = {"BeckeRTransform": 2, "LinearFiniteRTransform": 2, "MultiExpRTransform": 2, "HyperbolicRTransform": 2}.get(cls, 3)
        for _ in range(ctx.n(40, 400)):
            ps = [rng.choice(pool) for _ in range(arity)]
            try:
                construct(cls, ps, True)
                w = "ok 1"
            except ValueError:
                w = "ok 0"
            lines.append(f"C03.admissible {cls} 1 {fvec(ps)}")
            want.append(w)
            info.append((cls, ps))
    ans = driver_batch(lines)
    for a, w, (cls, ps) in zip(ans, want, info):
        ctx.count(["admissible", cls, ps], nontrivial=(w == "ok 0"), tag="guard:" + ("accept" if w == "ok 1" else "reject"))
        if a != w:
            ctx.fail("corr", f"admissible:{cls}", f"{cls}{tuple(ps)}: constructor {'accepts' if w == 'ok 1' else 'raises ValueError'}, "
                     f"generated Admissible says {a}", witness={"class": cls, "params": ps})
    # size guard
    lines, want, info = [], [], []
    for _ in range(ctx.n(30, 300)):
        a_, b_ = round(rng.uniform(0.1, 3.0), 3), rng.choice([0.01, 0.05, 0.1, 0.25, 1.0 / 3, 0.5])
        n = rng.randrange(1, 14)
        T = mod.HyperbolicRTransform(a_, b_)
        meth = rng.choice(METHODS)
        xs = np.arange(n, dtype=float)
        with np.errstate(all="ignore"):
            tag, v = _impl_call(T, meth, xs)
        j = rng.randrange(n)
        lines.append(_line("eval", "HyperbolicRTransform", meth, False, n, [a_, b_], float(xs[j])))
        want.append((tag, None if v is None else _vals(v)[j]))
        info.append((a_, b_, n, meth, j))
    for a, (tag, v), inf in zip(driver_batch(lines), want, info):
        ctx.count(["size-guard", inf], nontrivial=(tag != "ok"), tag="hyperbolic-size:" + tag)
        ok = (a == tag) if tag != "ok" else (a.startswith("ok ") and close(v, b2f(a.split()[1]), rtol=1e-10))
        if not ok:
            ctx.fail("corr", "eval:HyperbolicRTransform.size-guard", f"HyperbolicRTransform({inf[0]}, {inf[1]}).{inf[3]}(arange({inf[2]}))[{inf[4]}]: "
                     f"implementation {tag} {v!r}, model {a}", witness={"a": inf[0], "b": inf[1], "size": inf[2], "method": inf[3]})
    # ZeroDivisionError guards: first derivative identically zero
    zcases = [("LinearFiniteRTransform", [1.0, 1.0], None, 1.0), ("HandyModRTransform", [0.5, 0.5, 2], True, 0.5),
              ("BeckeRTransform", [0.1, 0.0], True, 0.1), ("HandyModRTransform", [0.0, 3.0, 2], False, 1.0)]
    lines, want, info = [], [], []
    for cls, ps, trim, r in zcases:
        T = construct(cls, ps, trim)
        for wrap in (False, True):
            TT = mod.InverseRTransform(T) if wrap else T
            for meth in (["deriv", "deriv2", "deriv3"] if wrap else ["deriv_inverse", "deriv2_inverse", "deriv3_inverse"]):
                with np.errstate(all="ignore"):
                    tag, v = _impl_call(TT, meth, np.array([r]))
                lines.append(_line("evalinv" if wrap else "eval", cls, meth, trim, 1, ps, r))
                want.append((tag, None if v is None else _vals(v)[0]))
                info.append((cls, ps, meth, wrap))
    for a, (tag, v), inf in zip(driver_batch(lines), want, info):
        ctx.count(["zero-division", inf], nontrivial=True, tag="zero-division:" + tag)
        good = (a == tag) if tag != "ok" else (a.startswith("ok ") and close(v, b2f(a.split()[1]), rtol=1e-10))
        if not good:
            ctx.fail("corr", f"eval:{inf[0]}.{inf[2]}:zero-division", f"{inf[0]}{tuple(inf[1])} {'wrapped ' if inf[3] else ''}{inf[2]}: "
                     f"implementation {tag}, model {a}", witness={"class": inf[0], "params": inf[1], "method": inf[2]})


def describe_scalar_classes():
    """classes whose deriv/deriv2/deriv3 have an `isinstance(x, Number)` branch in the source (from the translator)"""
    from ..translate import rtransform as tr
    d = tr.describe()
    return [c for c in CLASSES if {"deriv", "deriv2", "deriv3"} <= set(d[c]["scalar"])]


def _corr_scalar_and_convinf(ctx, mod):
    rng = ctx.rng
    # scalar-branch definitions of the model (LinearFinite, Identity)
    lines, want, info = [], [], []
    for cls in describe_scalar_classes():
        for _ in range(ctx.n(10, 100)):
            ps, _ = gen_params(cls, rng)
            T = construct(cls, ps, None)
            x = rng.uniform(-0.9, 0.9) if cls == "LinearFiniteRTransform" else rng.uniform(0.1, 9.0)
            for meth in ("deriv", "deriv2", "deriv3"):
                lines.append(f"C03.scalar {cls} {meth} 0 {fvec(ps)} {f2b(x)}")
                want.append((float(getattr(T, meth)(float(x))), float(np.asarray(getattr(T, meth)(np.array([x])))[0])))
                info.append((cls, ps, meth, x))
    for a, (ws, wa), inf in zip(driver_batch(lines), want, info):
        ctx.count(["scalar-branch", inf], nontrivial=False, tag="scalar-branch")
        if not (a.startswith("ok ") and close(ws, b2f(a.split()[1]), rtol=1e-13) and close(ws, wa, rtol=1e-13)):
            ctx.fail("corr", f"scalar:{inf[0]}.{inf[2]}", f"{inf[0]}{tuple(inf[1])}.{inf[2]}({inf[3]!r}): scalar branch {ws!r}, "
                     f"array branch {wa!r}, model scalar branch {a}", witness={"class": inf[0], "params": inf[1], "x": inf[3]})
    # _convert_inf, both branches, default and explicit replacement
    T = mod.BeckeRTransform(0.0, 1.0)
    vals = [1.5, -3.0, 0.0, float("inf"), float("-inf"), float("nan"), 1e16, -1e16, 1e300, rng.uniform(-5, 5)]
    lines, want = [], []
    for v in vals:
        for rep in (None, 7.5):
            arr = T._convert_inf(np.array([v])) if rep is None else T._convert_inf(np.array([v]), rep)
            sc = T._convert_inf(float(v)) if rep is None else T._convert_inf(float(v), rep)
            for br, w in (("array", float(arr[0])), ("scalar", float(sc))):
                lines.append(f"C03.convinf {br} {f2b(v)}" if rep is None else f"C03.convinf2 {br} {f2b(v)} {f2b(rep)}")
                want.append((v, rep, br, w))
    for a, (v, rep, br, w) in zip(driver_batch(lines), want):
        ctx.count(["convert_inf", br, v, rep], nontrivial=math.isinf(v), tag="convert_inf:" + br)
        if not (a.startswith("ok ") and close(w, b2f(a.split()[1]), rtol=0)):
            ctx.fail("corr", "convert_inf", f"_convert_inf({v!r}, {rep!r}) {br} branch: implementation {w!r}, model {a}",
                     witness={"value": v, "replace_inf": rep, "branch": br})


def _corr_inferred_b(ctx, mod):
    """b=None: the first array sets b = max(array); afterwards the object behaves as the model with that b."""
    rng = ctx.rng
    lines, want, info = [], [], []
    for cls in sorted(B_SCALED):
        for _ in range(ctx.n(12, 150)):
            ps, _ = gen_params(cls, rng)
            T = construct(cls, ps, None, b_none=True)
            first = np.array(sorted(rng.uniform(0.1, 40.0) for _ in range(rng.choice([2, 3, 5]))))
            m0 = rng.choice(["transform", "deriv", "inverse"])
            with np.errstate(all="ignore"):
                getattr(T, m0)(first)
            b = float(np.max(first))
            if T.b != b:
                ctx.fail("corr", f"inferred-b:{cls}", f"{cls}: b inferred as {T.b!r}, max of the first array is {b!r}")
            meth = rng.choice(METHODS)
            x = rng.uniform(0.05, 1.5) * b if meth in FWD else rng.uniform(ps[0] * 1.01, ps[1] * 1.5)
            with np.errstate(all="ignore"):
                tag, v = _impl_call(T, meth, np.array([x]))
            lines.append(_line("eval", cls, meth, False, 1, [ps[0], ps[1], b], x))
            want.append((tag, None if v is None else _vals(v)[0]))
            info.append((cls, ps[:2], b, meth, x))
    for a, (tag, v), inf in zip(driver_batch(lines), want, info):
        ctx.count(["inferred-b", inf], nontrivial=True, tag="inferred-b")
        ok = a == tag if tag != "ok" else (a.startswith("ok ") and close(v, b2f(a.split()[1]), rtol=1e-10))
        if not ok:
            ctx.fail("corr", f"eval:{inf[0]}.{inf[3]}:inferred-b", f"{inf[0]}{tuple(inf[1])} with inferred b={inf[2]!r}: {inf[3]}({inf[4]!r}) "
                     f"implementation {tag} {v!r}, model {a}", witness={"class": inf[0], "params": inf[1], "b": inf[2], "x": inf[4]})


# ----------------------------------------------------------------------------
# oracle: the implementation itself, executed in 40-digit arithmetic
# ----------------------------------------------------------------------------
HP_SRC = '''
import mpmath
mpmath.mp.dps = 40
class HP:
    """40-digit number that numpy's object-dtype ufuncs can drive (np.log -> .log(), ** -> __pow__ ...)."""
    __slots__ = ("v",)
    def __init__(s, v): s.v = v.v if isinstance(v, HP) else mpmath.mpf(v)
    @staticmethod
    def _c(o): return o.v if isinstance(o, HP) else mpmath.mpf(float(o)) if not isinstance(o, (int, mpmath.mpf)) else mpmath.mpf(o)
    def _arr(o): return hasattr(o, "__array__")          # let numpy broadcast: HP (op) ndarray
    def __add__(s, o): return NotImplemented if HP._arr(o) else HP(s.v + HP._c(o))
    __radd__ = __add__
    def __sub__(s, o): return NotImplemented if HP._arr(o) else HP(s.v - HP._c(o))
    def __rsub__(s, o): return HP(HP._c(o) - s.v)
    def __mul__(s, o): return NotImplemented if HP._arr(o) else HP(s.v * HP._c(o))
    __rmul__ = __mul__
    def __truediv__(s, o):
        if HP._arr(o): return NotImplemented
        d = HP._c(o)
        if d == 0:
            return HP(mpmath.nan if s.v == 0 else mpmath.inf * mpmath.sign(s.v) * (1 if not mpmath.isinf(d) else 1))
        return HP(s.v / d)
    def __rtruediv__(s, o):
        n = HP._c(o)
        if s.v == 0:
            return HP(mpmath.nan if n == 0 else mpmath.inf * mpmath.sign(n))
        return HP(n / s.v)
    def __pow__(s, o):
        if HP._arr(o): return NotImplemented
        e = HP._c(o)
        if s.v == 0:
            return HP(0 if e > 0 else (1 if e == 0 else mpmath.inf))
        if s.v < 0 and e != int(e):
            return HP(mpmath.nan)
        return HP(mpmath.power(s.v, e))
    def __rpow__(s, o): return HP(mpmath.power(HP._c(o), s.v))
    def __neg__(s): return HP(-s.v)
    def __pos__(s): return s
    def __abs__(s): return HP(abs(s.v))
    def __float__(s): return float(s.v)
    def __lt__(s, o): return s.v < HP._c(o)
    def __le__(s, o): return s.v <= HP._c(o)
    def __gt__(s, o): return s.v > HP._c(o)
    def __ge__(s, o): return s.v >= HP._c(o)
    def __eq__(s, o): return s.v == HP._c(o)
    def __ne__(s, o): return s.v != HP._c(o)
    def __hash__(s): return hash(s.v)
    def log(s): return HP(mpmath.log(s.v) if s.v > 0 else (-mpmath.inf if s.v == 0 else mpmath.nan))
    def exp(s): return HP(mpmath.exp(s.v))
    def sqrt(s): return HP(mpmath.sqrt(s.v))
    def __repr__(s): return "HP(%s)" % mpmath.nstr(s.v, 20)
def hp_arr(x):
    import numpy as np
    a = np.empty(1, dtype=object); a[0] = HP(x); return a
def hp_call(T, meth, x):
    """method `meth` of the transform object T (built with HP parameters) at the 40-digit point x -> mpf"""
    r = getattr(T, meth)(hp_arr(x))[0]
    return r.v if isinstance(r, HP) else mpmath.mpf(r)
'''
_ns = {}
exec(HP_SRC, _ns)
HP, hp_call = _ns["HP"], _ns["hp_call"]
mpmath = _ns["mpmath"]


def construct_hp(cls, ps, trim):
    C = getattr(rt(), cls)
    args = [HP(p) for p in ps]
    if cls in HAS_TRIM:
        return C(*args, trim_inf=bool(trim))
    return C(*args)


SNIPPET = HP_SRC + '''
import warnings; warnings.filterwarnings('ignore')
import numpy as np
from grid import rtransform as rt
cls, ps, trim, meth, x, order, base = {cls!r}, {ps!r}, {trim!r}, {meth!r}, {x!r}, {order}, {base!r}
C = getattr(rt, cls)
kw = dict(trim_inf=trim) if trim is not None else dict()
T = C(*[HP(p) for p in ps], **kw)          # the implementation, executed in 40-digit arithmetic
Tf = C(*ps, **kw)                          # the implementation in double precision
num = mpmath.diff(lambda y: hp_call(T, base, y), mpmath.mpf(x), order)     # numerical derivative of `base`
got = float(np.asarray(getattr(Tf, meth)(np.array([x])), dtype=float).ravel()[0])
assert abs(got - num) <= 1e-7 * max(abs(num), 1e-12), f'{{cls}}{{tuple(ps)}}.{{meth}}({{x}}) = {{got}}, numerical derivative of order {{order}} of {{base}} = {{mpmath.nstr(num, 15)}}'
'''

SNIPPET_RAISES = '''import warnings; warnings.filterwarnings('ignore')
import numpy as np
from grid import rtransform as rt
np.seterr(all='ignore')
cls, ps, trim, xs = {cls!r}, {ps!r}, {trim!r}, {xs!r}
kw = dict(trim_inf=trim) if trim is not None else dict()
try:
    T = getattr(rt, cls)(*ps, **kw)
    for m in ('transform', 'deriv', 'deriv2', 'deriv3'):
        getattr(T, m)(np.array(xs))
    r = T.transform(np.array(xs))
    for m in ('inverse', 'deriv_inverse', 'deriv2_inverse', 'deriv3_inverse'):
        getattr(T, m)(r)
except Exception as e:
    raise AssertionError(f'{{cls}}{{tuple(ps)}}: admissible parameters / interior points raise {{type(e).__name__}}: {{e}}')
'''

SNIPPET_END = '''import warnings; warnings.filterwarnings('ignore')
import numpy as np
from grid import rtransform as rt
cls, ps, trim, x, want = {cls!r}, {ps!r}, {trim!r}, {x!r}, float({want!r})
kw = dict(trim_inf=trim) if trim is not None else dict()
got = float(getattr(rt, cls)(*ps, **kw).transform(np.array([x]))[0])
assert got == want or abs(got - want) <= 1e-12 * max(1.0, abs(want)), f'{{cls}}{{tuple(ps)}} trim={{trim}}: transform({{x}}) = {{got}}, codomain end {{want}}'
'''

SNIPPET_SCALAR = '''import warnings; warnings.filterwarnings('ignore')
import numpy as np
from grid import rtransform as rt
cls, ps, meths, x = {cls!r}, {ps!r}, {meths!r}, {x!r}
T = getattr(rt, cls)(*ps)
bad = []
for m in meths:
    want = float(np.asarray(getattr(T, m)(np.array([x]))).ravel()[0])
    try:
        got = float(np.asarray(getattr(T, m)(x)).ravel()[0])
        if abs(got - want) > 1e-12 * max(1.0, abs(want)): bad.append((m, got, want))
    except Exception as e:
        bad.append((m, type(e).__name__))
assert not bad, f'{{cls}}{{tuple(ps)}} with the Python float {{x}}: {{bad}}'
'''


def _grid(cls, budget, rng):
    """parameter grid of the oracle"""
    out = []
    small = budget == "small"
    expo = [1, 2, 3, 4, 0.5, 2.5, 3.7, 6, 8] if small else [1, 2, 3, 4, 5, 6, 7, 8, 0.5, 0.7, 1.5, 2.5, 3.3, 3.7, 4.5, 5.9, 6.0, 7.5]
    rmins = [0.0, 0.1] if small else [0.0, 1e-3, 0.1, 1.7]
    Rs = [1.5, 1000.0] if small else [0.3, 1.5, 4.0, 1e3, 1e6]
    if small and cls in ("KnowlesRTransform", "HandyRTransform", "HandyModRTransform"):
        # every exponent of the list on every run: k, m < 1, = 1, = 2, integers >= 3, non-integers, the largest (terms of
        # the closed forms vanish at 1 and 2; 2**m = 2*m at m = 1, 2; abs(k - 1) = k - 1 unless k < 1), large R, trim on and off
        for e in expo:
            a, R = rng.choice(rmins), rng.choice(Rs)
            out.append(([a, R, e], True) if cls != "HandyModRTransform" else ([a, a + 2.0 ** e - 1 + rng.choice([0.3, 5.0, 40.0]), e], True))
        e = rng.choice([3, 3.7])
        out.append(([0.0, 1000.0, e], True) if cls != "HandyModRTransform" else ([0.1, 0.1 + 2.0 ** e + 1000.0, e], True))
        out.append(([0.1, 1.5, 3], False) if cls != "HandyModRTransform" else ([0.1, 20.1, 3], False))
        return out
    if cls in ("BeckeRTransform", "MultiExpRTransform"):
        out = [([a, R], tr) for a in rmins for R in Rs for tr in (True, False)]
    elif cls == "LinearFiniteRTransform":
        out = [([a, a + d], None) for a in rmins for d in (0.5, 7.0)]
    elif cls == "IdentityRTransform":
        out = [([], None)]
    elif cls in B_SCALED:
        out = [([max(a, 0.01) if cls != "LinearInfiniteRTransform" else a, max(a, 0.01) + d, b], None)
               for a in rmins for d in (0.9, 12.0) for b in (1.0, 7.5, 30.0)]
    elif cls == "HyperbolicRTransform":
        out = [([a, b], None) for a in (0.3, 2.0) for b in (1e-3, 0.02, 0.1)]
    elif cls in ("KnowlesRTransform", "HandyRTransform"):
        out = [([a, R, e], tr) for a in rmins[:2] for R in Rs for e in expo for tr in (True,)]
    elif cls == "HandyModRTransform":
        out = [([a, a + 2.0 ** e - 1 + d, e], True) for a in rmins[:2] for e in expo for d in (0.3, 5.0, 40.0)]
    if small and len(out) > 10:
        out = out[:2] + rng.sample(out[2:], 8)
    return out


# points next to the ends of [-1, 1] (small budget, extra ones of the large budget); only ends where the double evaluation of
# the round trip is still meaningful (the maps with (1+x)**k are flat at -1: r - rmin underflows below the rounding of rmin)
NEAR_ENDS = {
    "BeckeRTransform": ([-1 + 1e-7, 0.9999, 1 - 1e-7], [1 - 1e-12, -1 + 1e-12]),
    "MultiExpRTransform": ([-1 + 1e-7, 1 - 1e-7], [-1 + 1e-12, 0.9999]),
    "KnowlesRTransform": ([1 - 1e-7], [0.9999, 1 - 1e-10]),
    "HandyRTransform": ([0.9999, 1 - 1e-7], [1 - 1e-12]),
    "HandyModRTransform": ([1 - 1e-7], [0.9999]),
    "LinearFiniteRTransform": ([1 - 1e-7], [-1 + 1e-12]),
}


def _otol(cls, x, base, factor):
    """tolerance of a double-precision evaluation at x: `base`, widened next to an end of [-1, 1] where 1 -+ x carries a
    relative rounding error eps / distance (times the exponents of the closed forms)"""
    if cls in FINITE_DOMAIN:
        return max(base, factor * 1.1e-16 / max(min(1 - x, 1 + x), 1e-300))
    return base


def _snippet(tol, **kw):
    s = SNIPPET.format(**kw)
    return s if tol <= 1e-7 else s.replace("<= 1e-7 * max(abs(num), 1e-12)", f"<= {float(tol)!r} * max(abs(num), 1e-12)")


def _xs_for(cls, ps, budget):
    if cls in FINITE_DOMAIN:
        near = NEAR_ENDS[cls][0] + ([] if budget == "small" else NEAR_ENDS[cls][1])
        # exponents above 6: (1+x)**k at -0.95 is below the rounding of rmin, the double-precision round trip has no digits left
        lo = -0.7 if len(ps) == 3 and ps[2] > 6 else -0.95
        return ([-0.6, 0.3] if budget == "small" else [lo, -0.6, -0.1, 0.3, 0.8, 0.97]) + near
    if cls == "HyperbolicRTransform":
        return [f / ps[1] for f in ((0.2, 0.7) if budget == "small" else (0.05, 0.2, 0.5, 0.7, 0.95))]
    if cls in B_SCALED:
        return [f * ps[2] for f in ((0.3, 1.4) if budget == "small" else (0.05, 0.3, 1.0, 1.4, 3.0))]
    return [0.4, 9.0]


def _oracle_one(ctx, mod, cls, ps, trim, budget):
    """the main oracle at one admissible parameter set"""
    mp = mpmath
    Tf = construct(cls, ps, trim)        # (the grid holds admissible parameters only: a rejection is a failure, see `oracle`)
    T = construct_hp(cls, ps, trim)
    key = f"rtransform.{cls}"
    xs = _xs_for(cls, ps, budget)
    sign = -1 if cls == "MultiExpRTransform" else 1
    prev = None
    for x in sorted(xs):
        xm = mp.mpf(x)
        with np.errstate(all="ignore"):
            # (1) derivative methods = derivatives of the forward map (numerical differentiation of the
            #     implementation's own `transform`, run in 40-digit arithmetic)
            for order, meth in ((1, "deriv"), (2, "deriv2"), (3, "deriv3")):
                num = mp.diff(lambda y: hp_call(T, "transform", y), xm, order)
                got = _vals(getattr(Tf, meth)(np.array([x])))[0]
                tol = _otol(cls, x, 1e-7, 2e3)
                ctx.count(["oracle", cls, ps, trim, meth, x], nontrivial=True, tag="oracle:near-end" if tol > 1e-7 else "oracle:interior")
                if not abs(got - num) <= tol * max(abs(num), 1e-12):
                    ctx.fail("oracle", f"{key}.{meth}", f"{cls}{tuple(ps)} trim={trim}: {meth}({x!r}) = {got!r}, but the order-{order} derivative of "
                             f"transform there is {mp.nstr(num, 15)}",
                             witness={"class": cls, "params": ps, "x": x, "method": meth, "got": got, "want": float(num)},
                             snippet=_snippet(tol, cls=cls, ps=list(ps), trim=trim, meth=meth, x=x, order=order, base="transform"))
            # (2) round trips, in 40 digits (formulas are exact inverses) and in double precision
            r = hp_call(T, "transform", xm)
            back = hp_call(T, "inverse", r)
            if not abs(back - xm) <= mp.mpf(10) ** -25 * max(1, abs(xm)):
                ctx.fail("oracle", f"{key}.inverse", f"{cls}{tuple(ps)}: inverse(transform({x})) = {mp.nstr(back, 20)} in 40-digit arithmetic",
                         witness={"class": cls, "params": ps, "x": x})
            rf = _vals(Tf.transform(np.array([x])))[0]
            fwd = hp_call(T, "transform", hp_call(T, "inverse", mp.mpf(rf)))
            if not abs(fwd - rf) <= mp.mpf(10) ** -25 * max(1, abs(rf)):
                ctx.fail("oracle", f"{key}.transform", f"{cls}{tuple(ps)}: transform(inverse({rf})) = {mp.nstr(fwd, 20)} in 40-digit arithmetic",
                         witness={"class": cls, "params": ps, "r": rf})
            bf = _vals(Tf.inverse(Tf.transform(np.array([x]))))[0]
            if not close(bf, x, rtol=1e-8, atol=1e-9):
                ctx.fail("oracle", f"{key}.inverse", f"{cls}{tuple(ps)}: inverse(transform({x})) = {bf!r} in double precision",
                         witness={"class": cls, "params": ps, "x": x})
            # (3) inverse-derivative methods = derivatives of the inverse map
            tol = _otol(cls, x, 1e-6, 2e4)
            for order, meth in ((1, "deriv_inverse"), (2, "deriv2_inverse"), (3, "deriv3_inverse")) if tol < 0.1 else ():
                num = mp.diff(lambda y: hp_call(T, "inverse", y), mp.mpf(rf), order)
                got = _vals(getattr(Tf, meth)(np.array([rf])))[0]
                gi = _vals(getattr(mod.InverseRTransform(Tf), meth.replace("_inverse", ""))(np.array([rf])))[0]
                for who, g in ((f"{cls}.{meth}", got), (f"InverseRTransform({cls}).{meth.replace('_inverse', '')}", gi)):
                    if not abs(g - num) <= tol * max(abs(num), 1e-12):
                        ctx.fail("oracle", f"{key}.{meth}", f"{who}({rf}) with parameters {tuple(ps)} = {g!r}, but the order-{order} "
                                 f"derivative of inverse there is {mp.nstr(num, 15)}",
                                 witness={"class": cls, "params": ps, "r": rf, "method": meth, "got": g, "want": float(num)},
                                 snippet=_snippet(max(tol, 1e-6), cls=cls, ps=list(ps), trim=trim, meth=meth, x=rf, order=order, base="inverse"))
            # (4) monotone on the domain of use
            if prev is not None and not (sign * (r - prev) > 0):
                ctx.fail("oracle", f"{key}.monotone", f"{cls}{tuple(ps)}: transform is not strictly {'de' if sign < 0 else 'in'}creasing "
                         f"between consecutive grid points up to {x}", witness={"class": cls, "params": ps, "x": x})
            prev = r
    _oracle_end_points(ctx, cls, ps, trim, Tf, T)


def oracle(ctx: Ctx, budget: str):
    rng = ctx.rng
    mod = rt()

    def main():
        for cls in CLASSES:
            for ps, trim in _grid(cls, budget, rng):
                try:
                    _oracle_one(ctx, mod, cls, ps, trim, budget)
                except Exception as e:  # noqa: BLE001 - the library raised on admissible parameters / interior points
                    ctx.fail("oracle", f"rtransform.{cls}:raises", f"{cls}{tuple(ps)} trim={trim}: evaluating the property (methods at interior "
                             f"points, round trips, end points) raised {type(e).__name__}: {str(e)[:200]}",
                             witness={"class": cls, "params": ps, "trim": trim, "exception": type(e).__name__},
                             snippet=SNIPPET_RAISES.format(cls=cls, ps=list(ps), trim=(trim if cls in HAS_TRIM else None), xs=_xs_for(cls, ps, budget)))
    # every part runs even when an earlier one raised (a changed tree may reject what a probe constructs); the first
    # exception is re-raised at the end, so the runner still reports the crash
    c03_r3.run_parts([
        main,
        lambda: _oracle_knowles_end_point(ctx, mod, budget),
        lambda: _oracle_scalar_arguments(ctx, mod),
        lambda: _oracle_excluded_parameters(ctx, mod),
        lambda: _oracle_round2(ctx, mod, budget),
        lambda: c03_ext.oracle_ext(ctx, budget, CLASSES, gen_params, construct, end_points),
        lambda: c03_r3.oracle_r3(ctx, budget, sys.modules[__name__]),
        lambda: c03_r4.oracle_r4(ctx, budget, sys.modules[__name__]),
        lambda: c03_r5.oracle_r5(ctx, budget, sys.modules[__name__])])


def _oracle_end_points(ctx, cls, ps, trim, Tf, T):
    key = f"rtransform.{cls}.endpoints"
    inf = float("inf")
    with np.errstate(all="ignore"):
        lo_d, hi_d = Tf.domain
        lo_c, hi_c = Tf.codomain
        if cls in B_SCALED:
            pts = [(0.0, float(lo_c)), (float(ps[2]), float(hi_c))]
        elif cls == "HyperbolicRTransform":
            pts = [(0.0, 0.0)]
        elif cls == "MultiExpRTransform":
            pts = [(float(hi_d), float(lo_c)), (float(lo_d), float(hi_c))]
        elif cls == "IdentityRTransform":
            pts = [(0.0, 0.0)]
        else:
            pts = [(float(lo_d), float(lo_c)), (float(hi_d), float(hi_c))]
        for x, want in pts:
            got = _vals(Tf.transform(np.array([x])))[0]
            if want == inf:
                # every pole of these maps is reached exactly in floating point (division by an exact zero, log of an
                # exact zero): the property asks for inf, or 1e16 when trimming
                want_txt = "1e16" if trim else "inf"
                ok = got == (1e16 if trim else inf)
                exact = None
            else:
                exact = float(hp_call(T, "transform", x))
                ok = close(got, want, rtol=1e-12, atol=1e-12) and close(exact, want, rtol=1e-30, atol=1e-30)
                want_txt = repr(want)
            if not ok:
                ctx.fail("oracle", key, f"{cls}{tuple(ps)} trim={trim}: transform({x}) = {got!r}"
                         + (f" (40-digit: {exact!r})" if exact is not None else "") + f", the codomain end is {want_txt}",
                         witness={"class": cls, "params": ps, "trim": trim, "x": x, "got": got},
                         snippet=SNIPPET_END.format(cls=cls, ps=list(ps), trim=trim, x=x, want=(1e16 if trim else inf) if want == inf else want))


def _oracle_knowles_end_point(ctx, mod, budget):
    """x = 1 must map to inf (1e16 when trimming) for every exponent, half-integers included."""
    ks = [0.5, 1.5, 2.5, 4.5, 5.5, 1.2, 2.2, 3.3, 3.7, 1, 2, 3, 6]
    if budget == "large":
        ks += [round(0.5 + 0.1 * i, 1) for i in range(56)]
    for k in ks:
        for trim in (True, False):
            ps = [0.1, 1.5, k]
            with np.errstate(all="ignore"):
                T = mod.KnowlesRTransform(*ps, trim_inf=trim)
                want = 1e16 if trim else float("inf")
                for how, got in (("array", _vals(T.transform(np.array([0.3, 1.0])))[1]), ("float", _vals(T.transform(1.0))[0])):
                    if got != want:
                        ctx.fail("oracle", "rtransform.KnowlesRTransform.endpoints", f"KnowlesRTransform{tuple(ps)} trim={trim}: transform(1.0) "
                                 f"[{how}] = {got!r}, the codomain end is {want!r}", witness={"params": ps, "trim": trim, "got": got},
                                 snippet=SNIPPET_END.format(cls="KnowlesRTransform", ps=ps, trim=trim, x=1.0, want=want))


def _oracle_scalar_arguments(ctx, mod):
    """'scalar or array': a Python float argument must be accepted and agree with the one-element array."""
    for cls in CLASSES:
        ps, _ = {"HyperbolicRTransform": ([1.5, 0.01], None), "HandyModRTransform": ([0.1, 20.0, 3], True)}.get(
            cls, gen_params(cls, ctx.rng))
        if cls in B_SCALED:
            ps = [0.1, 5.0, 3.0]
        Tf = construct(cls, ps, True)
        x = 0.3 if cls in FINITE_DOMAIN else 2.5
        bad = []
        with np.errstate(all="ignore"):
            r = _vals(Tf.transform(np.array([x])))[0]
            for meth in METHODS:
                a = x if meth in FWD else r
                want = _vals(getattr(Tf, meth)(np.array([a])))[0]
                try:
                    got = _vals(getattr(Tf, meth)(float(a)))[0]
                    if not close(got, want, rtol=1e-12):
                        bad.append(f"{meth}: {got!r} vs array {want!r}")
                except Exception as e:  # noqa: BLE001 - any exception on a valid scalar is the failure looked for
                    bad.append(f"{meth}: {type(e).__name__}")
        if bad:
            ctx.fail("oracle", f"rtransform.{cls}.scalar", f"{cls}{tuple(ps)} does not accept the Python float {x} (scalar argument): " + "; ".join(bad),
                     witness={"class": cls, "params": ps, "x": x, "failures": bad},
                     snippet=SNIPPET_SCALAR.format(cls=cls, ps=list(ps), meths=[b.split(":")[0] for b in bad], x=x))


def _oracle_excluded_parameters(ctx, mod):
    """Parameters the constructor admits but the theorems exclude by an explicit hypothesis: run the code there and
    say what it does (information only)."""
    def show(T, meth, x):
        with np.errstate(all="ignore"):
            try:
                return repr(_vals(getattr(T, meth)(np.array([x])))[0])
            except Exception as e:  # noqa: BLE001
                return type(e).__name__
    T = mod.ExpRTransform(0.0, 1.0, b=1.0)
    ctx.info("excluded (hypothesis 0 < rmin): ExpRTransform(rmin=0, rmax=1, b=1) is accepted; transform(0.5) = "
             f"{show(T, 'transform', 0.5)}, deriv(0.5) = {show(T, 'deriv', 0.5)}, inverse(0.5) = {show(T, 'inverse', 0.5)}")
    T = mod.BeckeRTransform(0.1, -1.5)
    ctx.info(f"excluded (hypothesis 0 < R): BeckeRTransform(0.1, R=-1.5) is accepted; transform(0.3) = {show(T, 'transform', 0.3)} "
             f"(below rmin, decreasing), deriv(0.3) = {show(T, 'deriv', 0.3)}")
    T = mod.HandyRTransform(0.1, -1.5, 2.5)
    ctx.info(f"excluded (hypothesis 0 < R): HandyRTransform(0.1, R=-1.5, m=2.5) is accepted; inverse(transform(0.3)) = "
             f"{show(T, 'inverse', _vals(T.transform(np.array([0.3])))[0])}")
    T = mod.HandyModRTransform(0.1, 3.1, 3)
    ctx.info("excluded (hypothesis 2^m - 1 < rmax - rmin): HandyModRTransform(0.1, 3.1, m=3) is accepted (rmax-rmin = 3 < 7): "
             f"transform(-0.5) = {show(T, 'transform', -0.5)}, transform(0.2) = {show(T, 'transform', 0.2)}, transform(0.9) = "
             f"{show(T, 'transform', 0.9)} (pole inside the domain, not monotone); HandyModRTransform(0.5, 0.5, 2).deriv(0.3) = "
             f"{show(mod.HandyModRTransform(0.5, 0.5, 2), 'deriv', 0.3)} (constant map)")
    T = mod.LinearFiniteRTransform(2.0, 1.0)
    ctx.info(f"excluded (hypothesis rmin < rmax): LinearFiniteRTransform(2, 1) is accepted; deriv(0.0) = {show(T, 'deriv', 0.0)} (decreasing)")
    T = mod.PowerRTransform(0.1, 5.0, b=-0.5)
    ctx.info(f"excluded (hypothesis 0 < b): PowerRTransform(0.1, 5, b=-0.5) is accepted; transform(0.3) = {show(T, 'transform', 0.3)}, "
             f"deriv(0.3) = {show(T, 'deriv', 0.3)} (decreasing)")
    T = mod.HyperbolicRTransform(1.0, 0.1)
    ctx.info("declared domain (0, inf) of HyperbolicRTransform(1, 0.1) beyond the pole 1/b = 10: transform(np.array([20.0])) = "
             f"{show(T, 'transform', 20.0)} (negative); the theorems are on the domain of use (0, 1/b)")


# ============================================================================
# round 2: parameter kinds, argument kinds, extreme parameters, state carried between calls.
#
# Every case is a replayable script: python source statements that build the objects and the arguments, followed by one
# call.  The same scripts are compared with the generated Lean model (correspondence) and, on a smaller sample, with the
# 40-digit reference (oracle); `oracle_at` re-runs the script of a correspondence disagreement against that reference.
# ============================================================================
import warnings  # noqa: E402

PARAM_NAMES = {
    "BeckeRTransform": ["rmin", "R"], "LinearFiniteRTransform": ["rmin", "rmax"], "IdentityRTransform": [],
    "LinearInfiniteRTransform": ["rmin", "rmax", "b"], "ExpRTransform": ["rmin", "rmax", "b"],
    "PowerRTransform": ["rmin", "rmax", "b"], "HyperbolicRTransform": ["a", "b"], "MultiExpRTransform": ["rmin", "R"],
    "KnowlesRTransform": ["rmin", "R", "k"], "HandyRTransform": ["rmin", "R", "m"], "HandyModRTransform": ["rmin", "rmax", "m"]}
# methods whose value does not depend on the argument (`np.ones(x.size) * constant`, `x` itself): the answer is the
# float64 constant whatever the dtype of the argument, so these are compared at full precision for every dtype
XFREE = {(c, m) for c in ("LinearFiniteRTransform", "IdentityRTransform", "LinearInfiniteRTransform")
         for m in METHODS if m not in ("transform", "inverse")} | {("IdentityRTransform", "transform"), ("IdentityRTransform", "inverse")}
WRAP_OF = {"transform": "inverse", "inverse": "transform", "deriv": "deriv_inverse", "deriv2": "deriv2_inverse",
           "deriv3": "deriv3_inverse", "deriv_inverse": "deriv", "deriv2_inverse": "deriv2", "deriv3_inverse": "deriv3"}
ORDER_OF = {"deriv": 1, "deriv2": 2, "deriv3": 3, "deriv_inverse": 1, "deriv2_inverse": 2, "deriv3_inverse": 3}
INT_KINDS = ("int64", "int32", "bool", "np.int64")
ARG_KINDS = ["float64", "int64", "int32", "bool", "float32", "2d", "0d", "pyfloat", "pyint", "np.float64", "np.float32",
             "np.int64", "noncontig", "reversed-view", "readonly", "repeated"]


def _flist(v):
    return "[" + ", ".join(repr(float(t)) for t in v) + "]"


def _param_src(v, kind):
    if kind == "int":
        return repr(int(v))
    if kind in ("np.int64", "np.int32"):
        return f"{kind}({int(v)})"
    if kind == "float":
        return repr(float(v))
    return f"{kind}({float(v)!r})"


def _pkinds_of(ps):
    return ["int" if isinstance(p, int) else "float" for p in ps]


def _obj(name, cls, ps, trim, pkinds=None, style="kwtrim", wrapped=False, b_none=False):
    """one transform object of a script: model parameters (floats, float32 parameters at their rounded value) + source"""
    pkinds = list(pkinds or _pkinds_of(ps))
    vals, srcs = [], []
    for p, k in zip(ps, pkinds):
        if k == "np.float32":
            p = float(np.float32(p))
        vals.append(float(p))
        srcs.append(_param_src(p, k))
    return dict(name=name, cls=cls, ps=vals, srcs=srcs, pkinds=pkinds, trim=(bool(trim) if cls in HAS_TRIM else None),
                style=style, wrapped=wrapped, b_none=b_none)


def _ctor(o):
    """statements that build the object: positional / keyword parameters, trim_inf keyword / positional / left at its default"""
    names = PARAM_NAMES[o["cls"]]
    srcs = o["srcs"][:2] if o["b_none"] else o["srcs"]
    args = [f"{n}={s}" for n, s in zip(names, srcs)] if o["style"] == "kw" else list(srcs)
    if o["b_none"] and o["style"] == "kw":
        args.append("b=None")
    if o["trim"] is not None:
        if o["style"] == "pos":
            args.append(repr(o["trim"]))
        elif not (o["style"] == "default" and o["trim"]):
            args.append(f"trim_inf={o['trim']}")
    out = [f"{o['name']} = rt.{o['cls']}({', '.join(args)})"]
    if o["wrapped"]:
        out.append(f"{o['name']} = rt.InverseRTransform({o['name']})")
    return out


def _step(o, meth, pre, arg, xs, kind, f32=False, shape=None, argvar=None, ps=None, sub="int"):
    return dict(o=o, ps=list(o["ps"] if ps is None else ps), meth=meth, pre=list(pre), call=f"{o['name']}.{meth}({arg})",
                xs=[float(x) for x in xs], kind=kind, f32=f32, shape=shape, argvar=argvar, sub=sub)


def _single(st):
    """does the arithmetic of this call run in single precision?  (NumPy >= 2 promotion: a float32 array or scalar combined
    with Python numbers stays float32; float32 parameters combined with a Python float / int or a bool array stay float32;
    a float64 array or np.float64 argument promotes everything that touches it)"""
    return st["f32"] or ("np.float32" in st["o"]["pkinds"] and st["kind"] in ("pyfloat", "pyint", "bool"))


def _rtol_of(st):
    o = st["o"]
    r = 1e-10
    if _single(st) and (o["cls"], st["meth"]) not in XFREE:
        r = 2e-3        # single-precision arithmetic at benign points (1 - q**k, 1 - exp(..) lose 3-4 of the 7 digits)
    if "np.float32" in o["pkinds"]:
        r = max(r, 1e-5)    # parameter-only subexpressions (2**k, 1/m, log(rmax/rmin)) run in single precision
        if (WRAP_OF[st["meth"]] if o["wrapped"] else st["meth"]) in ("deriv2_inverse", "deriv3_inverse"):
            # -d2/d1**3 and (3 d2**2 - d1 d3)/d1**5 cancel (the higher derivatives of the inverse map change sign inside the
            # domain): a single-precision 1/k (2e-8) is amplified by the cancellation factor (seed 14: factor 130 -> 1.1e-5).
            # The float64-parameter objects of the same section keep rtol 1e-10 for these two methods.
            r = max(r, 1e-3)
    return r


def _expected_tag(st):
    o = st["o"]
    if o["cls"] == "HyperbolicRTransform" and st["ps"][1] * (len(st["xs"]) - 1) >= 1.0:
        return "value-error"
    return "ok"


def _pert(x, bits):
    return 2.0 ** -bits * max(abs(x), 1.0)


def _noise_verdict(cls, ps, trim, wrapped, meth, x, iv, mval):
    """Model and implementation disagree beyond rtol at x: 'ok' | 'bad' | 'ill'.  The rounding noise of either double
    evaluation is measured against the same implementation code run in 40-digit arithmetic.  'ok': one of the two is
    within 1e-5 of the 40-digit value and the other within 100x that distance (a changed coefficient or a stale value
    moves the result by far more); 'ill': both double evaluations are off the 40-digit value by more than 1e-7 (the
    formula is ill-conditioned at x, e.g. 1 - exp(-1e-15): two double evaluations cannot be compared there)."""
    try:
        T = construct_hp(cls, ps, trim)
        if wrapped:
            T = rt().InverseRTransform(T)
        with np.errstate(all="ignore"):
            ref = hp_call(T, meth, x)
    except Exception:  # noqa: BLE001
        return "bad"
    if not mpmath.isfinite(ref) or ref == 0:
        return "ill"

    def dev(v):
        return mpmath.inf if (v != v or abs(v) == float("inf")) else abs((mpmath.mpf(v) - ref) / ref)
    ni, nm = dev(iv), dev(mval)
    if (ni < 1e-5 and nm <= max(mpmath.mpf(1e-10), 100 * ni)) or (nm < 1e-5 and ni <= max(mpmath.mpf(1e-10), 100 * nm)):
        return "ok"
    return "ill" if min(ni, nm) > 1e-7 else "bad"


class _Scripts:
    """collects executed script steps; judged against the Lean model (`judge_model`) or the 40-digit reference
    (`judge_reference`)"""

    def __init__(self, ctx, mod, section):
        self.ctx, self.mod, self.section = ctx, mod, section
        self.done = []
        self.notes = ctx.__dict__.setdefault("_c03_notes", {})

    # -- running ---------------------------------------------------------------------------------------------------
    def run(self, objs, steps):
        setup = [s for o in objs for s in _ctor(o)]
        ns = {"np": np, "rt": self.mod}
        hist = list(setup)
        kept = []
        with np.errstate(all="ignore"), warnings.catch_warnings():
            warnings.simplefilter("ignore")
            for s in setup:
                exec(s, ns)
            for st in steps:
                tag, v, note = "ok", None, ""
                script = hist + st["pre"]
                try:
                    for s in st["pre"]:
                        exec(s, ns)
                    before = np.array(ns[st["argvar"]], copy=True) if st["argvar"] else None
                    v = eval(st["call"], ns)
                    if isinstance(v, np.ndarray) and st["argvar"] and v is ns[st["argvar"]]:
                        # IdentityRTransform.transform / inverse hand back the argument object itself: judge the values
                        # as they are now (a later in-place edit of the argument shows through such a result)
                        self.notes.setdefault("alias", {})[f"{st['o']['cls']}.{st['meth']}"] = st["call"]
                        v = v.copy()
                    if before is not None and not np.array_equal(before, ns[st["argvar"]], equal_nan=True):
                        note = "the call changed its argument in place"
                    if isinstance(v, np.ndarray) and not (st["o"]["cls"] == "IdentityRTransform" and st["meth"] in ("transform", "inverse")):
                        kept.append((st, script, v, v.copy()))
                except ValueError as e:
                    tag, note = "value-error", str(e)
                except ZeroDivisionError as e:
                    tag, note = "zero-division-error", str(e)
                except Exception as e:  # noqa: BLE001 - reported by the judge
                    tag, note = type(e).__name__, str(e)
                hist = script + [f"_ = {st['call']}"]
                st["reducible"] = not any(o["b_none"] for o in objs)     # (an inferred b depends on the earlier calls)
                self.done.append((st, script, tag, v, note))
        for st, script, v, v0 in kept:
            if not np.array_equal(v, v0, equal_nan=True):
                self.ctx.fail("corr", f"state:{st['o']['cls']}.{st['meth']}:{self.section}",
                              f"the array returned by {st['call']} was changed by a later call of the same script",
                              witness={"script": hist, "call": st["call"]})

    def _desc(self, st):
        o = st["o"]
        return (f"[{self.section}/{st['kind']}] {'InverseRTransform of ' if o['wrapped'] else ''}{o['cls']}{tuple(st['ps'])} "
                f"trim={o['trim']} after {st['call']}")

    def _witness(self, st, script, j, iv, mv, **more):
        o = st["o"]
        w = {"class": o["cls"], "params": st["ps"], "trim": o["trim"], "method": st["meth"], "x": st["xs"][j] if st["xs"] else None,
             "wrapped": o["wrapped"], "impl": iv, "model": mv, "script": script, "call": st["call"], "index": j, "size": len(st["xs"]),
             "kind": st["kind"], "rtol": _rtol_of(st), "f32": _single(st), "reducible": st.get("reducible", False)}
        w.update(more)
        return w

    def _known_quirk(self, st, tag, note):
        """behaviour of the unchanged library on argument kinds at the edge of 'scalar or array': information, not a failure"""
        if tag == "value-error" and "Integers to negative integer powers" in note:
            k = f"{st['o']['cls']}.{st['meth']}"
            self.notes.setdefault("int-power", {})[k] = f"{'; '.join(_ctor(st['o'])[:1] + st['pre'][-1:])}; {st['call']}"
            self.ctx.tagc("r2:information:integer-dtype-negative-integer-power")
            return True
        return self._int_arith_quirk(st, tag, f"raises {tag}: {note[:80]}")

    def _int_arith_quirk(self, st, tag, what):
        """an integer-typed argument together with integer-typed parameters of the exponent classes: the closed forms are then
        evaluated in fixed-width integer arithmetic (int32 array (op) Python int stays int32) and overflow, silently or with
        OverflowError: information, reported once"""
        o = st["o"]
        if (st["kind"] in INT_KINDS + ("pyint",) and o["cls"] in ("KnowlesRTransform", "HandyRTransform", "HandyModRTransform")
                and any(k in ("int", "np.int64", "np.int32") for k in o["pkinds"]) and tag in ("ok", "OverflowError")):
            self.notes.setdefault("int-arith", {}).setdefault(
                f"{o['cls']}.{st['meth']}", f"{'; '.join(_ctor(o)[:1] + st['pre'][-1:])}; {st['call']} {what}")
            self.ctx.tagc("r2:information:integer-argument-and-integer-parameters-overflow")
            return True
        return False

    def _shape_note(self, st, v):
        if st["shape"] is not None and tuple(np.shape(v)) != tuple(st["shape"]):
            k = f"{st['o']['cls']}.{st['meth']}"
            self.notes.setdefault("shape", {}).setdefault(k, f"{st['kind']} argument of shape {tuple(st['shape'])} -> result of shape {tuple(np.shape(v))}")
            self.ctx.tagc("r2:information:result-shape-differs-from-argument")

    def flush_notes(self):
        """notes are kept on the context and reported once per run by `_emit_notes`"""

    def _count(self, st):
        o = st["o"]
        for x in st["xs"]:
            self.ctx.count([self.section, o["cls"], st["meth"], st["ps"], o["trim"], o["wrapped"], st["kind"], o["srcs"], st["call"], x],
                           nontrivial=True, tag=f"r2:{self.section}:{st['kind'] if self.section != 'wide' else st['sub']}")

    # -- against the generated Lean model ----------------------------------------------------------------------------
    def judge_model(self):
        ctx = self.ctx
        lines, idx = [], []
        for i, (st, script, tag, v, note) in enumerate(self.done):
            o = st["o"]
            op = "evalinv" if o["wrapped"] else "eval"
            n = len(st["xs"])
            for x in st["xs"]:
                lines.append(_line(op, o["cls"], st["meth"], o["trim"], n, st["ps"], x))
                idx.append((i, 0))
            if _single(st) and _rtol_of(st) > 1e-9:
                # sensitivity of the model to a single-precision ulp of the argument (conditioning x eps32)
                for x in st["xs"]:
                    for sgn in (1, -1):
                        lines.append(_line(op, o["cls"], st["meth"], o["trim"], n, st["ps"], x + sgn * _pert(x, 22)))
                        idx.append((i, 1))
        answers = driver_batch(lines)
        per, pert = {}, {}
        for (i, which), a in zip(idx, answers):
            (pert if which else per).setdefault(i, []).append(a)
        for i, (st, script, tag, v, note) in enumerate(self.done):
            self._count(st)
            self._judge_one_model(st, script, tag, v, note, per.get(i, []), pert.get(i))
        self.done = []
        self.flush_notes()

    def _judge_one_model(self, st, script, tag, v, note, ans, pert):
        ctx = self.ctx
        o = st["o"]
        cls, meth = o["cls"], st["meth"]
        op = "evalinv" if o["wrapped"] else "eval"
        key = f"{op}:{cls}.{meth}:{self.section}"

        def fail(what, j=0, iv=None, mv=None):
            ctx.fail("corr", key, f"{self._desc(st)}: {what}", witness=self._witness(st, script, j, iv, mv))
        if tag != "ok":
            ok = (tag in ans) if tag == "zero-division-error" else bool(ans) and all(a == tag for a in ans)
            if not ok and not self._known_quirk(st, tag, note):
                fail(f"implementation raises {tag} ({note[:80]}), generated model {ans[0] if ans else None}", 0, tag, ans[0] if ans else None)
            return
        try:
            vals = _vals(v)
        except Exception as e:  # noqa: BLE001
            return fail(f"implementation returns {type(v).__name__} ({type(e).__name__})", 0, repr(v)[:80], ans[0] if ans else None)
        if len(vals) != len(st["xs"]):
            return fail(f"implementation returns {len(vals)} values for {len(st['xs'])} points", 0, vals[:6], ans[0] if ans else None)
        if note:
            return fail(note, 0, vals[0], ans[0])
        self._shape_note(st, v)
        rtol = _rtol_of(st)
        xdom = meth == ("transform" if o["wrapped"] else "inverse")
        for j, (x, iv, a) in enumerate(zip(st["xs"], vals, ans)):
            toks = a.split()
            mval = b2f(toks[1]) if toks[0] == "ok" and len(toks) == 2 else None
            if mval is None:
                fail(f"at {x!r}: implementation {iv!r}, generated model {a}", j, iv, a)
                continue
            atol = (rtol * 0.1 if rtol > 1e-9 else 1e-12) if xdom else 0.0
            ok = close(iv, mval, rtol=rtol, atol=atol)
            if not ok and pert is not None:
                pm = [b2f(t.split()[1]) for t in pert[2 * j:2 * j + 2] if t.startswith("ok ") and len(t.split()) == 2]
                if len(pm) == 2 and all(math.isfinite(p) for p in pm) and math.isfinite(mval):
                    ok = abs(iv - mval) <= atol + rtol * max(abs(iv), abs(mval)) + 50 * max(abs(pm[0] - mval), abs(pm[1] - mval))
                    if ok:
                        ctx.tagc("r2:float32-conditioning-allowance")
            if not ok and rtol <= 1e-9 and not _single(st):
                verdict = _noise_verdict(cls, st["ps"], o["trim"], o["wrapped"], meth, x, iv, mval)
                ctx.tagc("r2:ill-conditioned-point-not-compared" if verdict == "ill" else "r2:conditioning-fallback")
                ok = verdict != "bad"
            if not ok and not self._int_arith_quirk(st, "ok", f"= {iv!r}, the float64 argument gives {mval!r}"):
                fail(f"at {x!r} [element {j} of {len(vals)}]: implementation {iv!r}, generated model {mval!r}", j, iv, mval)

    # -- against the 40-digit reference -------------------------------------------------------------------------------
    def judge_reference(self, refs):
        ctx = self.ctx
        for st, script, tag, v, note in self.done:
            o = st["o"]
            cls = o["cls"]
            eff = WRAP_OF[st["meth"]] if o["wrapped"] else st["meth"]
            key = f"rtransform.{cls}.{eff}"
            self._count(st)
            expect = _expected_tag(st)
            if expect != "ok":
                continue
            if tag != "ok":
                if not self._known_quirk(st, tag, note):
                    ctx.fail("oracle", f"rtransform.{cls}.argument", f"{self._desc(st)}: a valid argument ({st['kind']}) is not accepted: {tag} {note[:100]}",
                             witness=self._witness(st, script, 0, tag, None, reference=None),
                             snippet=SNIPPET_ACCEPT.format(script="\n".join(script), call=st["call"]))
                continue
            try:
                vals = _vals(v)
            except Exception:  # noqa: BLE001
                vals = []
            if len(vals) != len(st["xs"]) or note:
                ctx.fail("oracle", f"rtransform.{cls}.argument", f"{self._desc(st)}: " + (note or f"{len(vals)} values for {len(st['xs'])} points"),
                         witness=self._witness(st, script, 0, repr(v)[:80], None, reference=None),
                         snippet=None)
                continue
            self._shape_note(st, v)
            for j, (x, iv) in enumerate(zip(st["xs"], vals)):
                ref = _reference(refs, cls, st["ps"], o["trim"], eff, x)
                if ref is None:
                    continue
                tol, atol = _oracle_tol(refs, st, eff, x, ref)
                bad = not abs(mpmath.mpf(iv) - ref) <= tol * max(abs(ref), mpmath.mpf(1e-12)) + atol
                if bad and eff in ORDER_OF:
                    # a derivative that vanishes identically for these parameters (PowerRTransform with an integer power,
                    # k = 1, m = 1 ...): the double evaluation leaves rounding residue of the coefficient (power - 1 ~ 1e-16);
                    # measure it on the scale of the next lower derivative over the length scale of the argument
                    low = {1: base_of(eff), 2: "deriv", 3: "deriv2"}[ORDER_OF[eff]] + ("_inverse" if eff.endswith("_inverse") and ORDER_OF[eff] > 1 else "")
                    lref = _reference(refs, cls, st["ps"], o["trim"], low, x)
                    if lref is not None:
                        atol = tol * abs(lref) / (1 + abs(x))
                        bad = not abs(mpmath.mpf(iv) - ref) <= tol * max(abs(ref), mpmath.mpf(1e-12)) + atol
                if bad and self._int_arith_quirk(st, "ok", f"= {iv!r}, the float64 argument gives {mpmath.nstr(ref, 12)}"):
                    continue
                if bad:
                    if len([f for f in ctx.failures if f.kind == "oracle" and f.key == key]) >= 3:
                        continue
                    script2, snip, remark = _script_and_snippet(
                        ctx, self.mod, st.get("reducible"), lambda g: not abs(mpmath.mpf(g) - ref) <= tol * max(abs(ref), mpmath.mpf(1e-12)) + atol,
                        cls, st["ps"], o["trim"], eff, x, script, st["call"], j, tol, atol)
                    ctx.fail("oracle", key, f"{self._desc(st)}: element {j} (point {x!r}) = {iv!r}, but {_what_ref(eff)} there is "
                             f"{mpmath.nstr(ref, 15)}{remark}",
                             witness=self._witness(st, script2, j, iv, None, reference=mpmath.nstr(ref, 20), effective_method=eff, tol=tol),
                             snippet=snip)
        self.done = []
        self.flush_notes()


def base_of(eff):
    return "inverse" if eff.endswith("inverse") else "transform"


def _run_script(mod, script, call, index):
    ns = {"np": np, "rt": mod}
    with np.errstate(all="ignore"), warnings.catch_warnings():
        warnings.simplefilter("ignore")
        for s in script:
            exec(s, ns)
        return float(np.asarray(eval(call, ns), dtype=float).ravel()[index])


def _fails_in_fresh_process(ctx, snippet):
    """run a snippet in a new interpreter (same sys.path): True / False = it raises AssertionError or not; None = not tried
    (at most 8 per run)"""
    import os
    import subprocess
    import sys
    left = ctx.__dict__.get("_c03_confirm_left", 8)
    if left <= 0:
        return None
    ctx._c03_confirm_left = left - 1
    env = dict(os.environ, PYTHONPATH=os.pathsep.join(q for q in sys.path if q))
    try:
        r = subprocess.run([sys.executable, "-c", snippet], capture_output=True, timeout=120, env=env)
    except Exception:  # noqa: BLE001
        return None
    return r.returncode != 0 and b"AssertionError" in r.stderr


def _script_and_snippet(ctx, mod, reducible, still_fails, cls, ps, trim, eff, x, script, call, index, tol, atol):
    """-> (script, snippet, remark): the shortest replay of the failing call that still fails in a fresh process.  Earlier calls
    are dropped when the failure does not depend on them; state left behind by earlier scripts of this process (a module-level
    cache) is not available to the snippet, which is said in the remark when the replay does not reproduce on its own."""
    cands = []
    short = [s for s in script if not s.startswith("_ = ")]
    if reducible and len(short) < len(script):
        try:
            if still_fails(_run_script(mod, short, call, index)):
                cands.append(short)
        except Exception:  # noqa: BLE001
            pass
    cands.append(list(script))
    for c in cands:
        snip = _snippet_at(cls, ps, trim, eff, x, c, call, index, tol, atol)
        if _fails_in_fresh_process(ctx, snip) is not False:
            return c, snip, ""
    return cands[-1], snip, (" [replaying these calls alone in a fresh process does not reproduce it: the answer depends on calls made "
                             "earlier in this run (state kept outside the object)]")


def _what_ref(eff):
    if eff in ORDER_OF:
        return f"the order-{ORDER_OF[eff]} derivative of {'inverse' if eff.endswith('_inverse') else 'transform'}"
    return f"the value r with inverse(r) = x" if eff == "transform" else "the value x with transform(x) = r"


def _hp_object(refs, cls, ps, trim):
    k = ("T", cls, tuple(ps), trim)
    if k not in refs:
        refs[k] = construct_hp(cls, ps, trim)
    return refs[k]


def _reference(refs, cls, ps, trim, eff, x):
    """the quantity the property prescribes for method `eff` at x, from the implementation's own transform / inverse run
    in 40-digit arithmetic: derivatives by numerical differentiation; transform(x) (inverse(r)) as the point certified by
    the opposite map.  None when it does not exist (a pole, an uncertified round trip: the main oracle reports those)."""
    k = (cls, tuple(ps), trim, eff, x)
    if k in refs:
        return refs[k]
    mp = mpmath
    out = None
    try:
        with np.errstate(all="ignore"):
            T = _hp_object(refs, cls, ps, trim)
            xm = mp.mpf(x)
            if eff in ORDER_OF:
                base = "inverse" if eff.endswith("_inverse") else "transform"
                out = mp.diff(lambda y: hp_call(T, base, y), xm, ORDER_OF[eff])
            else:
                v = hp_call(T, eff, xm)
                back = hp_call(T, WRAP_OF[eff], v)
                if mp.isfinite(v) and abs(back - xm) <= mp.mpf(10) ** -25 * max(1, abs(xm)):
                    out = v
        if out is not None and not mp.isfinite(out):
            out = None
    except Exception:  # noqa: BLE001
        out = None
    refs[k] = out
    return out


def _ref_cond(refs, cls, ps, trim, eff, x, ref, bits):
    """relative change of the reference under a change of the argument by 2^-bits (relative to max(|x|, 1))"""
    h = _pert(x, bits)
    nb = [_reference(refs, cls, ps, trim, eff, x + s * h) for s in (1, -1)]
    if ref == 0 or any(n is None for n in nb):
        return None
    return max(abs(n - ref) for n in nb) / abs(ref)


def _oracle_tol(refs, st, eff, x, ref):
    o = st["o"]
    xdom = eff == "inverse"
    if (o["cls"], st["meth"]) in XFREE:
        t = 1e-12
    elif _single(st):
        ce = _ref_cond(refs, o["cls"], st["ps"], o["trim"], eff, x, ref, 22)
        t = 2e-3 + 50 * float(ce if ce is not None else 1.0)
    else:
        t = 1e-6 if eff.endswith("_inverse") else 1e-7
    if "np.float32" in o["pkinds"]:
        t = max(t, 1e-5)
    return t, ((t * 0.1 if t > 1e-9 else 1e-11) if xdom else 0.0)


SNIPPET_AT = HP_SRC + '''
import warnings; warnings.filterwarnings('ignore')
import numpy as np
from grid import rtransform as rt
np.seterr(all='ignore')
cls, ps, trim, meth, x, order, base = {cls!r}, {ps!r}, {trim!r}, {meth!r}, {x!r}, {order}, {base!r}
# the calls made in this process before the one under test (objects, arguments, earlier calls)
{script}
got = float(np.asarray({call}, dtype=float).ravel()[{index}])      # the call under test, element at the point x
kw = dict(trim_inf=trim) if trim is not None else dict()
T = getattr(rt, cls)(*[HP(p) for p in ps], **kw)          # the implementation, executed in 40-digit arithmetic
if order:
    ref = mpmath.diff(lambda y: hp_call(T, base, y), mpmath.mpf(x), order)     # numerical derivative of `base`
    what = f'numerical derivative of order {{order}} of {{base}}'
else:
    ref = hp_call(T, base, mpmath.mpf(x))
    assert abs(hp_call(T, {other!r}, ref) - x) <= mpmath.mpf(10) ** -25 * max(1, abs(x)), f'{{cls}}{{tuple(ps)}}: {other}({{base}}({{x}})) != {{x}} in 40-digit arithmetic'
    what = f'the point that {other} sends back to {{x}}'
assert abs(got - ref) <= {tol!r} * max(abs(ref), 1e-12) + {atol!r}, f'{{cls}}{{tuple(ps)}}: {call} [{index}] = {{got}}, {{what}} = {{mpmath.nstr(ref, 15)}}'
'''

SNIPPET_ACCEPT = '''import warnings; warnings.filterwarnings('ignore')
import numpy as np
from grid import rtransform as rt
np.seterr(all='ignore')
{script}
try:
    got = {call}
except Exception as e:
    raise AssertionError(f'a valid argument is not accepted: {{type(e).__name__}}: {{e}}')
'''


def _snippet_at(cls, ps, trim, eff, x, script, call, index, tol, atol):
    base = "inverse" if eff.endswith("inverse") else "transform"
    return SNIPPET_AT.format(cls=cls, ps=list(ps), trim=trim, meth=eff, x=x, order=ORDER_OF.get(eff, 0), base=base,
                             other=WRAP_OF[base], script="\n".join(script), call=call, index=index, tol=float(tol), atol=float(atol))


# -- generators of scripts ---------------------------------------------------------------------------------------------
def _nice_params(cls, rng):
    """admissible parameters that are integers or small dyadic numbers (exact as float32; integer ones also as int kinds)"""
    rmin = rng.choice([0.0, 1.0, 0.5, 0.125, 2.0])
    R = rng.choice([1.0, 2.0, 0.5, 1.5, 1024.0])
    e = rng.choice([float(rng.randint(1, 8)), rng.randint(0, 7) + 0.5, rng.choice([0.75, 2.25, 3.0, 1.0])])
    if cls in ("BeckeRTransform", "MultiExpRTransform"):
        return [rmin, R]
    if cls == "LinearFiniteRTransform":
        return [rmin, rmin + rng.choice([1.0, 4.5, 20.0])]
    if cls == "IdentityRTransform":
        return []
    if cls in B_SCALED:
        if cls != "LinearInfiniteRTransform" and rmin == 0.0:
            rmin = 0.25
        rmax, b = rmin + rng.choice([1.5, 4.0, 20.0]), rng.choice([1.0, 3.0, 0.5, 10.0, 7.5])
        if cls == "PowerRTransform":
            # an integer power (rmax/rmin = (b+1)**n) makes deriv2 or deriv3 vanish identically; with float32 parameters the
            # double model gives 0 and the implementation single-precision residue of (power - 1): nothing to compare
            while abs((p := math.log(rmax / rmin) / math.log(b + 1)) - round(p)) < 1e-6:
                b = rng.choice([1.0, 3.0, 0.5, 10.0, 7.5])
        return [rmin, rmax, b]
    if cls == "HyperbolicRTransform":
        return [rng.choice([1.0, 2.0, 0.5, 1.5]), rng.choice([1 / 64, 1 / 16, 1 / 8])]
    if cls in ("KnowlesRTransform", "HandyRTransform"):
        return [rmin, R, e]
    if cls == "HandyModRTransform":
        return [rmin, rmin + math.ceil(2.0 ** e - 1) + rng.choice([0.5, 2.0, 10.0, 40.0]), e]
    raise KeyError(cls)


def _pick_pkinds(ps, rng, allow32=True, int32=True):
    out = []
    for p in ps:
        ks = ["float", "np.float64"] + (["np.float32"] if allow32 else [])
        if float(p) == int(p):
            ks += ["int", "np.int64"] + (["np.int32"] if int32 else [])
        out.append(rng.choice(ks))
    return out


def _benign_points(cls, ps, rng, n):
    if cls in FINITE_DOMAIN:
        return [round(rng.uniform(-0.7, 0.7), rng.choice([2, 6, 15])) for _ in range(n)]
    if cls == "HyperbolicRTransform":
        return [rng.uniform(0.05, 0.9) / ps[1] for _ in range(n)]
    if cls in B_SCALED:
        return [rng.uniform(0.05, 2.0) * ps[2] for _ in range(n)]
    return [rng.uniform(0.05, 30.0) for _ in range(n)]


def _is_benign(cls, ps, x):
    if not math.isfinite(x):
        return False
    if cls in FINITE_DOMAIN:
        return -0.75 <= x <= 0.75
    if cls == "HyperbolicRTransform":
        return 0.02 / ps[1] <= x <= 0.92 / ps[1]
    if cls in B_SCALED:
        return 0.04 * ps[2] <= x <= 2.2 * ps[2]
    return 0.04 <= x <= 40.0


def _side_points(cls, ps, trim, rng):
    """-> {True: forward-side point sets, False: codomain-side point sets}; each dict(pts, ipts, dy)"""
    fin = cls in FINITE_DOMAIN
    n = rng.choice([2, 3, 4])
    pts = _benign_points(cls, ps, rng, n)
    # integer points and single-precision points stay in the well-conditioned middle of the domain (single precision: the
    # formulas 1 - q**k, 1 - exp(..), (1 + x)**(m - 3) lose most of the 7 digits next to an end); float32 points at their
    # float32 value (dyadic fractions of the scale: exact whenever the scale has few bits)
    if fin:
        ipts = [0]
        dcand = [-0.25, 0.0, 0.25, 0.5, 0.625, 0.125, 0.375]
    else:
        ipts = [k for k in range(1, 61) if _is_benign(cls, ps, k)]
        ipts = sorted(rng.sample(ipts, min(3, len(ipts))))
        scale = ps[2] if cls in B_SCALED else (1 / ps[1] if cls == "HyperbolicRTransform" else 2.0)
        dcand = [float(np.float32(f * scale)) for f in ((0.125, 0.25, 0.375, 0.5, 0.625, 0.75) if cls == "HyperbolicRTransform"
                                                        else (0.125, 0.25, 0.5, 0.75, 1.0, 1.25, 1.5))]
    dy, dy2 = rng.sample(dcand, 3), rng.sample(dcand, 3)
    with np.errstate(all="ignore"), warnings.catch_warnings():
        warnings.simplefilter("ignore")
        T = construct(cls, ps, trim)
        rpts = _vals(T.transform(np.array(pts)))
        rdy = [float(np.float32(r)) for r in _vals(T.transform(np.array(dy2)))]      # images, at their float32 value
        lo, hi = (float(t) for t in T.codomain)
        grid = [-0.7 + 0.1 * i for i in range(15)] if fin else [f * (ps[2] if cls in B_SCALED else (1 / ps[1] if cls == "HyperbolicRTransform" else 10.0))
                                                                for f in (0.06, 0.1, 0.2, 0.3, 0.45, 0.6, 0.75, 0.9, 1.2, 1.6, 2.0)]
        if cls == "HyperbolicRTransform":
            grid = [g for g in grid if g * ps[1] < 0.92]
        cand = sorted({int(round(r)) for r in _vals(T.transform(np.array(grid))) if math.isfinite(r) and abs(r) < 1e9})
        cand = [k for k in cand if lo < k < hi and _is_benign(cls, ps, _vals(T.inverse(np.array([float(k)])))[0])]
    ri = sorted(rng.sample(cand, min(3, len(cand))))
    return {True: dict(pts=pts, ipts=ipts, dy=dy), False: dict(pts=rpts, ipts=ri, dy=rdy)}


def _arg_of_kind(kind, P):
    """-> (pre statements, argument source, model points, single precision?, expected shape, variable to watch) or None"""
    pts, ipts, dy = P["pts"], P["ipts"], P["dy"]
    if kind in ("int64", "int32", "bool", "pyint", "np.int64") and not ipts:
        return None
    if kind in ("float32", "np.float32") and not dy:
        return None
    if kind == "float64":
        return [f"a = np.array({_flist(pts)})"], "a", pts, False, (len(pts),), "a"
    if kind in ("int64", "int32"):
        return [f"a = np.array({list(ipts)!r}, dtype=np.{kind})"], "a", ipts, False, (len(ipts),), "a"
    if kind == "bool":
        if ipts[0] not in (0, 1):
            return None
        return [f"a = np.array([{bool(ipts[0])}])"], "a", ipts[:1], False, (1,), "a"
    if kind == "float32":
        return [f"a = np.array({_flist(dy)}, dtype=np.float32)"], "a", dy, True, (len(dy),), "a"
    if kind == "2d":
        p4 = (list(pts) * 4)[:4]
        return [f"a = np.array({_flist(p4)}).reshape(2, 2)"], "a", p4, False, (2, 2), "a"
    if kind == "0d":
        return [f"a = np.array({float(pts[0])!r})"], "a", pts[:1], False, (), "a"
    if kind == "pyfloat":
        return [], repr(float(pts[0])), pts[:1], False, (), None
    if kind == "pyint":
        return [], repr(int(ipts[0])), ipts[:1], False, (), None
    if kind == "np.float64":
        return [], f"np.float64({float(pts[0])!r})", pts[:1], False, (), None
    if kind == "np.float32":
        return [], f"np.float32({float(dy[0])!r})", dy[:1], True, (), None
    if kind == "np.int64":
        return [], f"np.int64({int(ipts[0])})", ipts[:1], False, (), None
    if kind == "noncontig":
        inter = [t for i, p in enumerate(pts) for t in (p, pts[(i + 1) % len(pts)])]
        return [f"a = np.array({_flist(inter)})[::2]"], "a", pts, False, (len(pts),), "a"
    if kind == "reversed-view":
        return [f"a = np.array({_flist(pts[::-1])})[::-1]"], "a", pts, False, (len(pts),), "a"
    if kind == "readonly":
        return [f"a = np.array({_flist(pts)})", "a.setflags(write=False)"], "a", pts, False, (len(pts),), "a"
    if kind == "repeated":
        q = list(pts) + [pts[0]]
        return [f"a = np.array({_flist(q)})"], "a", q, False, (len(q),), "a"
    raise KeyError(kind)


def _script_kinds(S, cls, rng, rep):
    """audit classes 1, 2, 6: every argument kind x every method on one object built from parameters of mixed kinds"""
    if rep % 2 == 1:
        # integers / dyadic numbers: exact as float32 and (integers) as Python int, np.int64, np.int32
        ps = _nice_params(cls, rng)
        # (np.int32 rmin, rmax of HandyModRTransform overflow silently in deriv3: reported by the fixed probe, not drawn here)
        pk = _pick_pkinds(ps, rng, allow32=True, int32=(cls != "HandyModRTransform"))
    else:
        # generic decimal parameters as float / np.float64 (constants such as (rmax - rmin) / 2 are then not representable in
        # single precision: a result computed or stored as float32 shows)
        ps = gen_params(cls, rng)[0]
        # (Python floats on rep 0, 4, ..: an np.float64 parameter would promote a float32 intermediate back to double)
        pk = [k if k == "int" or rep % 4 == 0 else rng.choice(["float", "np.float64"]) for k in _pkinds_of(ps)]
    trim = rng.random() < 0.5
    o = _obj("T0", cls, ps, trim, pkinds=pk, style=rng.choice(["kwtrim", "kw", "pos", "default"]), wrapped=(rep % 3 == 2))
    sides = _side_points(cls, o["ps"], trim, rng)
    steps = []
    for kind in ARG_KINDS:
        for meth in METHODS:
            got = _arg_of_kind(kind, sides[(meth in FWD) != o["wrapped"]])
            if got is None:
                continue
            pre, arg, xs, f32, shape, argvar = got
            steps.append(_step(o, meth, pre, arg, xs, kind, f32=f32, shape=shape, argvar=argvar))
    S.run([o], steps)


def _gen_params_wide(cls, rng):
    """extreme but admissible parameters: rmin = 0, scale factors from 1e-3 to 1e6, exponents over [0.5, 8]"""
    e = rng.choice([rng.randint(1, 8), float(rng.randint(1, 8)), rng.randint(0, 7) + 0.5, round(rng.uniform(0.5, 8.0), 3)])
    rmin = rng.choice([0.0, 0.0, 1e-6, 0.3, 7.0])
    R = rng.choice([1e-3, 0.7, 1.0, 1e3, 1e6])
    trim = rng.random() < 0.7
    if cls in ("BeckeRTransform", "MultiExpRTransform"):
        return [rmin, R], trim
    if cls == "LinearFiniteRTransform":
        return [rmin, rmin + rng.choice([1e-3, 2.0, 1e6])], None
    if cls == "IdentityRTransform":
        return [], None
    if cls in B_SCALED:
        if cls != "LinearInfiniteRTransform" and rmin == 0.0:
            rmin = rng.choice([1e-6, 1e-3])
        rmax = rmin * rng.choice([1.5, 10.0, 1e4]) if rmin > 0 else rng.choice([1e-3, 2.0, 1e4])
        return [rmin, rmax, rng.choice([1e-3, 0.5, 1.0, 30.0, 1e3])], None
    if cls == "HyperbolicRTransform":
        return [rng.choice([1e-3, 1.0, 1e3]), rng.choice([1e-6, 1e-3, 0.05])], None
    if cls in ("KnowlesRTransform", "HandyRTransform"):
        return [rmin, R, e], trim
    if cls == "HandyModRTransform":
        return [rmin, rmin + 2.0 ** e - 1 + rng.choice([1e-3, 0.5, 30.0, 1e6]), e], trim
    raise KeyError(cls)


def _near_end_points(cls, ps):
    if cls in FINITE_DOMAIN:
        return [1 - 1e-4, 1 - 1e-7, 1 - 1e-12, float(np.nextafter(1.0, 0.0)), -1 + 1e-4, -1 + 1e-7, -1 + 1e-12,
                float(np.nextafter(-1.0, 0.0))]
    if cls == "HyperbolicRTransform":
        return [(1 - 1e-4) / ps[1], (1 - 1e-7) / ps[1], (1 - 1e-12) / ps[1], 1e-12 / ps[1]]
    if cls in B_SCALED:
        return [1e-12 * ps[2], 1e-300, 5.0 * ps[2], float(np.nextafter(ps[2], 0.0))]
    return [1e-300, 1e-12, 1e12, 1e300]


def _script_wide(S, cls, rng):
    """audit class 4: extreme parameters, points next to both ends of the domain, huge images on the codomain side"""
    ps, trim = _gen_params_wide(cls, rng)
    o = _obj("T0", cls, ps, trim, wrapped=rng.random() < 0.25, style=rng.choice(["kwtrim", "default"]))
    inner = interior_points(cls, ps, rng, 2)
    near = rng.sample(_near_end_points(cls, ps), 3)
    xs = inner + near
    with np.errstate(all="ignore"), warnings.catch_warnings():
        warnings.simplefilter("ignore")
        rs = _vals(construct(cls, ps, trim).transform(np.array(xs)))
    # codomain-side arguments: finite images only; +-1e16 stands for a trimmed infinity (the image of an end point reached by
    # rounding, e.g. (nextafter(1, 0) + 1) / 2 == 1.0), where the last bit of pow decides between inf and a huge number
    rs = [r for r in rs if math.isfinite(r) and abs(r) != 1e16]
    steps = []
    for meth in METHODS:
        arg = xs if (meth in FWD) != o["wrapped"] else rs
        if arg:
            steps.append(_step(o, meth, [f"a = np.array({_flist(arg)})"], "a", arg, "float64", shape=(len(arg),), argvar="a",
                               sub=f"{cls}:{'trim' if o['trim'] else 'notrim'}"))
    S.run([o], steps)


def _other_params(cls, ps, rng):
    """parameters sharing the leading entries with `ps` and differing in the last one"""
    q = list(ps)
    if cls in B_SCALED:
        q[2] = float(ps[2]) * rng.choice([0.5, 2.0, 3.0])
    elif cls in ("KnowlesRTransform", "HandyRTransform"):
        q[2] = rng.choice([t for t in (1, 2, 3, 0.5, 2.5, 4.5) if t != ps[2]])
    elif cls == "HandyModRTransform":
        q[2] = rng.choice([t for t in (0.5, 0.7, 1, 1.5, 2, 3) if t < ps[2]] or [ps[2]])
    elif cls in ("BeckeRTransform", "MultiExpRTransform"):
        q[1] = float(ps[1]) * 2
    elif cls == "LinearFiniteRTransform":
        q[1] = float(ps[1]) + 1.0
    elif cls == "HyperbolicRTransform":
        q[1] = float(ps[1]) / 2
    return q


def _script_state(S, cls, rng, m1, b_none=False, wrapped=False, points=interior_points):
    """audit classes 1, 3, 5 (state, object identity, order): several objects with overlapping parameters, the same entry
    point called repeatedly with overlapping arguments in different orders, in-place edits, temporaries, rebuilt objects;
    b-scaled maps also with b inferred from the first array (later arrays must not change it)"""
    ps, trim = gen_params(cls, rng)
    qs = _other_params(cls, ps, rng)
    trim1 = trim if qs != list(ps) else (not trim if cls in HAS_TRIM else trim)
    o0 = _obj("T0", cls, ps, trim, b_none=b_none, wrapped=wrapped, style=rng.choice(["kwtrim", "kw"]))
    o1 = _obj("T1", cls, qs, trim1, b_none=b_none, wrapped=wrapped)
    o2 = _obj("T2", cls, ps, trim, b_none=b_none, wrapped=wrapped)
    o3 = _obj("T3", cls, qs, trim1, b_none=b_none, wrapped=wrapped)
    fwd_side = (m1 in FWD) != wrapped
    n = rng.choice([1, 2, 3])
    if b_none:
        def draw(k):
            if fwd_side:
                return [rng.uniform(0.05, 15.0) for _ in range(k)]
            return [rng.uniform(ps[0] + 0.01 * (ps[1] - ps[0]), ps[1] * 1.5) for _ in range(k)]
        A, C, D = draw(n), draw(n), draw(n + 1)
    else:
        XA, XC, XD = (points(cls, ps, rng, k) for k in (n, n, n + 1))
        if n >= 2 and rng.random() < 0.5:
            XC[-1] = XC[0]          # repeated value
        if fwd_side:
            A, C, D = XA, XC, XD
        else:
            with np.errstate(all="ignore"), warnings.catch_warnings():
                warnings.simplefilter("ignore")
                T = construct(cls, ps, trim)
                A, C, D = (_vals(T.transform(np.array(X))) for X in (XA, XC, XD))
            if not all(math.isfinite(t) for t in A + C + D):
                return
    m2 = rng.choice([m for m in METHODS if m != m1 and (m in FWD) == (m1 in FWD)])
    bs = {}

    def mk(o, meth, pre, arg, xs, kind, argvar=None):
        psx = list(o["ps"])
        if b_none:
            # the first array that reaches set_maximum_parameter_b sets b (LinearInfiniteRTransform.deriv2/deriv3 return
            # zeros without looking at b)
            if o["name"] not in bs and not (cls == "LinearInfiniteRTransform" and not wrapped and meth in ("deriv2", "deriv3")):
                bs[o["name"]] = float(max(xs))
            psx[2] = bs.get(o["name"], 1.0)
        return _step(o, meth, pre, arg, xs, kind, shape=None, argvar=argvar, ps=psx)
    first = rng.choice(["transform", "deriv"] if fwd_side != wrapped else ["inverse", "deriv_inverse"]) if b_none else m1
    Cr = C[::-1]
    steps = [
        mk(o0, first, [f"a = np.array({_flist(A)})", f"c = np.array({_flist(C)})", f"d = np.array({_flist(D)})"], "a", A, "first-call", "a"),
        mk(o0, m1, [], "c", C, "same-size-other-values", "c"),
        mk(o1, m1, [], "c", C, "other-object-same-leading-parameters", "c"),
        mk(o0, m2, [], "a", A, "other-method-same-array", "a"),
        mk(o1, m1, [], "a", A, "other-object-same-leading-parameters", "a"),
        mk(o0, m1, [], "a", A, "repeat", "a"),
        mk(o0, m1, ["a[:] = c[::-1]"], "a", Cr, "same-array-object-edited-in-place", "a"),
        mk(o0, m1, [], f"np.array({_flist(A)})", A, "temporary"),
        mk(o0, m1, [], f"np.array({_flist(C)})", C, "temporary-same-size"),
        mk(o2, m1, _ctor(o2), "c", C, "rebuilt-object", "c"),
        mk(o2, m1, [], f"np.array({_flist(A)})", A, "rebuilt-object"),
        mk(o0, m1, [], "d", D, "other-size", "d"),
        mk(o1, m1, [], "d", D, "other-size", "d"),
        mk(o0, m1, [], repr(float(A[0])), A[:1], "scalar"),
        mk(o0, m1, [], repr(float(C[0])), C[:1], "scalar"),
        mk(o1, m1, [], repr(float(A[0])), A[:1], "scalar"),
        mk(o3, m1, _ctor(o3), "d", D, "rebuilt-object", "d"),
        mk(o3, m2, [], "c", C, "rebuilt-object", "c"),
        mk(o0, m1, [], "a", Cr, "repeat", "a"),
    ]
    S.run([o0, o1], steps)


def _corr_round2(ctx, mod):
    rng = ctx.rng
    S = _Scripts(ctx, mod, "kinds")
    for cls in CLASSES:
        for rep in range(ctx.n(3, 24)):
            _script_kinds(S, cls, rng, rep)
    S.judge_model()
    S = _Scripts(ctx, mod, "wide")
    for cls in CLASSES:
        for _ in range(ctx.n(16, 300)):
            _script_wide(S, cls, rng)
    S.judge_model()
    S = _Scripts(ctx, mod, "state")
    for cls in CLASSES:
        for rep in range(ctx.n(1, 12)):
            for m1 in METHODS:
                _script_state(S, cls, rng, m1, wrapped=rng.random() < 0.2)
                if cls in B_SCALED:
                    _script_state(S, cls, rng, m1, b_none=True, wrapped=rng.random() < 0.2)
    S.judge_model()


# -- oracle side ---------------------------------------------------------------------------------------------------------
def _oracle_round2(ctx, mod, budget):
    """argument kinds, parameter kinds and call sequences, judged against the 40-digit reference"""
    rng = ctx.rng
    refs = {}
    S = _Scripts(ctx, mod, "kinds")
    for cls in CLASSES:
        for rep in range(2 if budget == "small" else 6):
            _script_kinds(S, cls, rng, rep)
    S.judge_reference(refs)
    S = _Scripts(ctx, mod, "state")
    for cls in CLASSES:
        for m1 in (rng.sample(METHODS, 3) if budget == "small" else METHODS):
            _script_state(S, cls, rng, m1, wrapped=rng.random() < 0.2, points=_benign_points)
        if cls in B_SCALED:
            for m1 in (rng.sample(METHODS, 3) if budget == "small" else METHODS):
                _script_state(S, cls, rng, m1, b_none=True)
    S.judge_reference(refs)
    # fixed probe: the interior point x = 0 as an integer array with an integer exponent (information, see _known_quirk)
    S = _Scripts(ctx, mod, "probe")
    for cls, ps in (("KnowlesRTransform", [0, 1, 1]), ("HandyRTransform", [0, 1, 1]), ("HandyModRTransform", [0, 5, 1]),
                    ("HandyRTransform", [0, 1, 2])):
        o = _obj("T0", cls, ps, True, pkinds=["int"] * 3)
        S.run([o], [_step(o, m, ["a = np.array([0])"], "a", [0.0], "int64", shape=(1,), argvar="a") for m in ("deriv", "deriv2", "deriv3")])
    S.judge_reference(refs)
    # fixed probe: NumPy-integer parameters (fixed-width integer arithmetic in the parameter-only subexpressions)
    with np.errstate(all="ignore"), warnings.catch_warnings():
        warnings.simplefilter("ignore")
        ovf = []
        X = "np.array([-0.25, 0.3])"
        for src_i, src_f in ((f"rt.HandyModRTransform(np.int32(2), np.int32(297), 8).deriv3({X})", f"rt.HandyModRTransform(2.0, 297.0, 8.0).deriv3({X})"),
                             (f"rt.HandyModRTransform(0.0, 2.0**28 + 10, np.int64(28)).deriv3({X})", f"rt.HandyModRTransform(0.0, 2.0**28 + 10, 28.0).deriv3({X})"),
                             (f"rt.KnowlesRTransform(0.0, 1.0, np.int32(15)).deriv3({X})", f"rt.KnowlesRTransform(0.0, 1.0, 15.0).deriv3({X})"),
                             (f"rt.KnowlesRTransform(0.0, 1.0, np.int64(31)).deriv3({X})", f"rt.KnowlesRTransform(0.0, 1.0, 31.0).deriv3({X})"),
                             ("rt.HandyModRTransform(2, 297, 8).deriv2(np.array([0], dtype=np.int32))", "rt.HandyModRTransform(2, 297, 8).deriv2(np.array([0.0]))")):
            try:
                vi, vf = (_vals(eval(t, {"np": np, "rt": mod})) for t in (src_i, src_f))
                if not all(close(a, b, rtol=1e-9) for a, b in zip(vi, vf)):
                    ovf.append(f"{src_i} = {vi} (in floating point: {vf})")
            except Exception:  # noqa: BLE001
                pass
        if ovf:
            ctx.__dict__.setdefault("_c03_notes", {})["overflow"] = ovf
    _emit_notes(ctx)


def _emit_notes(ctx):
    """behaviour of the unchanged library at the edge of the quantifier 'scalar or array', reported once per run"""
    n = ctx.__dict__.get("_c03_notes", {})
    if ctx.__dict__.get("_c03_notes_emitted"):
        return
    ctx._c03_notes_emitted = True
    if "int-power" in n:
        ks = sorted(n["int-power"])
        ctx.info("information (argument kinds): an integer-typed argument (int array, bool array, np.int64 scalar; a Python int when the "
                 "exponent is a NumPy integer) at the interior point x = 0 with an integer-typed exponent k, m in {1, 2} raises ValueError "
                 f"'Integers to negative integer powers are not allowed' in {', '.join(ks)}; e.g. {n['int-power'][ks[0]]}; "
                 "the same point as float64 is accepted")
    if "shape" in n:
        ks = sorted(n["shape"])
        ctx.info("information (argument kinds): values agree element-wise but the result is a flat array of x.size elements (np.ones(x.size)), "
                 f"not of the shape of the argument, in {', '.join(ks)}; e.g. {ks[0]}: {n['shape'][ks[0]]}")
    if "int-arith" in n:
        ks = sorted(n["int-arith"])
        ctx.info("information (argument kinds): an integer-typed argument together with integer-typed parameters is evaluated in fixed-width "
                 f"integer arithmetic and overflows in {', '.join(ks)}; e.g. {n['int-arith'][ks[0]]}")
    if "overflow" in n:
        ctx.info("information (parameter kinds): NumPy fixed-width integers (np.int32 / np.int64 parameters, or an int32 argument array with "
                 "integer parameters) overflow silently in the derivative formulas (4**k, two_m**2 * (m-2)*(m-1)*(1 - two_m + size_r)**2 "
                 "... are evaluated in int32 / int64): " + "; ".join(n["overflow"]) + "; floats with the same values are evaluated correctly")
    if "alias" in n:
        ctx.info(f"information (object identity): {', '.join(sorted(n['alias']))} return the argument object itself (no copy), so an in-place "
                 "edit of the argument after the call also changes the earlier result")
    ctx.info("information (precision): float32 arguments, and float32 parameters combined with a Python float argument, are evaluated in single "
             "precision (NumPy >= 2 promotion rules; compared at 2e-3 at well-conditioned points, the x-independent derivative methods "
             "of the linear maps at 1e-10); lists are rejected with TypeError/AttributeError (the docstrings ask for ndarray or float)")


def oracle_at(ctx: Ctx, failure):
    """Turn a disagreement of the correspondence into an evaluation of the property itself at that input: re-run the calls
    that led to the disagreeing answer and compare it with what the property prescribes there (derivative methods: the
    numerical derivative of the 40-digit run of transform / inverse; transform and inverse: the point certified by the
    opposite map)."""
    w = failure.witness
    if not (isinstance(w, dict) and {"class", "params", "method", "x"} <= set(w)) or w["class"] not in CLASSES:
        return
    cls, meth, x = w["class"], w["method"], w["x"]
    if meth not in METHODS or not isinstance(x, (int, float)) or not math.isfinite(x):
        return
    trim = w.get("trim") if cls in HAS_TRIM else None
    wrapped = bool(w.get("wrapped"))
    ps = [float(p) for p in w["params"]]
    if w.get("script") is not None:
        script, call, index = list(w["script"]), w["call"], int(w.get("index", 0))
    else:
        args = [repr(p) for p in w["params"]] + ([f"trim_inf={bool(trim)}"] if trim is not None else [])
        script = [f"T0 = rt.{cls}({', '.join(args)})"] + (["T0 = rt.InverseRTransform(T0)"] if wrapped else [])
        call, index = f"T0.{meth}(np.array([{float(x)!r}]))", 0
    if cls in B_SCALED and len(ps) < 3:
        return
    eff = WRAP_OF[meth] if wrapped else meth
    key = f"rtransform.{cls}.{eff}"
    fwd_arg = eff in ("transform", "deriv", "deriv2", "deriv3")
    if fwd_arg and not ((-1 < x < 1) if cls in FINITE_DOMAIN else x > 0):
        return      # an end point: the property speaks about interior points (the end points have their own check)
    try:
        got = _run_script(rt(), script, call, index)
    except Exception as e:  # noqa: BLE001
        if _expected_tag(dict(o=dict(cls=cls), ps=ps, xs=[0.0] * int(w.get("size", 1)))) == "ok":
            ctx.fail("oracle", f"rtransform.{cls}.argument", f"{cls}{tuple(ps)}: {call} raises {type(e).__name__}: {str(e)[:100]} on a valid argument",
                     witness={"class": cls, "params": ps, "script": script, "call": call},
                     snippet=SNIPPET_ACCEPT.format(script="\n".join(script), call=call))
        return
    refs = {}
    ref = _reference(refs, cls, ps, trim, eff, float(x))
    if ref is None and eff in ("transform", "inverse"):
        # the round trip itself fails in 40-digit arithmetic at this input
        try:
            with np.errstate(all="ignore"):
                T = _hp_object(refs, cls, ps, trim)
                v = hp_call(T, eff, mpmath.mpf(x))
                back = hp_call(T, WRAP_OF[eff], v)
            if mpmath.isfinite(v) and not abs(back - x) <= mpmath.mpf(10) ** -25 * max(1, abs(x)):
                ctx.fail("oracle", key, f"{cls}{tuple(ps)} trim={trim}: {WRAP_OF[eff]}({eff}({x!r})) = {mpmath.nstr(back, 20)} in 40-digit arithmetic "
                         "(input taken from a disagreement of the correspondence)",
                         witness={"class": cls, "params": ps, "trim": trim, "method": meth, "x": x, "script": script, "call": call},
                         snippet=_snippet_at(cls, ps, trim, eff, float(x), script, call, index, 1e-9, 0.0))
                return
        except Exception:  # noqa: BLE001
            pass
    if ref is None:
        ctx.info(f"oracle_at: no reference for {cls}{tuple(ps)}.{eff} at {x!r} (end point, pole or uncertified round trip)")
        return
    xdom = eff == "inverse"
    rtol = float(w.get("rtol", 1e-10))
    if w.get("f32") and rtol > 1e-9:
        ce = _ref_cond(refs, cls, ps, trim, eff, float(x), ref, 22)
        tol = 2e-3 + 50 * float(ce if ce is not None else 1.0)
    else:
        ce = _ref_cond(refs, cls, ps, trim, eff, float(x), ref, 52)
        if ce is None or 1000 * ce > 0.1:
            ctx.info(f"oracle_at: {cls}{tuple(ps)}.{eff} at {x!r} is too ill-conditioned for a double-precision verdict")
            return
        tol = max(10 * rtol, 1000 * float(ce))
    atol = (tol * 0.1 if tol > 1e-8 else 1e-11) if xdom else 0.0
    if not abs(mpmath.mpf(got) - ref) <= tol * max(abs(ref), mpmath.mpf(1e-12)) + atol:
        if len([f for f in ctx.failures if f.kind == "oracle" and f.key == key]) >= 3:
            return
        script, snippet, remark = _script_and_snippet(
            ctx, rt(), w.get("reducible"), lambda g: not abs(mpmath.mpf(g) - ref) <= tol * max(abs(ref), mpmath.mpf(1e-12)) + atol,
            cls, ps, trim, eff, float(x), script, call, index, tol, atol)
        if eff in ORDER_OF and not wrapped and w.get("script") is None:
            # the plain call reproduces: the snippet of the main oracle applies verbatim when its tolerance is exceeded too
            if not abs(mpmath.mpf(got) - ref) <= 1e-7 * max(abs(ref), mpmath.mpf(1e-12)):
                snippet = SNIPPET.format(cls=cls, ps=list(w["params"]), trim=trim, meth=eff, x=float(x), order=ORDER_OF[eff],
                                         base="inverse" if eff.endswith("_inverse") else "transform")
        ctx.fail("oracle", key, f"{'InverseRTransform of ' if wrapped else ''}{cls}{tuple(ps)} trim={trim}: {call} [element {index}, point {x!r}] = {got!r}, "
                 f"but {_what_ref(eff)} there is {mpmath.nstr(ref, 15)} (input taken from a disagreement of the correspondence){remark}",
                 witness={"class": cls, "params": ps, "trim": trim, "method": meth, "effective_method": eff, "x": x, "wrapped": wrapped,
                          "got": got, "want": mpmath.nstr(ref, 20), "script": script, "call": call, "index": index, "tol": tol},
                 snippet=snippet)

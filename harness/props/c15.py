"""C15 — ODE solvers return the solution of the stated problem under any coordinate transformation."""
import contextlib
import importlib
import math
import signal

import numpy as np

from ..common import Ctx, Tokens, close, driver_batch, f2b, fvec

LEVEL = "proof"
LEVEL_TEXT = (
    "PROOF (Lean, over the reals, abstract transform with HasDerivAt hypotheses, orders 1-3, arbitrary coefficient "
    "functions): the coefficient arithmetic of _transform_ode_from_derivs, the loop nest of "
    "_derivative_transformation_matrix, the fold of _rearrange_to_explicit_ode and the composition "
    "_transform_and_rearrange_to_explicit_ode are regenerated from the source on every run, and for that text: "
    "Faa di Bruno to order 3; the transformed ODE with the code's b_j is equivalent to the original one; the "
    "derivative matrix is the lower-triangular Bell matrix, maps r-derivatives to x-derivatives, is invertible iff "
    "g' != 0, and the initial-data mapping solve(M, y0[1:]) and the back-transformation M.dot are mutually inverse; "
    "the explicit form (any order); the boundary-condition callback; and, end to end, IF the SciPy integrator returns "
    "an exact solution of the first-order system it is handed, the callable returned by solve_ode_ivp/solve_ode_bvp "
    "has rows y, y', y'' with respect to the ORIGINAL variable, solves the stated ODE and meets the prescribed "
    "initial/boundary conditions; and 'through a transform == directly' (through_transform_eq_direct: with exact "
    "integrators on both routes and continuous coefficients the returned rows coincide on the whole interval; "
    "uniqueness of linear initial-value problems via Mathlib's Gronwall lemma; orders 1, 2, 3). "
    "EXPLORATION (not a proof): the accuracy clause - that SciPy's solve_ivp/solve_bvp actually deliver the solution "
    "within the solver tolerance - is tested with manufactured solutions (random smooth y, random coefficient "
    "functions/constants, orders 1-3, several IVP methods, BVP, directly and through 15+ transforms incl. "
    "Knowles k=2,3 and HandyMod m=2,3), comparing values and derivatives with the exact ones, checking the "
    "prescribed conditions and 'through transform == direct'. Hand-written parts of the model (SymPy bell, "
    "initial-data mapping, returned callable, func/bc callbacks) are tied by correspondence, including the "
    "callbacks and initial data captured from solve_ode_ivp/solve_ode_bvp with SciPy's integrators replaced by a recorder."
)
TECHNIQUE = ("Lean 4 proof over regenerated source text (transformation algebra, derivative matrices, explicit form, "
             "end-to-end under the integrator contract) + differential correspondence of the private helpers and of "
             "the captured SciPy callbacks + manufactured-solution exploration of solve_ode_ivp/solve_ode_bvp")
GEN = ["ode"]
LEAN_MODULES = ["GridVerif.Props.C15", "GridVerif.Props.C15.Solve", "GridVerif.Props.C15.Unique"]
THEOREMS = [
    "GridVerif.C15.faa_di_bruno_3",
    "GridVerif.C15.derivs_of_comp",
    "GridVerif.C15.transformed_ode_pointwise₁",
    "GridVerif.C15.transformed_ode_pointwise₂",
    "GridVerif.C15.transformed_ode_pointwise₃",
    "GridVerif.C15.transformed_leading_coeff",
    "GridVerif.C15.transformed_ode_equiv₁",
    "GridVerif.C15.transformed_ode_equiv₂",
    "GridVerif.C15.transformed_ode_equiv₃",
    "GridVerif.C15.deriv_matrix_entries",
    "GridVerif.C15.deriv_matrix_maps_derivatives",
    "GridVerif.C15.deriv_matrix_invertible_iff",
    "GridVerif.C15.explicit_form",
    "GridVerif.C15.initial_data_roundtrip",
    "GridVerif.C15.deriv_matrix_spec",
    "GridVerif.C15.forwardSolve_solves",
    "GridVerif.C15.bvp_bc_spec",
    "GridVerif.C15.bvp_bc_meaning",
    "GridVerif.C15.direct_contract_gives_solution₃",
    "GridVerif.C15.transformed_contract_gives_solution₁",
    "GridVerif.C15.transformed_contract_gives_solution₂",
    "GridVerif.C15.transformed_contract_gives_solution₃",
    "GridVerif.C15.ivp_initial_conditions",
    "GridVerif.C15.bvp_boundary_conditions",
    "GridVerif.C15.through_transform_eq_direct_partial",
    "GridVerif.C15.linear_ivp_unique₃",
    "GridVerif.C15.through_transform_eq_direct",
    "GridVerif.C15.direct_contract_gives_solution₁",
    "GridVerif.C15.direct_contract_gives_solution₂",
    "GridVerif.C15.linear_ivp_unique₁",
    "GridVerif.C15.linear_ivp_unique₂",
    "GridVerif.C15.through_transform_eq_direct₁",
    "GridVerif.C15.through_transform_eq_direct₂",
    "GridVerif.C15.rtransform_passes_derivs_in_order",
    "GridVerif.C15.bell_loop_not_reached_up_to_order_3",
    "GridVerif.C15.deriv_matrix_guard",
    "GridVerif.Ode.bell_indep_of_tail",
    "GridVerif.Ode.rearrange_eq",
]
RULE = (
    "correspondence: sympy.bell (n<=6) / _transform_ode_from_derivs / _transform_ode_from_rtransform / "
    "_derivative_transformation_matrix (order 0..4, guard) / _rearrange_to_explicit_ode (orders 1..5) / "
    "_transform_solution_to_original_domain on random inputs, plus func, bc, t_span and y0 captured from "
    "solve_ode_ivp / solve_ode_bvp (SciPy integrators replaced by a recorder) evaluated on random arguments, each "
    "against the Lean model at Float; non-trivial = order >= 2 with a non-zero second transform derivative, or a "
    "callable coefficient, or the guard / an error branch taken. Oracle cases (manufactured solutions) are counted "
    "with tag 'oracle:*' and are non-trivial when the transform is non-affine or a coefficient is non-constant."
)
TRUSTED_BASE = [
    "Lean 4.33 kernel; axioms propext, Classical.choice, Quot.sound only (audited per theorem)",
    "translator harness/translate/ode.py (symbolic execution of the `if total > n` blocks for total = 2,3,4; loop nest; fold)",
    "hand model Model/Ode.lean + Model/OdeSolve.lean (sympy.bell recurrence, matrix plumbing, forward substitution for "
    "scipy.linalg.solve, initial-data mapping, returned callable, func/bc callbacks), tied by correspondence",
    "SciPy solve_ivp / solve_bvp: contract 'returns a solution of the first-order system it is given' (hypothesis of the "
    "end-to-end theorems; its accuracy is explored, not proved)",
]
ASSUMPTIONS = [
    "transform admissible on an open set of the original variable: deriv, deriv2, deriv3 are the derivatives of transform "
    "(that is property C03; C15 takes it as a hypothesis), inverse(transform(x)) = x, deriv != 0",
    "leading coefficient a_K does not vanish on the interval",
    "for solve_ode_bvp with a transform, derivative boundary values are with respect to the new coordinate (as documented)",
    "IEEE rounding not modelled; tolerances: correspondence rtol 1e-11 of the largest intermediate, "
    "exploration 5e3 x solver rtol (IVP) resp. 1e-6 (BVP, tol 1e-8) relative to 1 + max|y^(k)|",
]

# ----------------------------------------------------------------------------------------------------------------
# manufactured problems (this block is also the header of every replay snippet)
# ----------------------------------------------------------------------------------------------------------------
HELPERS = r'''
import warnings; warnings.filterwarnings('ignore')
import numpy as np
from grid.rtransform import *
from grid.ode import solve_ode_ivp, solve_ode_bvp, _derivative_transformation_matrix

def y_deriv(spec, k):
    """k-th derivative of y(x) = ce*exp(al*x) + cs*sin(be*x + ph) + sum p_i x^i."""
    ce, al, cs, be, ph, p = spec['ce'], spec['al'], spec['cs'], spec['be'], spec['ph'], list(spec['p'])
    for _ in range(k):
        p = [i * p[i] for i in range(1, len(p))]
    def f(x):
        x = np.asarray(x, dtype=float)
        v = ce * al**k * np.exp(al * x) + cs * be**k * np.sin(be * x + ph + k * np.pi / 2)
        for i, c in enumerate(p):
            v = v + c * x**i
        return v
    return f

def coeff_fn(c):
    """a_k as the user would pass it: a number or a callable."""
    kind = c['kind']
    if kind == 'const':
        return float(c['c'])
    if kind == 'lin':
        return lambda x: c['c0'] + c['c1'] * x
    if kind == 'trig':
        return lambda x: c['s'] * (c['c0'] + c['c1'] * np.sin(c['w'] * x))
    if kind == 'exp':
        return lambda x: c['s'] * c['c0'] * np.exp(c['c1'] * x)
    raise ValueError(kind)

def coeff_val(c, x):
    f = coeff_fn(c)
    return f(x) if callable(f) else f + 0 * np.asarray(x, dtype=float)

def rhs(prob):
    """f := sum_k a_k y^(k)  (manufactured right-hand side)."""
    return lambda x: sum(coeff_val(c, x) * y_deriv(prob['y'], k)(x) for k, c in enumerate(prob['coeffs']))

def make_tf(prob):
    return eval(prob['tf']) if prob['tf'] else None

def span_of(prob):
    a, b = prob['span']
    return (np.float64(a), np.float64(b)) if prob.get('np_span') else (float(a), float(b))

def run_ivp(prob, tf='given'):
    tf = make_tf(prob) if tf == 'given' else tf
    order = len(prob['coeffs']) - 1
    xa = prob['span'][0]
    y0 = [float(y_deriv(prob['y'], k)(xa)) for k in range(order)]
    return solve_ode_ivp(span_of(prob), rhs(prob), [coeff_fn(c) for c in prob['coeffs']], y0, tf,
                         method=prob['method'], rtol=prob['rtol'], atol=prob['atol'])

def bvp_conditions(prob, tf):
    """(i, j, C): exact boundary data; with a transform the derivative data are w.r.t. r = g(x) (as documented):
    [dY/dr, d2Y/dr2] = M^-1 [y', y''] with M = [[g', 0], [g'', g'^2]]."""
    order = len(prob['coeffs']) - 1
    mesh = mesh_of(prob)
    ends = [float(mesh[0]), float(mesh[-1])]
    out = []
    for i, j in prob['bc']:
        xe = ends[i]
        yx = [float(y_deriv(prob['y'], k)(xe)) for k in range(order)]
        if tf is not None and j >= 1:
            g1, g2 = float(tf.deriv(np.array([xe]))[0]), float(tf.deriv2(np.array([xe]))[0])
            Y1 = yx[1] / g1
            val = Y1 if j == 1 else (yx[2] - g2 * Y1) / g1**2
        else:
            val = yx[j]
        out.append((i, j, float(val)))
    return out

def mesh_of(prob):
    a, b = prob['span']
    m = np.linspace(a, b, prob['nmesh'])
    return m[::-1].copy() if prob.get('reverse_mesh') else m

def run_bvp(prob, tf='given', no_derivatives=False):
    tf = make_tf(prob) if tf == 'given' else tf
    order = len(prob['coeffs']) - 1
    mesh = mesh_of(prob) if tf is not None else np.linspace(prob['span'][0], prob['span'][1], prob['nmesh'])
    if tf is None:
        # the same conditions, posed on the increasing mesh of the original variable
        ends = [float(mesh[0]), float(mesh[-1])]
        bd = []
        for (i, j) in prob['bc']:
            i2 = (1 - i) if prob.get('reverse_mesh') else i
            bd.append((i2, j, float(y_deriv(prob['y'], j)(ends[i2]))))
    else:
        bd = bvp_conditions(prob, tf)
    return solve_ode_bvp(mesh, rhs(prob), [coeff_fn(c) for c in prob['coeffs']], bd, tf, tol=prob['tol'],
                         max_nodes=prob['max_nodes'], initial_guess_y=np.zeros((order, mesh.size)),
                         no_derivatives=no_derivatives), bd

def errors(prob, sol, pts):
    """max_k  max|row_k - y^(k)| / (1 + max|y^(k)|)  over the evaluation points."""
    order = len(prob['coeffs']) - 1
    out = np.atleast_2d(sol(np.asarray(pts, dtype=float)))
    assert out.shape == (order, len(pts)), f'returned shape {out.shape}, expected {(order, len(pts))}'
    errs = []
    for k in range(order):
        ex = y_deriv(prob['y'], k)(pts)
        errs.append(float(np.max(np.abs(out[k] - ex)) / (1 + np.max(np.abs(ex)))))
    return errs, out
'''
_ns = {}
exec(HELPERS, _ns)
y_deriv, coeff_fn, coeff_val, rhs, make_tf = _ns["y_deriv"], _ns["coeff_fn"], _ns["coeff_val"], _ns["rhs"], _ns["make_tf"]
run_ivp, run_bvp, errors, mesh_of = _ns["run_ivp"], _ns["run_bvp"], _ns["errors"], _ns["mesh_of"]

# IVP: comparison tolerance = IVP_FACTOR * rtol of the integrator, relative to 1 + max|y^(k)|.
# Calibration on the unchanged tree (5 seeds x 270 problems): worst observed error/rtol = 147 (BDF), 39 (LSODA),
# 24 (RK45), 18 (DOP853), 0.3 (Radau).  A wrong Faa-di-Bruno factor or a wrong third transform derivative moves the
# result by 1e-3 .. 1e-1.
IVP_FACTOR = 5e3
METHODS = {"DOP853": 1e-10, "RK45": 1e-9, "Radau": 1e-9, "LSODA": 1e-9, "BDF": 1e-7, "RK23": 1e-6}
BVP_TOL = 1e-8       # handed to solve_bvp
BVP_ACCEPT = 1e-6    # worst observed on the unchanged tree: 4e-10


def transforms_catalogue():
    """name -> (constructor text, interval of the ORIGINAL variable, flags).  Everything ode.py accepts:
    direct transforms (original variable in [-1, 1] resp. [0, inf)), their inverses (original variable = r)."""
    cat = {
        "none": ("", (0.3, 1.6), {}),
        "IdentityRTransform": ("IdentityRTransform()", (0.3, 1.6), {"affine": True}),
        "BeckeRTransform": ("BeckeRTransform(0.1, 1.5)", (-0.5, 0.4), {}),
        "Inverse(BeckeRTransform)": ("InverseRTransform(BeckeRTransform(0.1, 1.5))", (0.4, 1.8), {}),
        "KnowlesRTransform:k=2": ("KnowlesRTransform(0.1, 1.5, 2)", (-0.5, 0.4), {}),
        "KnowlesRTransform:k=3": ("KnowlesRTransform(0.1, 1.5, 3)", (-0.5, 0.4), {}),
        "Inverse(KnowlesRTransform):k=2": ("InverseRTransform(KnowlesRTransform(0.1, 1.5, 2))", (0.4, 1.8), {}),
        "Inverse(KnowlesRTransform):k=3": ("InverseRTransform(KnowlesRTransform(0.1, 1.5, 3))", (0.4, 1.8), {}),
        "HandyRTransform:m=2": ("HandyRTransform(0.1, 1.5, 2)", (-0.5, 0.4), {}),
        "Inverse(HandyRTransform):m=3": ("InverseRTransform(HandyRTransform(0.1, 1.5, 3))", (0.4, 1.8), {}),
        "HandyModRTransform:m=2": ("HandyModRTransform(0.1, 10.0, 2)", (-0.5, 0.4), {}),
        "HandyModRTransform:m=3": ("HandyModRTransform(0.1, 10.0, 3)", (-0.5, 0.4), {}),
        "Inverse(HandyModRTransform):m=2": ("InverseRTransform(HandyModRTransform(0.1, 10.0, 2))", (0.4, 1.8), {}),
        "Inverse(HandyModRTransform):m=3": ("InverseRTransform(HandyModRTransform(0.1, 10.0, 3))", (0.4, 1.8), {}),
        "Inverse(HandyModRTransform):m=4": ("InverseRTransform(HandyModRTransform(0.1, 30.0, 4))", (0.4, 1.8), {}),
        "LinearFiniteRTransform": ("LinearFiniteRTransform(0.1, 5.0)", (-0.5, 0.4), {"affine": True}),
        "Inverse(LinearFiniteRTransform)": ("InverseRTransform(LinearFiniteRTransform(0.1, 5.0))", (0.4, 1.8), {"affine": True}),
        "MultiExpRTransform": ("MultiExpRTransform(0.1, 1.5)", (-0.5, 0.4), {"decreasing": True}),
        "Inverse(MultiExpRTransform)": ("InverseRTransform(MultiExpRTransform(0.1, 1.5))", (0.4, 1.8), {"decreasing": True}),
        "ExpRTransform": ("ExpRTransform(0.1, 5.0, b=4.0)", (0.3, 1.2), {}),
        "Inverse(ExpRTransform)": ("InverseRTransform(ExpRTransform(0.1, 5.0, b=4.0))", (0.4, 1.8), {}),
        "PowerRTransform": ("PowerRTransform(0.1, 5.0, b=4.0)", (0.3, 1.2), {}),
        "Inverse(PowerRTransform)": ("InverseRTransform(PowerRTransform(0.1, 5.0, b=4.0))", (0.4, 1.8), {}),
        "LinearInfiniteRTransform": ("LinearInfiniteRTransform(0.1, 5.0, b=4.0)", (0.3, 1.2), {"affine": True}),
        "Inverse(LinearInfiniteRTransform)": ("InverseRTransform(LinearInfiniteRTransform(0.1, 5.0, b=4.0))", (0.4, 1.8), {"affine": True}),
        # accepts at most 1/b points per call (`b*(npoint-1) < 1` is checked on every array): no BVP (mesh refinement)
        "HyperbolicRTransform": ("HyperbolicRTransform(0.3, 0.05)", (0.3, 1.2), {"no_bvp": True}),
        "HyperbolicRTransform:np.float64-span": ("HyperbolicRTransform(0.3, 0.05)", (0.3, 1.2), {"np_span": True, "no_bvp": True}),
    }
    return cat


SOLVE_TIME_LIMIT = 30.0   # seconds per solve; on the unchanged tree every solve takes < 2 s


class SolveTimeout(Exception):
    pass


@contextlib.contextmanager
def time_limit(seconds):
    """A changed library can make SciPy's step-size control crawl (coefficients evaluated outside their domain ...);
    such a run is a failing input, not an infrastructure problem."""
    def handler(signum, frame):
        raise SolveTimeout(f"no result within {seconds} s")
    old = signal.signal(signal.SIGALRM, handler)
    signal.setitimer(signal.ITIMER_REAL, seconds)
    try:
        yield
    finally:
        signal.setitimer(signal.ITIMER_REAL, 0)
        signal.signal(signal.SIGALRM, old)


def gen_solution(rng):
    return {"ce": rng.uniform(-1, 1), "al": rng.uniform(-1.2, 1.2), "cs": rng.uniform(-1, 1),
            "be": rng.uniform(0.5, 2.5), "ph": rng.uniform(0, 6.28), "p": [rng.uniform(-1, 1) for _ in range(4)]}


def gen_coeff(rng, leading):
    kind = rng.choice(["const", "const", "lin", "trig", "exp"])
    if leading:
        s = rng.choice([-1.0, 1.0])
        if kind == "const":
            return {"kind": "const", "c": s * rng.uniform(0.5, 2)}
        if kind in ("lin", "trig"):
            return {"kind": "trig", "s": s, "c0": rng.uniform(0.8, 2), "c1": rng.uniform(-0.4, 0.4), "w": rng.uniform(0.5, 2)}
        return {"kind": "exp", "s": s, "c0": rng.uniform(0.5, 1.5), "c1": rng.uniform(-0.4, 0.4)}
    if kind == "const":
        return {"kind": "const", "c": rng.uniform(-2, 2)}
    if kind == "lin":
        return {"kind": "lin", "c0": rng.uniform(-1.5, 1.5), "c1": rng.uniform(-0.5, 0.5)}
    if kind == "trig":
        return {"kind": "trig", "s": 1.0, "c0": rng.uniform(-1.5, 1.5), "c1": rng.uniform(-0.5, 0.5), "w": rng.uniform(0.5, 2)}
    return {"kind": "exp", "s": 1.0, "c0": rng.uniform(-1.5, 1.5), "c1": rng.uniform(-0.4, 0.4)}


def gen_problem(rng, order, name, cat):
    text, (xa, xb), flags = cat[name]
    return {"tf": text, "tfname": name, "span": [xa, xb], "np_span": bool(flags.get("np_span")),
            "y": gen_solution(rng), "coeffs": [gen_coeff(rng, k == order) for k in range(order + 1)]}


def nontrivial_problem(prob, cat):
    flags = cat[prob["tfname"]][2]
    return (prob["tf"] != "" and not flags.get("affine")) or any(c["kind"] != "const" for c in prob["coeffs"])


def snippet_ivp(prob, tol):
    return (HELPERS + f"\nimport signal; signal.alarm(300)\nprob = {prob!r}\n"
            "sol = run_ivp(prob)\n"
            "pts = np.linspace(prob['span'][0], prob['span'][1], 9)\n"
            "errs, out = errors(prob, sol, pts)\n"
            f"assert max(errs) <= {tol!r}, f'solve_ode_ivp: relative errors of y, y\\', ... = {{errs}} exceed {tol!r}'\n")


def snippet_bvp(prob, tol):
    return (HELPERS + f"\nimport signal; signal.alarm(300)\nprob = {prob!r}\n"
            "sol, bd = run_bvp(prob)\n"
            "pts = np.linspace(prob['span'][0], prob['span'][1], 9)\n"
            "errs, out = errors(prob, sol, pts)\n"
            f"assert max(errs) <= {tol!r}, f'solve_ode_bvp: relative errors of y, y\\', ... = {{errs}} exceed {tol!r}'\n")


# ----------------------------------------------------------------------------------------------------------------
# correspondence
# ----------------------------------------------------------------------------------------------------------------
def _ok_vec(ans):
    if not ans.startswith("ok"):
        return None
    t = Tokens(ans)
    t.tok()
    return t.fvec()


def _ok_float(ans):
    if not ans.startswith("ok"):
        return None
    t = Tokens(ans)
    t.tok()
    return t.flt()


def _vec_close(a, b, scale, rtol=1e-11):
    return a is not None and len(a) == len(b) and all(close(x, float(y), rtol=rtol, scale=scale, atol=1e-300) for x, y in zip(a, b))


class FakeTF:
    """A transform object for the correspondence: affine `transform`/`inverse`, *arbitrary* smooth functions as
    deriv/deriv2/deriv3 (the code's arithmetic does not care whether they are the true derivatives; generic values
    exercise every term)."""

    def __init__(self, rng):
        self.a, self.b = rng.uniform(0.5, 2.0), rng.uniform(-1, 1)
        self.c = [[rng.uniform(0.3, 1.5), rng.uniform(-0.5, 0.5), rng.uniform(0.3, 2)] for _ in range(3)]
        self.domain = (-10.0, 10.0)
        self.codomain = (-100.0, 100.0)

    def transform(self, x):
        return self.a * x + self.b

    def inverse(self, r):
        return (r - self.b) / self.a

    def _d(self, i, x):
        c0, c1, w = self.c[i]
        return (c0 + c1 * np.sin(w * x)) * (1 if i == 0 else (-1) ** i * 0.8)

    def deriv(self, x):
        return self._d(0, x)

    def deriv2(self, x):
        return self._d(1, x)

    def deriv3(self, x):
        return self._d(2, x)


def _real_transforms():
    R = importlib.import_module("grid.rtransform")
    return [
        (R.BeckeRTransform(0.1, 1.5), (-0.6, 0.6)),
        (R.KnowlesRTransform(0.1, 1.5, 3), (-0.6, 0.6)),
        (R.HandyModRTransform(0.1, 10.0, 3), (-0.6, 0.6)),
        (R.InverseRTransform(R.BeckeRTransform(0.1, 1.5)), (0.3, 3.0)),
        (R.InverseRTransform(R.KnowlesRTransform(0.1, 1.5, 2)), (0.3, 3.0)),
        (R.InverseRTransform(R.HandyModRTransform(0.1, 10.0, 3)), (0.3, 3.0)),
        (R.InverseRTransform(R.HandyRTransform(0.1, 1.5, 2)), (0.3, 3.0)),
        (R.LinearFiniteRTransform(0.1, 5.0), (-0.6, 0.6)),
        (R.IdentityRTransform(), (0.3, 3.0)),
    ]


def _rand_coeffs(rng, order):
    """list for the library, and the evaluator: a mix of numbers (int/float/np.float64) and callables"""
    cs = []
    for k in range(order + 1):
        lead = k == order
        kind = rng.choice(["float", "int", "npfloat", "fn", "fn"])
        if kind == "int":
            v = rng.choice([-3, -2, -1, 1, 2, 3]) if lead else rng.randrange(-3, 4)
            cs.append((v, "const"))
        elif kind == "float":
            v = rng.choice([-1, 1]) * rng.uniform(0.4, 2.5) if lead else rng.uniform(-2.5, 2.5)
            cs.append((v, "const"))
        elif kind == "npfloat":
            v = np.float64(rng.choice([-1, 1]) * rng.uniform(0.4, 2.5))
            cs.append((v, "const"))
        else:
            c0, c1, w = rng.choice([-1, 1]) * rng.uniform(0.8, 2), rng.uniform(-0.5, 0.5), rng.uniform(0.3, 2)
            cs.append(((lambda x, c0=c0, c1=c1, w=w: c0 + c1 * np.cos(w * x)), "fn"))
    return cs


def _eval_coeffs(cs, x):
    return [float(c(np.array([x]))[0]) if kind == "fn" else float(c) for c, kind in cs]


def corr(ctx: Ctx):
    ode = importlib.import_module("grid.ode")
    sympy_bell = importlib.import_module("sympy").bell
    rng = ctx.rng

    # -- 1. the model of sympy.bell ------------------------------------------------------------------------------
    cases, lines = [], []
    for n in range(0, 7):
        for k in range(0, n + 2):
            for _ in range(ctx.n(1, 4)):
                L = max(1, n - k + 1) + rng.randrange(0, 2)
                ds = [rng.uniform(-2, 2) for _ in range(L)]
                cases.append((n, k, ds))
                lines.append(f"C15.bell {n} {k} {fvec(ds)}")
    for (n, k, ds), ans in zip(cases, driver_batch(lines)):
        want = float(sympy_bell(n, k, ds))
        got = _ok_float(ans)
        scale = max(1.0, max(abs(d) for d in ds) ** max(n, 1)) * math.factorial(max(n, 1))
        ctx.count(["bell", n, k, ds], nontrivial=(1 <= k <= n and n >= 2), tag=f"bell:n={n}")
        if got is None or not close(got, want, rtol=1e-11, scale=scale):
            ctx.fail("corr", "sympy.bell", f"bell({n},{k},{ds}): sympy {want}, model {ans}",
                     witness={"n": n, "k": k, "symbols": ds, "sympy": want, "model": ans})

    # -- 2. _transform_ode_from_derivs / _transform_ode_from_rtransform ------------------------------------------
    cases, lines = [], []
    for it in range(ctx.n(60, 1500)):
        order = 1 + it % 3
        cs = _rand_coeffs(rng, order)
        npts = rng.choice([1, 1, 2, 3, 5])
        use_real = rng.random() < 0.4
        if use_real:
            tf, (lo, hi) = rng.choice(_real_transforms())
        else:
            tf, (lo, hi) = FakeTF(rng), (-2.0, 2.0)
        x = np.array([rng.uniform(lo, hi) for _ in range(npts)])
        if use_real or rng.random() < 0.5:
            got = ode._transform_ode_from_rtransform([c for c, _ in cs], tf, x)
            via = "rtransform"
        else:
            got = ode._transform_ode_from_derivs([c for c, _ in cs], [tf.deriv, tf.deriv2, tf.deriv3], x)
            via = "derivs"
        for i in range(npts):
            a = _eval_coeffs(cs, x[i])
            d = [float(np.atleast_1d(f(np.array([x[i]])))[0]) for f in (tf.deriv, tf.deriv2, tf.deriv3)]
            cases.append((order, via, type(tf).__name__, a, d, [float(v) for v in got[:, i]], any(k == "fn" for _, k in cs)))
            lines.append(f"C15.coeffb {fvec(a)} {f2b(d[0])} {f2b(d[1])} {f2b(d[2])}")
    for (order, via, tfn, a, d, impl, hasfn), ans in zip(cases, driver_batch(lines)):
        scale = max(abs(v) for v in a) * max(1.0, abs(d[0])) ** order * max(1.0, abs(d[1]), abs(d[2])) * 3
        ctx.count(["coeffb", a, d], nontrivial=(order >= 2 and d[1] != 0.0) or hasfn, tag=f"coeffb:order{order}:{via}")
        if not _vec_close(_ok_vec(ans), impl, scale):
            ctx.fail("corr", f"_transform_ode_from_derivs:order{order}",
                     f"coeff_b for a={a}, derivs={d} ({tfn}): implementation {impl}, model {ans if not ans.startswith('ok') else _ok_vec(ans)}",
                     witness={"order": order, "a": a, "derivs": d, "impl": impl, "model": _ok_vec(ans)})
    # a non-number, non-callable coefficient is rejected
    try:
        ode._evaluate_coeffs_on_points(np.array([0.1]), [1.0, "x"])
        ctx.fail("corr", "_evaluate_coeffs_on_points:type", "a str coefficient was not rejected with TypeError")
    except TypeError:
        pass
    ctx.count(["coeff-type-error"], nontrivial=True, tag="coeffs:type-error")

    # -- 3. _derivative_transformation_matrix --------------------------------------------------------------------
    cases, lines = [], []
    for it in range(ctx.n(60, 1200)):
        numb = rng.choice([1, 2, 3, 3, 3, 4])
        order = rng.randrange(0, numb + 2)
        ds = [rng.uniform(-2, 2) for _ in range(numb)]
        point = rng.choice([rng.uniform(-1, 1), np.float64(rng.uniform(-1, 1)), rng.randrange(-2, 3)])
        funcs = [(lambda p, v=v: v) for v in ds]
        try:
            m = ode._derivative_transformation_matrix(funcs, point, order)
            impl = ("ok", [[float(v) for v in row] for row in m])
        except ValueError:
            impl = ("value-error", None)
        cases.append((order, ds, impl))
        lines.append(f"C15.dmat {order} {fvec(ds)}")
    for (order, ds, impl), ans in zip(cases, driver_batch(lines)):
        ctx.count(["dmat", order, ds], nontrivial=order >= 2 or impl[0] != "ok", tag=f"dmat:order{order}:{impl[0]}")
        if impl[0] != "ok":
            good = ans == impl[0]
        else:
            good = ans.startswith("ok")
            if good:
                t = Tokens(ans)
                t.tok()
                mm = t.fmat()
                scale = max(1.0, max(abs(d) for d in ds)) ** max(order, 1) * 6
                good = len(mm) == order and all(_vec_close(r1, r2, scale) for r1, r2 in zip(mm, impl[1]))
        if not good:
            ctx.fail("corr", f"_derivative_transformation_matrix:order{order}",
                     f"matrix for derivs={ds}, order={order}: implementation {impl}, model {ans}",
                     witness={"order": order, "derivs": ds, "impl": impl, "model": ans})
    for bad in (np.array([0.1]), "0.1", None):
        try:
            ode._derivative_transformation_matrix([lambda p: 1.0], bad, 1)
            ctx.fail("corr", "_derivative_transformation_matrix:type", f"point {bad!r} was not rejected with TypeError")
        except TypeError:
            pass
        ctx.count(["dmat-type", repr(bad)], nontrivial=True, tag="dmat:type-error")

    # -- 4. _rearrange_to_explicit_ode ---------------------------------------------------------------------------
    cases, lines = [], []
    for it in range(ctx.n(40, 800)):
        K = 1 + it % 5
        npts = rng.choice([1, 2, 4])
        y = np.array([[rng.uniform(-2, 2) for _ in range(npts)] for _ in range(K)])
        b = np.array([[rng.uniform(-2, 2) for _ in range(npts)] for _ in range(K + 1)])
        b[-1] = np.where(np.abs(b[-1]) < 0.2, 0.7, b[-1])
        fx = np.array([rng.uniform(-3, 3) for _ in range(npts)])
        fx0 = fx.copy()
        got = ode._rearrange_to_explicit_ode(y, b, fx)
        if not np.array_equal(fx, fx0):
            ctx.info("_rearrange_to_explicit_ode modified the right-hand-side array in place (C20's business)")
        for i in range(npts):
            cases.append((K, [float(v) for v in y[:, i]], [float(v) for v in b[:, i]], float(fx0[i]), float(got[i])))
            lines.append(f"C15.explicit {fvec(y[:, i])} {fvec(b[:, i])} {f2b(fx0[i])}")
    for (K, y, b, fx, impl), ans in zip(cases, driver_batch(lines)):
        scale = (abs(fx) + sum(abs(p * q) for p, q in zip(b, y))) / abs(b[-1])
        ctx.count(["explicit", y, b, fx], nontrivial=K >= 2, tag=f"explicit:order{K}")
        got = _ok_float(ans)
        if got is None or not close(got, impl, rtol=1e-11, scale=scale):
            ctx.fail("corr", f"_rearrange_to_explicit_ode:order{K}",
                     f"explicit form y={y}, coeff_b={b}, fx={fx}: implementation {impl}, model {ans if got is None else got}",
                     witness={"y": y, "coeff_b": b, "fx": fx, "impl": impl, "model": got})

    # -- 5. the callbacks and data solve_ode_ivp / solve_ode_bvp hand to SciPy, and the callable they return -------
    class Res:
        status = 0

        def __init__(self, K, ph):
            self.K, self.ph = K, ph

        def sol(self, r):
            r = np.asarray(r, dtype=float)
            return np.array([np.sin(1.3 * r + self.ph + k) * (1 + 0.5 * k) for k in range(self.K)])

    rec = {}

    def fake_ivp(func, t_span, y0=None, **kw):
        rec.update(kind="ivp", func=func, t_span=[float(t) for t in t_span], y0=[float(v) for v in y0], kw=kw)
        return Res(len(y0), rec["ph"])

    def fake_bvp(func, bc, x, y=None, **kw):
        rec.update(kind="bvp", func=func, bc=bc, mesh=np.array(x, dtype=float), guess=y, kw=kw)
        return Res(y.shape[0], rec["ph"])

    orig = (ode.solve_ivp, ode.solve_bvp)
    cases, lines = [], []
    try:
        ode.solve_ivp, ode.solve_bvp = fake_ivp, fake_bvp
        for it in range(ctx.n(45, 900)):
            order = 1 + it % 3
            cs = _rand_coeffs(rng, order)
            coeffs = [c for c, _ in cs]
            mode = ["fake", "real", "none"][rng.randrange(3)] if it >= 9 else ["fake", "real", "none"][(it // 3) % 3]
            if mode == "real":
                tf, (lo, hi) = rng.choice(_real_transforms())
            elif mode == "fake":
                tf, (lo, hi) = FakeTF(rng), (-2.0, 2.0)
            else:
                tf, (lo, hi) = None, (-2.0, 2.0)
            xa = rng.uniform(lo, lo + 0.3 * (hi - lo))
            xb = rng.uniform(lo + 0.6 * (hi - lo), hi)
            fxc = (rng.uniform(-2, 2), rng.uniform(0.3, 2))
            fx = lambda x, fxc=fxc: fxc[0] * np.cos(fxc[1] * x) + 0.3
            rec.clear()
            rec["ph"] = rng.uniform(0, 3)
            is_ivp = rng.random() < 0.5
            tag = f"{'ivp' if is_ivp else 'bvp'}:{mode}:order{order}"

            def point_values(r):
                """what the model needs at one point r of the solver's variable"""
                x = float(tf.inverse(np.array([r]))[0]) if tf is not None else r
                a = _eval_coeffs(cs, x)
                d = [float(np.atleast_1d(f(np.array([x])))[0]) for f in (tf.deriv, tf.deriv2, tf.deriv3)] if tf is not None else None
                return x, a, d, float(fx(np.array([x]))[0])

            if is_ivp:
                y0 = [rng.uniform(-2, 2) for _ in range(order)]
                nod = rng.random() < 0.3
                ret = ode.solve_ode_ivp((xa, xb), fx, coeffs, y0, tf, no_derivatives=nod)
                if rec.get("kind") != "ivp":
                    ctx.fail("corr", "solve_ode_ivp:capture", "solve_ode_ivp did not call scipy solve_ivp")
                    continue
                if not (rec["kw"].get("vectorized") is True and rec["kw"].get("dense_output") is True):
                    ctx.fail("corr", "solve_ode_ivp:kwargs", f"solve_ivp called with {sorted(rec['kw'])}")
                # initial data and span
                if tf is not None:
                    d0 = [float(np.atleast_1d(f(np.array([xa])))[0]) for f in (tf.deriv, tf.deriv2, tf.deriv3)]
                    t0 = float(tf.transform(np.array([xa]))[0])
                    t1 = float(tf.transform(np.array([xb]))[0])
                    cases.append(("ivpinit", tag, dict(y0=y0, d=d0), rec["t_span"] + rec["y0"],
                                  max(1.0, max(abs(v) for v in y0)) * max(1.0, abs(d0[1])) / min(1.0, abs(d0[0])) ** 3))
                    lines.append(f"C15.ivpinit {f2b(xa)} {f2b(xb)} {f2b(t0)} {f2b(t1)} {f2b(d0[0])} {f2b(d0[1])} {f2b(d0[2])} {fvec(y0)}")
                else:
                    if rec["t_span"] != [xa, xb] or rec["y0"] != y0:
                        ctx.fail("corr", "solve_ode_ivp:direct-data", f"span/y0 changed without a transform: {rec['t_span']}, {rec['y0']}")
                # func at random arguments (scalar t, y of shape (K, m))
                lo_r, hi_r = sorted(rec["t_span"])
                for _ in range(3):
                    r = rng.uniform(lo_r, hi_r)
                    m = rng.choice([1, 1, 3])
                    Y = np.array([[rng.uniform(-2, 2) for _ in range(m)] for _ in range(order)])
                    out = np.asarray(rec["func"](r, Y), dtype=float)
                    x, a, d, fxv = point_values(r)
                    for j in range(m):
                        yj = [float(v) for v in Y[:, j]]
                        scale = (abs(fxv) + sum(abs(v) for v in yj) * max(abs(v) for v in a) * (1 + sum(abs(v) for v in (d or [1]))) ** 3) / \
                            (abs(a[-1]) * min(1.0, abs(d[0]) if d else 1.0) ** order)
                        cases.append(("func", tag, dict(r=r, x=x, a=a, d=d, fx=fxv, y=yj), [float(v) for v in out[:, j]], scale))
                        if d is None:
                            lines.append(f"C15.funcd {fvec(a)} {f2b(fxv)} {fvec(yj)}")
                        else:
                            lines.append(f"C15.func {fvec(a)} {f2b(d[0])} {f2b(d[1])} {f2b(d[2])} {f2b(fxv)} {fvec(yj)}")
            else:
                pairs = [(i, j) for i in (0, 1) for j in range(order)]
                bd = [(i, j, rng.uniform(-2, 2)) for i, j in rng.sample(pairs, order)]
                nod = rng.random() < 0.5
                mesh = np.linspace(xa, xb, 6)
                guess = np.array([[rng.uniform(-1, 1) for _ in range(6)] for _ in range(order)])
                ret = ode.solve_ode_bvp(mesh, fx, coeffs, bd, tf, initial_guess_y=guess, no_derivatives=nod)
                if rec.get("kind") != "bvp":
                    ctx.fail("corr", "solve_ode_bvp:capture", "solve_ode_bvp did not call scipy solve_bvp")
                    continue
                want_mesh = tf.transform(mesh) if tf is not None else mesh
                if not np.allclose(rec["mesh"], want_mesh, rtol=1e-14, atol=0) or not np.array_equal(rec["guess"], guess):
                    ctx.fail("corr", "solve_ode_bvp:mesh", "mesh handed to solve_bvp is not transform(x) / guess changed",
                             witness={"mesh": rec["mesh"], "expected": want_mesh})
                # bc
                ya = [rng.uniform(-2, 2) for _ in range(order)]
                yb = [rng.uniform(-2, 2) for _ in range(order)]
                res = [float(v) for v in rec["bc"](np.array(ya), np.array(yb))]
                cases.append(("bc", tag, dict(bd=bd, ya=ya, yb=yb), res, 4.0))
                lines.append(f"C15.bc {len(bd)} " + " ".join(f"{i} {j} {f2b(c)}" for i, j, c in bd) + f" {fvec(ya)} {fvec(yb)}")
                # func on a mesh
                rs = np.sort(np.array([rng.uniform(rec["mesh"].min(), rec["mesh"].max()) for _ in range(3)]))
                Y = np.array([[rng.uniform(-2, 2) for _ in range(3)] for _ in range(order)])
                out = np.asarray(rec["func"](rs, Y), dtype=float)
                for j in range(3):
                    x, a, d, fxv = point_values(float(rs[j]))
                    yj = [float(v) for v in Y[:, j]]
                    scale = (abs(fxv) + sum(abs(v) for v in yj) * max(abs(v) for v in a) * (1 + sum(abs(v) for v in (d or [1]))) ** 3) / \
                        (abs(a[-1]) * min(1.0, abs(d[0]) if d else 1.0) ** order)
                    cases.append(("func", tag, dict(r=float(rs[j]), x=x, a=a, d=d, fx=fxv, y=yj), [float(v) for v in out[:, j]], scale))
                    if d is None:
                        lines.append(f"C15.funcd {fvec(a)} {f2b(fxv)} {fvec(yj)}")
                    else:
                        lines.append(f"C15.func {fvec(a)} {f2b(d[0])} {f2b(d[1])} {f2b(d[2])} {f2b(fxv)} {fvec(yj)}")
            # the returned callable (transform branch)
            if tf is not None:
                pts = np.array([rng.uniform(xa, xb) for _ in range(2)])
                out = np.asarray(ret(pts), dtype=float)
                fake = Res(order, rec["ph"])
                for j in range(2):
                    xj = float(pts[j])
                    interp = [float(v) for v in fake.sol(tf.transform(np.array([xj])))[:, 0]]
                    d = [float(np.atleast_1d(f(np.array([xj])))[0]) for f in (tf.deriv, tf.deriv2, tf.deriv3)]
                    impl = [float(out[j])] if out.ndim == 1 else [float(v) for v in out[:, j]]
                    cases.append(("back", tag + (":noderiv" if nod else ""), dict(x=xj, d=d, interp=interp, no_derivatives=nod), impl,
                                  max(1.0, max(abs(v) for v in interp)) * (1 + sum(abs(v) for v in d)) ** 2))
                    lines.append(f"C15.back {order} {1 if nod else 0} {f2b(d[0])} {f2b(d[1])} {f2b(d[2])} {fvec(interp)}")
            else:
                if getattr(ret, "__func__", None) is not Res.sol:
                    ctx.fail("corr", "solve_ode:direct-return", "without a transform the integrator's `sol` is not returned as it is")
    finally:
        ode.solve_ivp, ode.solve_bvp = orig
    for (op, tag, inp, impl, scale), ans in zip(cases, driver_batch(lines)):
        d = inp.get("d")
        ctx.count([op, inp], nontrivial=(d is not None and d[1] != 0.0) or op == "bc", tag=f"{op}:{tag}")
        got = _ok_vec(ans)
        if not _vec_close(got, impl, scale):
            ctx.fail("corr", f"solve_ode:{op}:{tag.split(':')[0]}",
                     f"{op} ({tag}) on {inp}: implementation {impl}, model {ans if got is None else got}",
                     witness={"op": op, "case": tag, "input": inp, "impl": impl, "model": got})
    # argument checks of the public functions
    for bad_call, exc, what in (
        (lambda: ode.solve_ode_ivp((0.1, 1.0), lambda x: x, [1.0, 1.0, 1.0], [1.0]), ValueError, "len(y0) != order"),
        (lambda: ode.solve_ode_bvp(np.linspace(0.1, 1, 5), lambda x: x, [1.0, 1.0, 1.0], [(0, 0, 1.0)]), ValueError, "len(bd_cond) != order"),
        (lambda: ode.solve_ode_ivp((0.1, 1.0), lambda x: x, [1.0] * 5, [1.0] * 4, FakeTF(rng)), NotImplementedError, "order 4 with transform"),
        (lambda: ode.solve_ode_ivp((-20.0, 1.0), lambda x: x, [1.0, 1.0], [1.0], FakeTF(rng)), ValueError, "span outside the transform domain"),
    ):
        try:
            bad_call()
            ctx.fail("corr", "solve_ode:argument-check", f"{what}: not rejected")
        except exc:
            pass
        ctx.count(["argcheck", what], nontrivial=True, tag="argument-check")


# ----------------------------------------------------------------------------------------------------------------
# oracle: manufactured solutions on the implementation (EXPLORATION of the accuracy clause)
# ----------------------------------------------------------------------------------------------------------------
def oracle(ctx: Ctx, budget: str):
    rng = ctx.rng
    cat = transforms_catalogue()
    names = list(cat)
    large = budget == "large"
    pts_n = 9

    # ---- IVP ----------------------------------------------------------------------------------------------------
    # every transform x every order once (method rotating), plus random extra cases
    plan = []
    mlist = ["DOP853", "RK45", "Radau", "LSODA", "BDF"]
    i = rng.randrange(5)
    for name in names:
        for order in (1, 2, 3):
            plan.append((name, order, mlist[i % 5]))
            i += 1
    extra = 400 if large else ctx.n(80, 900)
    for _ in range(extra):
        plan.append((rng.choice(names), rng.choice([1, 2, 3, 3]), rng.choice(mlist + ["RK23"])))
    timeouts = 0
    for name, order, method in plan:
        if timeouts >= 4:
            ctx.info("IVP exploration stopped after 4 solves that did not finish within the time limit")
            break
        prob = gen_problem(rng, order, name, cat)
        rt = METHODS[method]
        prob.update(method=method, rtol=rt, atol=rt * 1e-2)
        if rng.random() < 0.15 and not cat[name][2].get("np_span"):
            prob["span"] = prob["span"][::-1]           # integrate backwards
        tol = IVP_FACTOR * rt
        key = f"ode.solve_ode_ivp:order{order}:{name}"
        ctx.count(["ivp", prob], nontrivial=nontrivial_problem(prob, cat), tag=f"oracle:ivp:order{order}:{method}")
        pts = np.linspace(prob["span"][0], prob["span"][1], pts_n)
        try:
            with time_limit(SOLVE_TIME_LIMIT):
                sol = run_ivp(prob)
                errs, out = errors(prob, sol, pts)
        except Exception as e:
            timeouts += isinstance(e, SolveTimeout)
            ctx.fail("oracle", key, f"solve_ode_ivp raised {type(e).__name__}: {e} on a well-posed order-{order} problem ({prob['tf'] or 'no transform'}, {method})",
                     witness=prob, snippet=snippet_ivp(prob, tol))
            continue
        if max(errs) > tol:
            ctx.fail("oracle", key,
                     f"solve_ode_ivp order {order} through {prob['tf'] or 'no transform'} ({method}, rtol {rt}): the returned callable is off "
                     f"the exact solution: relative errors of [y, y', ..][:order] = {errs} > {tol}",
                     witness={"problem": prob, "errors": errs, "tolerance": tol}, snippet=snippet_ivp(prob, tol))
            continue
        # prescribed initial values (with respect to the ORIGINAL variable)
        x0 = prob["span"][0]
        at0 = np.atleast_2d(sol(np.array([x0])))[:, 0]
        want0 = [float(y_deriv(prob["y"], k)(x0)) for k in range(order)]
        if any(abs(a - b) > 1e-9 * (1 + abs(b)) for a, b in zip(at0, want0)):
            ctx.fail("oracle", key, f"solve_ode_ivp: initial values not reproduced at x0={x0}: {list(at0)} vs {want0}",
                     witness={"problem": prob, "at_x0": at0, "prescribed": want0}, snippet=snippet_ivp(prob, tol))
        # through transform == direct
        if prob["tf"]:
            try:
                with time_limit(SOLVE_TIME_LIMIT):
                    sold = run_ivp(prob, tf=None)
                    outd = np.atleast_2d(sold(pts))
                diff = max(float(np.max(np.abs(out[k] - outd[k])) / (1 + np.max(np.abs(outd[k])))) for k in range(order))
                if diff > 2 * tol:
                    ctx.fail("oracle", key, f"solve_ode_ivp: through {prob['tf']} differs from the direct solve by {diff} > {2 * tol}",
                             witness={"problem": prob, "difference": diff}, snippet=snippet_ivp(prob, tol))
            except Exception as e:
                timeouts += isinstance(e, SolveTimeout)
                ctx.fail("oracle", f"ode.solve_ode_ivp:order{order}:none", f"direct solve raised {type(e).__name__}: {e}", witness=prob)
        # no_derivatives=True returns y only
        if prob["tf"] and rng.random() < 0.2:
            try:
                with time_limit(SOLVE_TIME_LIMIT):
                    s2 = _ns["solve_ode_ivp"](_ns["span_of"](prob), rhs(prob), [coeff_fn(c) for c in prob["coeffs"]], want0,
                                              make_tf(prob), method=method, rtol=rt, atol=rt * 1e-2, no_derivatives=True)
                    o2 = np.asarray(s2(pts))
            except Exception as e:
                timeouts += isinstance(e, SolveTimeout)
                ctx.fail("oracle", key, f"solve_ode_ivp(no_derivatives=True) raised {type(e).__name__}: {e}", witness=prob)
                continue
            if o2.shape != (pts_n,) or np.max(np.abs(o2 - out[0])) > 1e-12 * (1 + np.max(np.abs(out[0]))):
                ctx.fail("oracle", key, f"solve_ode_ivp(no_derivatives=True) does not return row 0 of the full answer (shape {o2.shape})",
                         witness=prob)

    # ---- BVP ----------------------------------------------------------------------------------------------------
    plan = []
    for name in names:
        if cat[name][2].get("no_bvp"):
            continue
        for order in (1, 2, 3):
            plan.append((name, order))
    for _ in range(300 if large else ctx.n(60, 700)):
        name = rng.choice(names)
        if not cat[name][2].get("no_bvp"):
            plan.append((name, rng.choice([1, 2, 3, 3])))
    timeouts = 0
    for name, order in plan:
        if timeouts >= 4:
            ctx.info("BVP exploration stopped after 4 solves that did not finish within the time limit")
            break
        prob = gen_problem(rng, order, name, cat)
        pairs = [(i, j) for i in (0, 1) for j in range(order)]
        while True:
            sel = rng.sample(pairs, order)
            if any(j == 0 for _, j in sel):
                break
        prob.update(bc=[list(p) for p in sel], nmesh=rng.choice([8, 12, 20]), tol=BVP_TOL, max_nodes=20000,
                    reverse_mesh=bool(cat[name][2].get("decreasing")))
        key = f"ode.solve_ode_bvp:order{order}:{name}"
        ctx.count(["bvp", prob], nontrivial=nontrivial_problem(prob, cat), tag=f"oracle:bvp:order{order}")
        pts = np.linspace(prob["span"][0], prob["span"][1], pts_n)
        try:
            with time_limit(SOLVE_TIME_LIMIT):
                sol, bd = run_bvp(prob)
                errs, out = errors(prob, sol, pts)
        except Exception as e:
            timeouts += isinstance(e, SolveTimeout)
            ctx.fail("oracle", key, f"solve_ode_bvp raised {type(e).__name__}: {e} on an order-{order} problem ({prob['tf'] or 'no transform'})",
                     witness=prob, snippet=snippet_bvp(prob, BVP_ACCEPT))
            continue
        if max(errs) > BVP_ACCEPT:
            ctx.fail("oracle", key,
                     f"solve_ode_bvp order {order} through {prob['tf'] or 'no transform'} (tol {BVP_TOL}): relative errors of [y, y', ..] = {errs} > {BVP_ACCEPT}",
                     witness={"problem": prob, "errors": errs, "bd_cond": bd}, snippet=snippet_bvp(prob, BVP_ACCEPT))
            continue
        # prescribed boundary conditions: value conditions on y itself; derivative conditions, mapped back to x
        mesh = mesh_of(prob) if prob["tf"] else np.linspace(prob["span"][0], prob["span"][1], prob["nmesh"])
        ends = [float(mesh[0]), float(mesh[-1])]
        for (i, j, c) in bd:
            got = float(np.atleast_2d(sol(np.array([ends[i]])))[j, 0])
            want = float(y_deriv(prob["y"], j)(ends[i]))
            if abs(got - want) > 1e-6 * (1 + abs(want)):
                ctx.fail("oracle", key, f"solve_ode_bvp: boundary condition ({i},{j}) not met in the original variable: {got} vs {want}",
                         witness={"problem": prob, "bd_cond": bd}, snippet=snippet_bvp(prob, BVP_ACCEPT))
        if prob["tf"]:
            try:
                with time_limit(SOLVE_TIME_LIMIT):
                    sold, _ = run_bvp(prob, tf=None)
                    outd = np.atleast_2d(sold(pts))
                diff = max(float(np.max(np.abs(out[k] - outd[k])) / (1 + np.max(np.abs(outd[k])))) for k in range(order))
                if diff > 2 * BVP_ACCEPT:
                    ctx.fail("oracle", key, f"solve_ode_bvp: through {prob['tf']} differs from the direct solve by {diff}",
                             witness={"problem": prob, "difference": diff}, snippet=snippet_bvp(prob, BVP_ACCEPT))
            except Exception as e:
                timeouts += isinstance(e, SolveTimeout)
                ctx.fail("oracle", f"ode.solve_ode_bvp:order{order}:none", f"direct solve raised {type(e).__name__}: {e}", witness=prob)
            if rng.random() < 0.3:
                try:
                    with time_limit(SOLVE_TIME_LIMIT):
                        s2, _ = run_bvp(prob, no_derivatives=True)       # the default of solve_ode_bvp
                        o2 = np.asarray(s2(pts))
                except Exception as e:
                    timeouts += isinstance(e, SolveTimeout)
                    ctx.fail("oracle", key, f"solve_ode_bvp(no_derivatives=True) raised {type(e).__name__}: {e}", witness=prob)
                    continue
                if o2.shape != (pts_n,) or np.max(np.abs(o2 - out[0])) > 1e-9 * (1 + np.max(np.abs(out[0]))):
                    ctx.fail("oracle", key, f"solve_ode_bvp(no_derivatives=True) does not return y (shape {o2.shape})", witness=prob)

